import Lt.GenPos
open Gen.PosArith

theorem tdiv_nonneg_eq (a b : Int) (ha : 0 ≤ a) (hb : 0 ≤ b) : Int.tdiv a b = a / b := by
  exact Int.tdiv_eq_ediv_of_nonneg ha

/-- the generated post-record arithmetic (index.go:147–154) splits ⌈off/512⌉ exactly -/
theorem pos_L147_spec (rs curr cas : Int) (hrs : 0 < rs) (hc : 0 ≤ curr) (hcas : 0 ≤ cas) :
    let T := (cas + 511) / 512
    pos_L147 rs curr cas = (T / rs, T % rs) ∧ 0 ≤ T % rs ∧ T % rs < rs ∧
    seek_L53 rs (T / rs) (T % rs) = T * 512 := by
  intro T
  have hT : 0 ≤ T := by omega
  have e1 : ceilDiv (curr + (cas - curr)) blockSize = T := by
    unfold ceilDiv blockSize
    rw [tdiv_nonneg_eq _ _ (by omega) (by omega)]
    have : curr + (cas - curr) + 512 - 1 = cas + 511 := by omega
    rw [this]
  have hmod_nonneg := Int.emod_nonneg T (by omega : rs ≠ 0)
  have hmod_lt := Int.emod_lt_of_pos T hrs
  have hdm := Int.mul_ediv_add_emod T rs
  have hmul : T / rs * rs = rs * (T / rs) := Int.mul_comm _ _
  refine ⟨?_, hmod_nonneg, hmod_lt, ?_⟩
  · unfold pos_L147
    simp only [e1]
    rw [tdiv_nonneg_eq _ _ hT (by omega)]
    have hb : T - T / rs * rs = T % rs := by omega
    rw [hb]
    have : ¬ (T % rs > rs) := by omega
    simp [this]
  · unfold seek_L53 blockSize
    have : rs * 512 * (T / rs) + T % rs * 512 = (rs * (T / rs) + T % rs) * 512 := by
      rw [Int.add_mul, Int.mul_assoc, Int.mul_comm 512, ← Int.mul_assoc]
    rw [this, hdm]

#print axioms pos_L147_spec
