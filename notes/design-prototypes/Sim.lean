namespace Sim

abbrev Name := List Nat

structure Row where
  name : Name
  val : Nat
  deleted : Bool
deriving DecidableEq, Repr

abbrev Idx := List Row

inductive Rec
  | create (n : Name) (v : Nat)
  | update (n : Name) (v : Nat) (content : Bool)
  | delete (n : Name)
  | move (o n : Name)
deriving DecidableEq, Repr

def hasRow (i : Idx) (n : Name) : Bool := i.any (fun r => r.name == n)
def findLive (i : Idx) (n : Name) : Option Row := i.find? (fun r => r.name == n && !r.deleted)

def setRow (i : Idx) (n : Name) (v : Nat) : Idx :=
  i.map (fun r => if r.name == n then ⟨n, v, false⟩ else r)

def upsert (i : Idx) (n : Name) (v : Nat) : Idx :=
  if hasRow i n then setRow i n v else i ++ [⟨n, v, false⟩]

def tomb (i : Idx) (n : Name) : Idx :=
  i.map (fun r => if r.name == n then { r with deleted := true } else r)

def rename (i : Idx) (o n : Name) : Idx :=
  i.map (fun r => if r.name == o then { r with name := n } else r)

/-- `indexHeader`, simplified; `none` = the indexer returned an error. -/
def applyRec (i : Idx) : Rec → Option Idx
  | .create n v => some (upsert i n v)
  | .update n v true => some (setRow i n v)                       -- resurrects a tombstone
  | .update n v false => if (findLive i n).isSome then some (setRow i n v) else some i
  | .delete n => if (findLive i n).isSome then some (tomb i n) else none
  | .move o n => if hasRow i n then none /- UNIQUE -/ else some (rename i o n)

def replay (i : Idx) : List Rec → Option Idx
  | [] => some i
  | r :: rs => (applyRec i r).bind (fun i' => replay i' rs)

/-! the meaning of a tape -/
abbrev M := Name → Option Nat
def M.set (m : M) (n : Name) (v : Option Nat) : M := fun x => if x = n then v else m x

def denStep (m : M) : Rec → Option M
  | .create n v => some (m.set n (some v))
  | .update n v _ => if (m n).isSome then some (m.set n (some v)) else some m
  | .delete n => if (m n).isSome then some (m.set n none) else none
  | .move o n => if (m n).isSome then none else some ((m.set n (m o)).set o none)

def den (m : M) : List Rec → Option M
  | [] => some m
  | r :: rs => (denStep m r).bind (fun m' => den m' rs)

/-! triggers: where the index stops implementing the meaning -/
def trig (i : Idx) : Rec → Bool
  | .update n _ true => hasRow i n && (findLive i n).isNone      -- content update of a tombstoned key
  | .move o n => (hasRow i n && (findLive i n).isNone)          -- move onto a tombstone
                 || o == n || (findLive i o).isNone             -- degenerate moves
  | _ => false

structure R (i : Idx) (m : M) : Prop where
  nodup : (i.map (·.name)).Nodup
  live : ∀ n, (findLive i n).map (·.val) = m n

theorem findLive_some_name {i : Idx} {n : Name} {r : Row} (h : findLive i n = some r) :
    r.name = n ∧ r.deleted = false := by
  unfold findLive at h
  have := List.find?_some h
  simp at this
  exact this

theorem R_empty : R [] (fun _ => none) := ⟨by simp, by intro n; simp [findLive]⟩


theorem findLive_setRow (i : Idx) (n x : Name) (v : Nat) :
    (findLive (setRow i n v) x).map (·.val) =
      if x = n then (if hasRow i n then some v else none) else (findLive i x).map (·.val) := by
  induction i with
  | nil => simp [findLive, setRow, hasRow]
  | cons r rs ih =>
    simp only [findLive, setRow, hasRow] at ih ⊢
    by_cases hrn : r.name = n <;> by_cases hxn : x = n <;> by_cases hrx : r.name = x <;>
      simp_all [List.find?_cons] <;> (try (cases hd : r.deleted <;> simp_all))

theorem names_setRow (i : Idx) (n : Name) (v : Nat) :
    (setRow i n v).map (·.name) = i.map (·.name) := by
  induction i with
  | nil => rfl
  | cons r rs ih =>
    simp only [setRow, List.map_cons] at ih ⊢
    by_cases h : r.name = n <;> simp_all

theorem findLive_tomb (i : Idx) (n x : Name) :
    (findLive (tomb i n) x).map (·.val) = if x = n then none else (findLive i x).map (·.val) := by
  induction i with
  | nil => simp [findLive, tomb]
  | cons r rs ih =>
    simp only [findLive, tomb] at ih ⊢
    by_cases hrn : r.name = n <;> by_cases hxn : x = n <;> by_cases hrx : r.name = x <;>
      simp_all [List.find?_cons] <;> (try (cases hd : r.deleted <;> simp_all))

theorem names_tomb (i : Idx) (n : Name) : (tomb i n).map (·.name) = i.map (·.name) := by
  induction i with
  | nil => rfl
  | cons r rs ih =>
    simp only [tomb, List.map_cons] at ih ⊢
    by_cases h : r.name = n <;> simp_all

theorem hasRow_iff (i : Idx) (n : Name) : hasRow i n = true ↔ n ∈ i.map (·.name) := by
  simp [hasRow, List.any_eq_true]

theorem findLive_none_of_not_hasRow (i : Idx) (n : Name) (h : hasRow i n = false) : findLive i n = none := by
  simp only [findLive, List.find?_eq_none]
  intro r hr
  have : ¬ (hasRow i n = true) := by simp [h]
  rw [hasRow_iff] at this
  have hne : r.name ≠ n := fun e => this (List.mem_map.mpr ⟨r, hr, e⟩)
  simp [hne]

theorem step_create {i : Idx} {m : M} (h : R i m) (n : Name) (v : Nat) :
    R (upsert i n v) (m.set n (some v)) := by
  unfold upsert
  by_cases hr : hasRow i n = true
  · simp only [hr, if_true]
    refine ⟨by rw [names_setRow]; exact h.nodup, ?_⟩
    intro x
    rw [findLive_setRow, M.set]
    by_cases hx : x = n <;> simp [hx, hr, h.live]
  · have hr' : hasRow i n = false := by simpa using hr
    simp only [hr', Bool.false_eq_true, if_false]
    refine ⟨?_, ?_⟩
    · rw [List.map_append]
      simp only [List.map_cons, List.map_nil]
      rw [List.nodup_append]
      refine ⟨h.nodup, by simp, ?_⟩
      intro a ha b hb
      simp at hb
      subst hb
      intro e
      subst e
      exact hr ((hasRow_iff i a).mpr ha)
    · intro x
      simp only [findLive, List.find?_append, M.set]
      by_cases hx : x = n
      · subst hx
        have := findLive_none_of_not_hasRow i x hr'
        simp only [findLive] at this
        simp [this]
      · have hl := h.live x
        simp only [findLive] at hl
        have hnx : ¬ (n = x) := fun e => hx e.symm
        simp [hx, hnx, hl]


theorem names_rename (i : Idx) (o n : Name) :
    (rename i o n).map (·.name) = (i.map (·.name)).map (fun x => if x = o then n else x) := by
  induction i with
  | nil => rfl
  | cons r rs ih =>
    simp only [rename, List.map_cons] at ih ⊢
    by_cases h : r.name = o <;> simp_all

theorem findLive_rename (i : Idx) (o n x : Name) (hn : hasRow i n = false) (hon : o ≠ n) :
    (findLive (rename i o n) x).map (·.val) =
      if x = n then (findLive i o).map (·.val) else if x = o then none else (findLive i x).map (·.val) := by
  induction i with
  | nil => simp [findLive, rename]
  | cons r rs ih =>
    have hn' : hasRow rs n = false := by
      simp only [hasRow, List.any_cons, Bool.or_eq_false_iff] at hn; simpa [hasRow] using hn.2
    have hrn : r.name ≠ n := by
      simp only [hasRow, List.any_cons, Bool.or_eq_false_iff] at hn; simpa using hn.1
    have ih := ih hn'
    have hno : ¬ n = o := fun e => hon e.symm
    simp only [findLive, rename] at ih ⊢
    by_cases hro : r.name = o <;> by_cases hxn : x = n <;> by_cases hxo : x = o <;> by_cases hrx : r.name = x <;>
      simp_all [List.find?_cons] <;> (try (cases hd : r.deleted <;> simp_all)) <;>
      (try (have hnx : (n == x) = false := by
              rw [beq_eq_false_iff_ne]; exact fun e => hxn e.symm
            rw [hnx]; simp_all))

theorem nodup_rename {l : List Name} (o n : Name) (hl : l.Nodup) (hn : n ∉ l) :
    (l.map (fun x => if x = o then n else x)).Nodup := by
  induction l with
  | nil => simp
  | cons a as ih =>
    simp only [List.nodup_cons, List.mem_cons, not_or] at hl hn
    simp only [List.map_cons, List.nodup_cons]
    refine ⟨?_, ih hl.2 hn.2⟩
    intro hmem
    rw [List.mem_map] at hmem
    obtain ⟨b, hb, hbe⟩ := hmem
    by_cases hao : a = o <;> by_cases hbo : b = o <;> simp_all

/-- one record: the index implements the meaning unless a trigger fires -/
theorem step_sim {i : Idx} {m : M} (h : R i m) (r : Rec) (ht : trig i r = false) :
    match applyRec i r, denStep m r with
    | some i', some m' => R i' m'
    | none, none => True
    | _, _ => False := by
  have live_isSome : ∀ n, (findLive i n).isSome = (m n).isSome := by
    intro n; rw [← h.live n]; simp
  cases r with
  | create n v => simpa [applyRec, denStep] using step_create h n v
  | update n v c =>
    cases c with
    | true =>
      simp only [trig, Bool.and_eq_false_iff] at ht
      simp only [applyRec, denStep]
      by_cases hm : (m n).isSome = true
      · simp only [hm, if_true]
        refine ⟨by rw [names_setRow]; exact h.nodup, ?_⟩
        intro x
        rw [findLive_setRow, M.set]
        have hl : (findLive i n).isSome = true := by rw [live_isSome]; exact hm
        have hr : hasRow i n = true := by
          cases hh : hasRow i n with
          | true => rfl
          | false => rw [findLive_none_of_not_hasRow i n hh] at hl; simp at hl
        by_cases hx : x = n <;> simp [hx, hr, h.live]
      · have hm' : (m n).isSome = false := by simpa using hm
        simp only [hm', Bool.false_eq_true, if_false]
        have hl : (findLive i n).isSome = false := by rw [live_isSome]; exact hm'
        have hr : hasRow i n = false := by
          cases ht with
          | inl h1 => exact h1
          | inr h2 => simp [Option.isNone_iff_eq_none] at h2; rw [h2] at hl; simp at hl
        refine ⟨by rw [names_setRow]; exact h.nodup, ?_⟩
        intro x
        rw [findLive_setRow]
        by_cases hx : x = n
        · subst hx; simp [hr]; cases hmx : m x <;> simp_all
        · simp [hx, h.live]
    | false =>
      simp only [applyRec, denStep, live_isSome]
      by_cases hm : (m n).isSome = true
      · simp only [hm, if_true]
        refine ⟨by rw [names_setRow]; exact h.nodup, ?_⟩
        intro x
        rw [findLive_setRow, M.set]
        have hl : (findLive i n).isSome = true := by rw [live_isSome]; exact hm
        have hr : hasRow i n = true := by
          cases hh : hasRow i n with
          | true => rfl
          | false => rw [findLive_none_of_not_hasRow i n hh] at hl; simp at hl
        by_cases hx : x = n <;> simp [hx, hr, h.live]
      · simpa [hm] using h
  | delete n =>
    simp only [applyRec, denStep, live_isSome]
    by_cases hm : (m n).isSome = true
    · simp only [hm, if_true]
      refine ⟨by rw [names_tomb]; exact h.nodup, ?_⟩
      intro x
      rw [findLive_tomb, M.set]
      by_cases hx : x = n <;> simp [hx, h.live]
    · simp [hm]
  | move o n =>
    simp only [trig, Bool.or_eq_false_iff, Bool.and_eq_false_iff, beq_eq_false_iff_ne] at ht
    obtain ⟨⟨ht1, hon⟩, hlo⟩ := ht
    simp only [applyRec, denStep]
    by_cases hr : hasRow i n = true
    · -- UNIQUE error; the meaning must refuse too: n is live
      have hl : (findLive i n).isNone = false := by
        cases ht1 with
        | inl h1 => rw [hr] at h1; cases h1
        | inr h2 => exact h2
      have : (m n).isSome = true := by
        rw [← live_isSome]; cases hf : findLive i n <;> simp_all
      simp [hr, this]
    · have hr' : hasRow i n = false := by simpa using hr
      have hmn : (m n).isSome = false := by
        rw [← live_isSome, findLive_none_of_not_hasRow i n hr']; rfl
      simp only [hr', hmn, Bool.false_eq_true, if_false]
      refine ⟨?_, ?_⟩
      · rw [names_rename]
        exact nodup_rename o n h.nodup (fun hmem => hr ((hasRow_iff i n).mpr hmem))
      · intro x
        rw [findLive_rename i o n x hr' hon]
        simp only [M.set]
        by_cases hxo : x = o <;> by_cases hxn : x = n <;> simp_all [h.live]

/-- the decidable side-condition on a history: no trigger fires along it -/
def clean (i : Idx) : List Rec → Bool
  | [] => true
  | r :: rs => !trig i r && (match applyRec i r with | some i' => clean i' rs | none => true)

theorem replay_sim : ∀ (rs : List Rec) (i : Idx) (m : M), R i m → clean i rs = true →
    match replay i rs, den m rs with
    | some i', some m' => R i' m'
    | none, none => True
    | _, _ => False := by
  intro rs
  induction rs with
  | nil => intro i m h _; simpa [replay, den] using h
  | cons r rs ih =>
    intro i m h hc
    simp only [clean, Bool.and_eq_true, Bool.not_eq_true'] at hc
    have hs := step_sim h r hc.1
    simp only [replay, den]
    cases ha : applyRec i r with
    | none =>
      cases hd : denStep m r with
      | none => simp
      | some m' => simp [ha, hd] at hs
    | some i' =>
      cases hd : denStep m r with
      | none => simp [ha, hd] at hs
      | some m' =>
        simp only [ha, hd] at hs
        simp only [Option.bind_some]
        exact ih i' m' hs (by simpa [ha] using hc.2)

/-- full statement is false without the side-condition: move onto a tombstone -/
theorem move_onto_tombstone_breaks :
    let h := [Rec.create [97] 1, .create [98] 2, .delete [98], .move [97] [98]]
    replay [] h = none ∧ (den (fun _ => none) h).isSome = true ∧ clean [] h = false := by
  refine ⟨by decide, by decide, by decide⟩

#print axioms replay_sim
#print axioms move_onto_tombstone_breaks
end Sim
