/-! Generic theorem: operations whose bodies run under one mutex linearize in lock-release order. -/
namespace Lin

variable {σ Op Res : Type}

structure Impl (σ Op Res : Type) where
  steps : Op → List (σ → σ)        -- micro-steps of the critical section
  result : σ → Op → Res             -- result read off the state at the end of the section

def applyAll (fs : List (σ → σ)) (s : σ) : σ := fs.foldl (fun s f => f s) s

/-- sequential specification induced by the implementation: run the whole body atomically -/
def Impl.seqStep (I : Impl σ Op Res) (s : σ) (op : Op) : σ × Res :=
  let s' := applyAll (I.steps op) s
  (s', I.result s' op)

inductive Ph (σ Op Res : Type)
  | idle
  | waiting (op : Op)
  | inCS (op : Op) (rest : List (σ → σ))
  | finished (op : Op) (r : Res)

structure St (σ Op Res : Type) where
  mem : σ
  holder : Option Nat
  ph : Nat → Ph σ Op Res
  lin : List (Op × Res)             -- ghost: completed critical sections in release order

def upd (f : Nat → α) (t : Nat) (v : α) : Nat → α := fun x => if x = t then v else f x

inductive Step (I : Impl σ Op Res) : St σ Op Res → St σ Op Res → Prop
  | inv (s) (t op) : s.ph t = .idle → Step I s { s with ph := upd s.ph t (.waiting op) }
  | acq (s) (t op) : s.ph t = .waiting op → s.holder = none →
      Step I s { s with holder := some t, ph := upd s.ph t (.inCS op (I.steps op)) }
  | micro (s) (t op f rest) : s.ph t = .inCS op (f :: rest) → s.holder = some t →
      Step I s { s with mem := f s.mem, ph := upd s.ph t (.inCS op rest) }
  | rel (s) (t op) : s.ph t = .inCS op [] → s.holder = some t →
      Step I s { s with holder := none, ph := upd s.ph t (.finished op (I.result s.mem op)),
                        lin := s.lin ++ [(op, I.result s.mem op)] }
  | ret (s) (t op r) : s.ph t = .finished op r → Step I s { s with ph := upd s.ph t .idle }

inductive Reach (I : Impl σ Op Res) (s0 : σ) : St σ Op Res → Prop
  | init : Reach I s0 ⟨s0, none, fun _ => .idle, []⟩
  | step {a b} : Reach I s0 a → Step I a b → Reach I s0 b

/-- state after running a list of (op, result) pairs sequentially -/
def seqState (I : Impl σ Op Res) (s : σ) : List (Op × Res) → σ
  | [] => s
  | (op, _) :: l => seqState I (I.seqStep s op).1 l

/-- every recorded result is the sequential specification's result at that point -/
def validSeq (I : Impl σ Op Res) (s : σ) : List (Op × Res) → Prop
  | [] => True
  | (op, r) :: l => r = (I.seqStep s op).2 ∧ validSeq I (I.seqStep s op).1 l

theorem seqState_append (I : Impl σ Op Res) (s : σ) (l : List (Op × Res)) (op : Op) (r : Res) :
    seqState I s (l ++ [(op, r)]) = (I.seqStep (seqState I s l) op).1 := by
  induction l generalizing s with
  | nil => rfl
  | cons x l ih => obtain ⟨o, r'⟩ := x; simp [seqState, ih]

theorem validSeq_append (I : Impl σ Op Res) (s : σ) (l : List (Op × Res)) (op : Op) (r : Res)
    (h : validSeq I s l) (hr : r = (I.seqStep (seqState I s l) op).2) : validSeq I s (l ++ [(op, r)]) := by
  induction l generalizing s with
  | nil => exact ⟨hr, trivial⟩
  | cons x l ih =>
    obtain ⟨o, r'⟩ := x
    exact ⟨h.1, ih _ h.2 hr⟩

/-- the invariant: the mutex makes the section atomic -/
structure Inv (I : Impl σ Op Res) (s0 : σ) (s : St σ Op Res) : Prop where
  valid : validSeq I s0 s.lin
  free : s.holder = none → s.mem = seqState I s0 s.lin ∧ ∀ t op rest, s.ph t ≠ .inCS op rest
  held : ∀ t, s.holder = some t →
    (∃ op rest, s.ph t = .inCS op rest ∧
      applyAll rest s.mem = applyAll (I.steps op) (seqState I s0 s.lin)) ∧
    ∀ t' op rest, t' ≠ t → s.ph t' ≠ .inCS op rest

theorem inv_reach (I : Impl σ Op Res) (s0 : σ) (s : St σ Op Res) (h : Reach I s0 s) : Inv I s0 s := by
  induction h with
  | init => exact ⟨trivial, fun _ => ⟨rfl, by intro t op rest; simp⟩, by intro t h; cases h⟩
  | @step s b _ hs ih =>
    cases hs with
    | inv t op hp =>
      refine ⟨ih.valid, ?_, ?_⟩
      · intro hh
        refine ⟨(ih.free hh).1, ?_⟩
        intro t' op' rest
        simp only [upd]; split
        · simp
        · exact (ih.free hh).2 t' op' rest
      · intro th hh
        obtain ⟨⟨op', rest, hph, heq⟩, hoth⟩ := ih.held th hh
        refine ⟨⟨op', rest, ?_, heq⟩, ?_⟩
        · have : th ≠ t := by intro e; subst e; rw [hp] at hph; cases hph
          simp [upd, this, hph]
        · intro t' op'' rest' hne
          simp only [upd]; split
          · simp
          · exact hoth t' op'' rest' hne
    | acq t op hp hh =>
      refine ⟨ih.valid, (by intro h; cases h), ?_⟩
      intro th hth
      simp only [Option.some.injEq] at hth
      subst hth
      refine ⟨⟨op, I.steps op, by simp [upd], by rw [(ih.free hh).1]⟩, ?_⟩
      intro t' op' rest hne
      simp only [upd, hne, if_false]
      exact (ih.free hh).2 t' op' rest
    | micro t op f rest hp hh =>
      refine ⟨ih.valid, (by intro h; simp [hh] at h), ?_⟩
      intro th hth
      have : th = t := by simp [hh] at hth; exact hth.symm
      subst this
      obtain ⟨⟨op', rest', hph, heq⟩, hoth⟩ := ih.held th hh
      rw [hp] at hph
      cases hph
      refine ⟨⟨op, rest, by simp [upd], ?_⟩, ?_⟩
      · simpa [applyAll] using heq
      · intro t' op'' rest'' hne
        simp only [upd, hne, if_false]
        exact hoth t' op'' rest'' hne
    | rel t op hp hh =>
      obtain ⟨⟨op', rest', hph, heq⟩, hoth⟩ := ih.held t hh
      rw [hp] at hph
      cases hph
      have hmem : s.mem = (I.seqStep (seqState I s0 s.lin) op).1 := by
        simpa [applyAll, Impl.seqStep] using heq
      refine ⟨?_, ?_, (by intro th h; cases h)⟩
      · exact validSeq_append I s0 s.lin op _ ih.valid (by simp [Impl.seqStep, ← hmem]; rw [hmem]; rfl)
      · intro _
        refine ⟨by simp [seqState_append, ← hmem], ?_⟩
        intro t' op'' rest''
        simp only [upd]; split
        · simp
        · rename_i hne; exact hoth t' op'' rest'' hne
    | ret t op r hp =>
      refine ⟨ih.valid, ?_, ?_⟩
      · intro hh
        refine ⟨(ih.free hh).1, ?_⟩
        intro t' op' rest
        simp only [upd]; split
        · simp
        · exact (ih.free hh).2 t' op' rest
      · intro th hh
        obtain ⟨⟨op', rest, hph, heq⟩, hoth⟩ := ih.held th hh
        refine ⟨⟨op', rest, ?_, heq⟩, ?_⟩
        · have : th ≠ t := by intro e; subst e; rw [hp] at hph; cases hph
          simp [upd, this, hph]
        · intro t' op'' rest' hne
          simp only [upd]; split
          · simp
          · exact hoth t' op'' rest' hne

/-- every concurrent execution's completed operations form a valid sequential history, and when
the lock is free the shared state is exactly the sequential state -/
theorem linearizable (I : Impl σ Op Res) (s0 : σ) (s : St σ Op Res) (h : Reach I s0 s) :
    validSeq I s0 s.lin ∧ (s.holder = none → s.mem = seqState I s0 s.lin) :=
  ⟨(inv_reach I s0 s h).valid, fun hh => ((inv_reach I s0 s h).free hh).1⟩

#print axioms linearizable
end Lin
