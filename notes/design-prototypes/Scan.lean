/-! The scanner of recovery.Index over a laid-out tape finds exactly the written records at
exactly their positions, for every record size and every content length. -/
namespace Scan

def ceilDiv (a b : Nat) : Nat := (a + b - 1) / b

/-- as generated from index.go:147-154 -/
def nextPos (rs off : Nat) : Nat × Nat :=
  let total := ceilDiv off 512
  let record := total / rs
  let block := total - record * rs
  if block > rs then (record + 1, 0) else (record, block)

/-- as generated from index.go:53 / fetch.go:40 -/
def seekOff (rs : Nat) (p : Nat × Nat) : Nat := rs * 512 * p.1 + p.2 * 512

structure Item where
  hdrBlocks : Nat
  size : Nat            -- stored content length in bytes
  id : Nat              -- which header
deriving DecidableEq, Repr

inductive Elem | recd (it : Item) | trailer
deriving DecidableEq, Repr

def blocksOf : Elem → Nat
  | .recd it => it.hdrBlocks + ceilDiv it.size 512
  | .trailer => 2

def totalBlocks (es : List Elem) : Nat := (es.map blocksOf).sum

/-- element that starts exactly at byte offset `off`, the list starting at block `base` -/
def elemAt : List Elem → Nat → Nat → Option Elem
  | [], _, _ => none
  | e :: es, base, off =>
    if off = base * 512 then some e
    else if off < (base + blocksOf e) * 512 then none
    else elemAt es (base + blocksOf e) off

/-- the loop of recovery.Index under the tar-reader contract R1/R2 -/
def scan (rs : Nat) (tape : List Elem) : Nat → Nat × Nat → List ((Nat × Nat) × Item)
  | 0, _ => []
  | fuel + 1, pos =>
    let off := seekOff rs pos
    match elemAt tape 0 off with
    | some (.recd it) =>
      -- R1: header read, content drained, padding not consumed
      (pos, it) :: scan rs tape fuel (nextPos rs (off + it.hdrBlocks * 512 + it.size))
    | some .trailer =>
      -- R2: EOF after both zero blocks; resynchronise at the same (aligned) offset
      scan rs tape fuel (nextPos rs (off + 1024))
    | none => []

/-- where the writer put things -/
def positions (rs : Nat) : List Elem → Nat → List ((Nat × Nat) × Item)
  | [], _ => []
  | .recd it :: es, base => ((base / rs, base % rs), it) :: positions rs es (base + blocksOf (.recd it))
  | .trailer :: es, base => positions rs es (base + 2)

theorem ceilDiv_mul (b : Nat) : ceilDiv (b * 512) 512 = b := by
  unfold ceilDiv; omega

theorem nextPos_aligned (rs b : Nat) (h : 0 < rs) : nextPos rs (b * 512) = (b / rs, b % rs) := by
  unfold nextPos
  simp only [ceilDiv_mul]
  have hm : b - b / rs * rs = b % rs := by
    have := Nat.div_add_mod b rs
    have h2 : b / rs * rs = rs * (b / rs) := Nat.mul_comm _ _
    omega
  rw [hm]
  have := Nat.mod_lt b h
  have hn : ¬ (b % rs > rs) := by omega
  simp [hn]

theorem ceil_content (hb sz b : Nat) :
    ceilDiv (b * 512 + hb * 512 + sz) 512 = b + hb + ceilDiv sz 512 := by
  unfold ceilDiv; omega

theorem nextPos_after_record (rs b hb sz : Nat) (h : 0 < rs) :
    nextPos rs (b * 512 + hb * 512 + sz) = ((b + hb + ceilDiv sz 512) / rs, (b + hb + ceilDiv sz 512) % rs) := by
  have e : nextPos rs (b * 512 + hb * 512 + sz) = nextPos rs ((b + hb + ceilDiv sz 512) * 512) := by
    unfold nextPos
    simp only [ceil_content, ceilDiv_mul]
  rw [e, nextPos_aligned rs _ h]

theorem seekOff_split (rs b : Nat) (h : 0 < rs) : seekOff rs (b / rs, b % rs) = b * 512 := by
  unfold seekOff
  simp only
  have := Nat.div_add_mod b rs
  calc rs * 512 * (b / rs) + b % rs * 512 = (rs * (b / rs) + b % rs) * 512 := by
        rw [Nat.add_mul, Nat.mul_assoc, Nat.mul_comm 512, ← Nat.mul_assoc]
    _ = b * 512 := by rw [this]

theorem elemAt_skip (pre es : List Elem) (base : Nat) (hall : ∀ e ∈ pre, 0 < blocksOf e) :
    elemAt (pre ++ es) base ((base + totalBlocks pre) * 512) =
      elemAt es (base + totalBlocks pre) ((base + totalBlocks pre) * 512) := by
  induction pre generalizing base with
  | nil => simp [totalBlocks]
  | cons e pre ih =>
    have he : 0 < blocksOf e := hall e (by simp)
    have hpre : ∀ x ∈ pre, 0 < blocksOf x := fun x hx => hall x (by simp [hx])
    have ht : totalBlocks (e :: pre) = blocksOf e + totalBlocks pre := by simp [totalBlocks]
    simp only [List.cons_append, elemAt, ht]
    have h1 : ¬ ((base + (blocksOf e + totalBlocks pre)) * 512 = base * 512) := by omega
    have h2 : ¬ ((base + (blocksOf e + totalBlocks pre)) * 512 < (base + blocksOf e) * 512) := by omega
    simp only [h1, h2, if_false]
    have := ih (base + blocksOf e) hpre
    have e1 : base + blocksOf e + totalBlocks pre = base + (blocksOf e + totalBlocks pre) := by omega
    rw [e1] at this
    exact this

theorem elemAt_head (es : List Elem) (e : Elem) (base : Nat) : elemAt (e :: es) base (base * 512) = some e := by
  simp [elemAt]

/-- main lemma, generalised over the already scanned prefix -/
theorem scan_suffix (rs : Nat) (h : 0 < rs) (pre es : List Elem)
    (hpre : ∀ e ∈ pre, 0 < blocksOf e) (hes : ∀ e ∈ es, 0 < blocksOf e) (fuel : Nat) (hf : es.length < fuel) :
    scan rs (pre ++ es) fuel (totalBlocks pre / rs, totalBlocks pre % rs) = positions rs es (totalBlocks pre) := by
  induction es generalizing pre fuel with
  | nil =>
    cases fuel with
    | zero => simp at hf
    | succ f =>
      simp only [scan, seekOff_split rs _ h, positions]
      have := elemAt_skip pre [] 0 hpre
      simp only [Nat.zero_add] at this
      rw [this]; simp [elemAt]
  | cons e es ih =>
    cases fuel with
    | zero => simp at hf
    | succ f =>
      have hf' : es.length < f := by simp at hf; omega
      have hskip := elemAt_skip pre (e :: es) 0 hpre
      simp only [Nat.zero_add] at hskip
      have hpre' : ∀ x ∈ pre ++ [e], 0 < blocksOf x := by
        intro x hx; simp at hx; cases hx with
        | inl hx => exact hpre x hx
        | inr hx => subst hx; exact hes x (by simp)
      have hes' : ∀ x ∈ es, 0 < blocksOf x := fun x hx => hes x (by simp [hx])
      have htot : totalBlocks (pre ++ [e]) = totalBlocks pre + blocksOf e := by simp [totalBlocks]
      have happ : pre ++ e :: es = (pre ++ [e]) ++ es := by simp
      simp only [scan, seekOff_split rs _ h]
      rw [hskip, elemAt_head]
      cases e with
      | recd it =>
        simp only [positions]
        have hn := nextPos_after_record rs (totalBlocks pre) it.hdrBlocks it.size h
        rw [hn]
        have ih' := ih (pre ++ [.recd it]) hpre' hes' f hf'
        rw [htot] at ih'
        simp only [blocksOf] at ih' ⊢
        have e2 : totalBlocks pre + it.hdrBlocks + ceilDiv it.size 512 = totalBlocks pre + (it.hdrBlocks + ceilDiv it.size 512) := by omega
        rw [e2, happ, ih']
      | trailer =>
        simp only [positions]
        have e1 : totalBlocks pre * 512 + 1024 = (totalBlocks pre + 2) * 512 := by omega
        rw [e1, nextPos_aligned rs _ h]
        have ih' := ih (pre ++ [.trailer]) hpre' hes' f hf'
        rw [htot] at ih'
        simp only [blocksOf] at ih'
        rw [happ, ih']

/-- the scanner started at (0,0) returns exactly the written records at exactly their positions,
for every record size ≥ 1, every header size ≥ 1 block and every content length -/
theorem scan_written (rs : Nat) (h : 0 < rs) (es : List Elem) (hes : ∀ e ∈ es, 0 < blocksOf e) :
    scan rs es (es.length + 1) (0, 0) = positions rs es 0 := by
  have := scan_suffix rs h [] es (by simp) hes (es.length + 1) (by omega)
  simpa [totalBlocks, Nat.zero_div, Nat.zero_mod] using this

#print axioms scan_written
end Scan
