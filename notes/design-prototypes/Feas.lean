namespace Feas

/-! position arithmetic as in index.go:147-154 (translated shape) -/
def ceilDiv (a b : Nat) : Nat := (a + b - 1) / b

def nextPos (rs off : Nat) : Nat × Nat :=
  let total := ceilDiv off 512
  let record := total / rs
  let block := total - record * rs
  if block > rs then (record + 1, 0) else (record, block)

theorem nextPos_ok (rs off : Nat) (h : 0 < rs) :
    (nextPos rs off).2 < rs ∧ ((nextPos rs off).1 * rs + (nextPos rs off).2) * 512 = ceilDiv off 512 * 512 := by
  unfold nextPos
  simp only
  have hm : ceilDiv off 512 - ceilDiv off 512 / rs * rs = ceilDiv off 512 % rs := by
    have := Nat.div_add_mod (ceilDiv off 512) rs
    have h2 : ceilDiv off 512 / rs * rs = rs * (ceilDiv off 512 / rs) := Nat.mul_comm _ _
    omega
  rw [hm]
  have hlt := Nat.mod_lt (ceilDiv off 512) h
  have : ¬ (ceilDiv off 512 % rs > rs) := by omega
  simp only [this, if_false]
  refine ⟨hlt, ?_⟩
  have := Nat.div_add_mod (ceilDiv off 512) rs
  have h2 : ceilDiv off 512 / rs * rs = rs * (ceilDiv off 512 / rs) := Nat.mul_comm _ _
  omega

/-! tiny CFG lock checker by reflection -/
inductive Ev | lock (l : Nat) | unlock (l : Nat) | nop
deriving DecidableEq, Repr

structure Node where
  ev : Ev
  succ : List Nat
  exit : Bool

abbrev Locks := List Bool  -- held?

def applyEv (s : Locks) : Ev → Option Locks
  | .nop => some s
  | .lock l => if s.getD l false then none else some (s.set l true)
  | .unlock l => if s.getD l false then some (s.set l false) else none

def mkChain (n : Nat) : List Node :=
  (List.range n).map fun i =>
    { ev := if i % 3 == 0 then .lock 0 else if i % 3 == 1 then .nop else .unlock 0,
      succ := if i + 1 < n then [i+1, (i+3) % n] else [], exit := i + 1 == n }

def stepAll (g : List Node) (front : List (Nat × Locks)) : List (Nat × Locks) :=
  front.flatMap fun (i, s) =>
    match g[i]? with
    | none => []
    | some nd => match applyEv s nd.ev with
      | none => []
      | some s' => nd.succ.map fun j => (j, s')

def explore (g : List Node) : Nat → List (Nat × Locks) → List (Nat × Locks) → List (Nat × Locks)
  | 0, seen, _ => seen
  | f+1, seen, front =>
    let nxt := (stepAll g front).filter fun x => !(seen.contains x)
    let nxt := nxt.eraseDups
    if nxt.isEmpty then seen else explore g f (seen ++ nxt) nxt

def g60 := mkChain 60
set_option maxRecDepth 100000 in
theorem g60_states : (explore g60 200 [(0,[false])] [(0,[false])]).length ≤ 200 := by decide +kernel

end Feas
