/-! Reflective lock-discipline check: certificate (closed set of states) + soundness. -/
namespace Cfg

inductive Ev | lock (l : Nat) | unlock (l : Nat) | nop
deriving DecidableEq, Repr

structure Node where
  ev : Ev
  succ : List Nat
  exit : Bool
deriving DecidableEq, Repr

abbrev Locks := List Bool
abbrev Graph := List Node
abbrev St := Nat × Locks

def applyEv (s : Locks) : Ev → Option Locks
  | .nop => some s
  | .lock l => if s.getD l false then none else some (s.set l true)
  | .unlock l => if s.getD l false then some (s.set l false) else none

/-- one step of the skeleton: execute the node's event, go to a successor -/
inductive Step (g : Graph) : St → St → Prop
  | mk (n : Nat) (s s' : Locks) (nd : Node) (n' : Nat) :
      g[n]? = some nd → applyEv s nd.ev = some s' → n' ∈ nd.succ → Step g (n, s) (n', s')

inductive Reach (g : Graph) (init : St) : St → Prop
  | refl : Reach g init init
  | step {a b} : Reach g init a → Step g a b → Reach g init b

/-- "bad" = the event cannot execute (double lock = self-deadlock, unlock of a free lock = runtime
fatal) or an exit node is reached with a lock state different from the entry state -/
def okState (g : Graph) (s0 : Locks) (st : St) : Bool :=
  match g[st.1]? with
  | none => true
  | some nd =>
    match applyEv st.2 nd.ev with
    | none => false
    | some s' => if nd.exit then s' == s0 else true

def succs (g : Graph) (st : St) : List St :=
  match g[st.1]? with
  | none => []
  | some nd => match applyEv st.2 nd.ev with
    | none => []
    | some s' => nd.succ.map fun j => (j, s')

/-- the certificate check: `seen` contains the initial state, is closed under `succs`, all ok -/
def check (g : Graph) (s0 : Locks) (seen : List St) : Bool :=
  seen.contains (0, s0) &&
  seen.all (fun st => (succs g st).all (fun t => seen.contains t)) &&
  seen.all (okState g s0)

theorem step_mem_succs {g : Graph} {a b : St} (h : Step g a b) : b ∈ succs g a := by
  cases h with
  | mk n s s' nd n' hg ha hs =>
    simp only [succs, hg, ha]
    exact List.mem_map.mpr ⟨n', hs, rfl⟩

theorem check_sound (g : Graph) (s0 : Locks) (seen : List St) (hc : check g s0 seen = true) :
    ∀ st, Reach g (0, s0) st → okState g s0 st = true := by
  simp only [check, Bool.and_eq_true, List.all_eq_true, List.contains_iff_mem] at hc
  obtain ⟨⟨hinit, hclosed⟩, hok⟩ := hc
  have hmem : ∀ st, Reach g (0, s0) st → st ∈ seen := by
    intro st hr
    induction hr with
    | refl => exact hinit
    | step _ hs ih => exact hclosed _ ih _ (step_mem_succs hs)
  intro st hr
  exact hok st (hmem st hr)

/-! a certificate generator (not trusted: only `check` is) -/
def explore (g : Graph) : Nat → List St → List St → List St
  | 0, seen, _ => seen
  | f+1, seen, front =>
    let nxt := ((front.flatMap (succs g)).filter fun x => !(seen.contains x)).eraseDups
    if nxt.isEmpty then seen else explore g f (seen ++ nxt) nxt

/-- Delete() as extracted: lock; GetWriter(lock 1); 3 early error returns; CloseWriter; exit -/
def gLeaky : Graph := [
  ⟨.lock 0, [1], false⟩,          -- 0 diskOperationLock.Lock (deferred unlock modelled at exits)
  ⟨.lock 1, [2, 6], false⟩,       -- 1 GetWriter: physicalLock.Lock ; may fail → 6
  ⟨.nop, [3, 6], false⟩,          -- 2 GetHeader may fail → early return (6)
  ⟨.nop, [4], false⟩,             -- 3 WriteHeader
  ⟨.unlock 1, [5], false⟩,        -- 4 CloseWriter
  ⟨.unlock 0, [], true⟩,          -- 5 normal exit (deferred unlock 0)
  ⟨.unlock 0, [], true⟩ ]         -- 6 early exit: only the deferred unlock runs

def gFixed : Graph := [
  ⟨.lock 0, [1], false⟩, ⟨.lock 1, [2, 6], false⟩, ⟨.nop, [3, 6], false⟩, ⟨.nop, [4], false⟩,
  ⟨.unlock 1, [5], false⟩, ⟨.unlock 0, [], true⟩,
  ⟨.unlock 1, [7], false⟩,        -- 6 early path closes the writer first
  ⟨.unlock 0, [], true⟩ ]

def s0 : Locks := [false, false]

theorem fixed_ok : ∀ st, Reach gFixed (0, s0) st → okState gFixed s0 st = true :=
  check_sound gFixed s0 (explore gFixed 50 [(0, s0)] [(0, s0)]) (by decide +kernel)

/-- the leaky skeleton has a reachable bad exit: the witness path is the failing fault choice -/
theorem leaky_bad : ∃ st, Reach gLeaky (0, s0) st ∧ okState gLeaky s0 st = false := by
  refine ⟨(6, [true, true]), ?_, by decide⟩
  have h0 : Reach gLeaky (0, s0) (0, s0) := .refl
  have h1 : Reach gLeaky (0, s0) (1, [true, false]) :=
    .step h0 (.mk 0 s0 [true, false] _ 1 (by rfl) (by decide) (by decide))
  have h2 : Reach gLeaky (0, s0) (2, [true, true]) :=
    .step h1 (.mk 1 _ [true, true] _ 2 (by rfl) (by decide) (by decide))
  exact .step h2 (.mk 2 _ [true, true] _ 6 (by rfl) (by decide) (by decide))

#print axioms fixed_ok
#print axioms leaky_bad
end Cfg
