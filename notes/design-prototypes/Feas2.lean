import Lean
namespace Feas2
abbrev Name := List Nat

open Lean in
macro "n!" s:str : term => do
  let cs := s.getString.toList.map fun c => Syntax.mkNumLit (toString c.toNat)
  `(([$[$(cs.toArray)],*] : List Nat))

def lower (c : Nat) : Nat := if 65 ≤ c ∧ c ≤ 90 then c + 32 else c

def suffixes : List α → List (List α)
  | [] => [[]]
  | c :: s => (c :: s) :: suffixes s

def like : Name → Name → Bool
  | [], s => s.isEmpty
  | 37 :: p, s => (suffixes s).any fun t => like p t
  | 95 :: p, _ :: s => like p s
  | 95 :: _, [] => false
  | a :: p, c :: s => (lower a == lower c) && like p s
  | _ :: _, [] => false

structure Row where
  name : Name
  deleted : Bool
deriving DecidableEq

def children (rows : List Row) (d : Name) : List Row :=
  rows.filter fun r => like (d ++ n!"/%") r.name && !r.deleted

def removeAll (rows : List Row) (d : Name) : List Row :=
  let victims := (children rows d).map (·.name)
  rows.map fun r => if r.name = d ∨ r.name ∈ victims then { r with deleted := true } else r

def isUnder (d n : Name) : Bool := (d ++ n!"/").isPrefixOf n

def rows0 : List Row := [⟨n!"/", false⟩, ⟨n!"/a_", false⟩, ⟨n!"/ab", false⟩, ⟨n!"/ab/x", false⟩, ⟨n!"/a_/z", false⟩]

theorem removeAll_escapes_subtree :
    ∃ r ∈ removeAll rows0 (n!"/a_"), r.deleted = true ∧ r.name ≠ n!"/a_" ∧ isUnder (n!"/a_") r.name = false := by
  refine ⟨⟨n!"/ab/x", true⟩, ?_, ?_, ?_, ?_⟩ <;> decide
#print axioms removeAll_escapes_subtree
end Feas2
