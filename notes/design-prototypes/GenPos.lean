-- GENERATED from /repo/pkg/recovery/index.go — do not edit
namespace Gen.PosArith
def blockSize : Int := 512
def ceilDiv (a b : Int) : Int := Int.tdiv (a + b - 1) b

/-- /repo/pkg/recovery/index.go:147–154 -/
def pos_L147 (rs curr currAndSize : Int) : Int × Int :=
  let nextTotalBlocks := (ceilDiv (curr + ((currAndSize - curr))) blockSize)
  let record := (Int.tdiv nextTotalBlocks rs)
  let block := (nextTotalBlocks - ((record * rs)))
  let (record, block) := (if (block > rs) then
  let record := record + 1
  let block := 0
  (record, block)
  else
  (record, block))
  (record, block)

/-- /repo/pkg/recovery/index.go:72–82 -/
def pos_L72 (rs curr currAndSize : Int) : Int × Int :=
  let nextTotalBlocks := (ceilDiv (curr) blockSize)
  let record := (Int.tdiv nextTotalBlocks rs)
  let block := (nextTotalBlocks - ((record * rs)))
  let (record, block) := (if (block < 0) then
  let record := record - 1
  let block := (rs - 1)
  (record, block)
  else
  let (record, block) := (if (block ≥ rs) then
  let record := record + 1
  let block := 0
  (record, block)
  else
  (record, block))
  (record, block))
  (record, block)

/-- /repo/pkg/recovery/index.go:227–234 -/
def pos_L227 (rs curr currAndSize : Int) : Int × Int :=
  let nextTotalBlocks := (ceilDiv (curr + ((currAndSize - curr))) blockSize)
  let record := (Int.tdiv nextTotalBlocks rs)
  let block := (nextTotalBlocks - ((record * rs)))
  let (record, block) := (if (block > rs) then
  let record := record + 1
  let block := 0
  (record, block)
  else
  (record, block))
  (record, block)

/-- seek at /repo/pkg/recovery/index.go:53 -/
def seek_L53 (rs record block : Int) : Int :=
  ((((rs * blockSize) * record)) + (block * blockSize))

/-- seek at /repo/pkg/recovery/index.go:85 -/
def seek_L85 (rs record block : Int) : Int :=
  ((((rs * blockSize) * record)) + (block * blockSize))

end Gen.PosArith
