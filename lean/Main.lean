import Stfs.Driver
open Stfs.Driver

partial def loop (h : IO.FS.Stream) (out : IO.FS.Stream) (s : DState) : IO Unit := do
  let line ← h.getLine
  if line.isEmpty then return ()
  let line := (line.dropRightWhile (fun c => c == '\n' || c == '\r'))
  let (s', outs) := step s line
  for o in outs do out.putStrLn o
  loop h out s'

def main : IO Unit := do
  let stdin ← IO.getStdin
  let stdout ← IO.getStdout
  loop stdin stdout default
