/-
  C07 — Re-indexing over an existing index converges (idempotent replay).

  False of the code today for every tape that contains a move record (finding F17; witness
  below).  Proved: the ingredients that do converge — a CREATE applied twice is the same as
  applied once, and a replay is a fold (so a replay into the index of a prefix is the replay of
  the remaining suffix preceded by re-applying the prefix).
-/
import Stfs.Proofs.Replay
import Stfs.Proofs.PosInv
import Stfs.Model.Trig
import Stfs.Gen.Fingerprints
namespace Stfs.C07
open Stfs Gen Idx

theorem setByKey_hasKey (rows : List Row) (r : Row) : hasKey (setByKey rows r) r.name r.linkname = hasKey rows r.name r.linkname := by
  unfold hasKey setByKey
  induction rows with
  | nil => rfl
  | cons x xs ih =>
    simp only [List.map_cons, List.any_cons, ih]
    by_cases h : (x.name == r.name && x.linkname == r.linkname) = true
    · simp [h]
    · simp [h]

theorem setByKey_idem (rows : List Row) (r : Row) : setByKey (setByKey rows r) r = setByKey rows r := by
  unfold setByKey
  rw [List.map_map]
  apply List.map_congr_left
  intro x _
  simp only [Function.comp]
  by_cases h : (x.name == r.name && x.linkname == r.linkname) = true
  · have hr : (r.name == r.name && r.linkname == r.linkname) = true := by simp
    simp only [h, if_true, hr]
  · simp only [h, if_false, Bool.false_eq_true]

/-- (1) A CREATE record applied twice (verbatim names, as for the root record) leaves the table
    as after the first application: `UpsertHeader` is idempotent. -/
theorem upsert_idempotent (p : Idx) (r : Row) :
    (p.upsertHeader r true).upsertHeader r true = p.upsertHeader r true := by
  unfold upsertHeader
  have hr : ({ r with hdr := { r.hdr with name := r.name } } : Row) = r := rfl
  simp only [if_true, hr]
  by_cases h : hasKey p.rows r.name r.linkname = true
  · simp only [h, if_true, setByKey_hasKey, setByKey_idem]
  · simp only [h, if_false, Bool.false_eq_true]
    have h2 : hasKey (p.rows ++ [r]) r.name r.linkname = true := by
      simp [hasKey]
    simp only [h2, if_true]
    have h3 : setByKey (p.rows ++ [r]) r = p.rows ++ [r] := by
      unfold setByKey
      rw [List.map_append]
      congr 1
      · have : ∀ x ∈ p.rows, ¬ ((x.name == r.name && x.linkname == r.linkname) = true) := by
          intro x hx hxk
          apply h
          simp only [hasKey, List.any_eq_true]
          exact ⟨x, hx, hxk⟩
        conv => rhs; rw [← List.map_id p.rows]
        apply List.map_congr_left
        intro x hx
        simp [this x hx]
      · simp
    rw [h3]

/-- (2) Replay is a fold: replaying `a ++ b` into an index is replaying `a` and then `b`. -/
theorem replay_is_fold (c : Cfg) (off : Nat) (a b : Tape) (p : Idx) (B i : Nat) :
    indexLoopIdeal c false off .tape p B i (a ++ b) =
      match indexLoopIdeal c false off .tape p B i a with
      | (p', some e) => (p', some e)
      | (p', none) => indexLoopIdeal c false off .tape p' (B + tapeBlocks a) (i + recCount a) b :=
  indexLoopIdeal_append c false off .tape a b p B i

def env1 (now : Int) : Env := { now := now, recs := [(3, 0)] }

/-- the smallest history with a move record -/
def histF17 : List (Env × Call) :=
  [(env1 1, .init (n!"/") 511), (env1 2, .mkdir (n!"/a") 493), (env1 3, .rename (n!"/a") (n!"/b"))]

/-- (3) F17 witness: replaying the tape of `Mkdir /a; Rename /a /b` into the index that already
    reflects it reports an error (UNIQUE), so re-indexing is not idempotent. -/
theorem F17_witness :
    let s := ({} : Sys).runAll {} histF17
    (match (index {} s.w.idx s.w.tape ⟨0, 0⟩ false false 0 .tape).2 with | some .unique => true | _ => false) = true := by
  decide

theorem F17_trigger_fires :
    (Trig.evalPost {} (({} : Sys).runAll {} histF17)).contains "tapeHasMoveRecord" = true := by
  decide

-- MIRRORS-BEGIN (maintained by bin/update-mirrors)
/-- The parts of the model this file's theorems are about were written by hand against these
    versions of the functions they mirror (fingerprint of each function's comment-free source,
    regenerated on every run).  When one of them changes, this obligation fails: the change has
    to be confirmed harmless by the correspondence, or shows up as its failing input. -/
theorem model_mirrors_source :
    [(n!"recovery.indexHeader"), (n!"persisters.MetadataPersister.UpsertHeader"), (n!"persisters.MetadataPersister.MoveHeader")].map Gen.fingerprintOf =
    [some 1203388063636210460, some 1475075715614363495, some 431296354897121277] := by decide
-- MIRRORS-END

end Stfs.C07
