/-
  C04 — Index positions designate the right tape records.

  Property theorems only (helper lemmas live in `Stfs/Proofs`).  Everything is for all record
  sizes `rs ≥ 1`, all header sizes, all content lengths and all histories of calls.
-/
import Stfs.Proofs.PosOps
import Stfs.Proofs.SysPres
import Stfs.Gen.Fingerprints
namespace Stfs.C04
open Stfs Gen

/-- (1) The position arithmetic *as generated from `pkg/recovery/index.go` and `query.go`*:
    after a record that ends at byte `cas`, and after a resynchronisation at byte `curr`, the
    code computes exactly the split of the rounded-up block count by the record size. -/
theorem pos_arith (rs curr cas : Int) (hrs : 0 < rs) (hc : 0 ≤ curr) (hcas : 0 ≤ cas) :
    indexPos0 rs curr cas = (((cas + 511) / 512) / rs, ((cas + 511) / 512) % rs) ∧
    indexPos1 rs curr cas = (((curr + 511) / 512) / rs, ((curr + 511) / 512) % rs) ∧
    indexPos2 rs curr cas = (((cas + 511) / 512) / rs, ((cas + 511) / 512) % rs) ∧
    queryPos0 rs curr cas = (((cas + 511) / 512) / rs, ((cas + 511) / 512) % rs) ∧
    queryPos1 rs curr cas = (((curr + 511) / 512) / rs, ((curr + 511) / 512) % rs) ∧
    queryPos2 rs curr cas = (((cas + 511) / 512) / rs, ((cas + 511) / 512) % rs) :=
  ⟨afterRecord_spec rs curr cas hrs hcas, indexPos1_spec rs curr cas hrs hc, indexPos2_spec rs curr cas hrs hcas,
   queryPos0_spec rs curr cas hrs hcas, queryPos1_spec rs curr cas hrs hc, queryPos2_spec rs curr cas hrs hcas⟩

/-- (2) Every generated seek expression (`Index`, `Query`, `Fetch`/`Restore`) maps the position
    of block `T` back to byte `T * 512`. -/
theorem seek_roundtrip (rs T : Int) :
    indexSeek0 rs (T / rs) (T % rs) = T * 512 ∧ indexSeek1 rs (T / rs) (T % rs) = T * 512 ∧
    querySeek0 rs (T / rs) (T % rs) = T * 512 ∧ querySeek1 rs (T / rs) (T % rs) = T * 512 ∧
    fetchSeek0 rs (T / rs) (T % rs) = T * 512 :=
  ⟨indexSeek0_split rs T, indexSeek1_split rs T, querySeek0_split rs T, querySeek1_split rs T, fetchSeek0_split rs T⟩

/-- (3) `scan_written`: the loop of `recovery.Index`, driven by the generated arithmetic, visits
    every record at the position of its first block (it coincides with the loop that reads
    positions off the layout), however records, content lengths and trailers are interleaved. -/
theorem scan_written (c : Cfg) (hrs : 0 < c.rs) (initializing : Bool) (offset : Nat) (s : Subst)
    (items : Tape) (p : Idx) (B i : Nat) :
    indexLoop c initializing offset s p (posOfBlock c.rs B) ((B : Int) * blockSize) i items
      = indexLoopIdeal c initializing offset s p B i items :=
  indexLoop_eq_ideal c hrs initializing offset s items p B i

/-- (4) The invariant for every history: after any sequence of calls (successful or failing),
    every row — live or tombstone — has a content position and a last-known position that are
    the start of a record on the tape. -/
theorem positions_are_record_starts (f : FsCfg) (hrs : 0 < f.c.rs) (hist : List (Env × Call)) :
    PosInvW f.c ((({} : Sys).runAll f hist).w) :=
  Sys.runAll_pres (opsPres_posInv f hrs) hist {} (by intro r hr; simp at hr)

/-- (5) The block component is always smaller than the record size (and non-negative). -/
theorem block_lt_record_size (f : FsCfg) (hrs : 0 < f.c.rs) (hist : List (Env × Call)) :
    ∀ r ∈ ((({} : Sys).runAll f hist).w).idx.rows,
      0 ≤ r.blk ∧ r.blk < f.c.rs ∧ 0 ≤ r.lkBlk ∧ r.lkBlk < f.c.rs := by
  intro r hr
  obtain ⟨⟨B, _, _, _, hb⟩, ⟨B', _, _, _, hb'⟩⟩ := positions_are_record_starts f hrs hist r hr
  rw [hb, hb']
  exact ⟨Int.emod_nonneg _ (by omega), Int.emod_lt_of_pos _ hrs, Int.emod_nonneg _ (by omega), Int.emod_lt_of_pos _ hrs⟩

/-- (6) Fetching at a recorded position finds a record: the seek `Fetch`/`Restore` performs for
    any row lands on the first block of a record of the tape. -/
theorem fetch_lands_on_record (f : FsCfg) (hrs : 0 < f.c.rs) (hist : List (Env × Call)) :
    ∀ r ∈ ((({} : Sys).runAll f hist).w).idx.rows,
      ∃ B h, (B, h) ∈ recordStarts ((({} : Sys).runAll f hist).w).tape ∧
        fetchSeek0 f.c.rs r.recd r.blk = (B : Int) * 512 := by
  intro r hr
  obtain ⟨⟨B, h, hm, ha, hb⟩, _⟩ := positions_are_record_starts f hrs hist r hr
  exact ⟨B, h, hm, by rw [ha, hb]; exact fetchSeek0_split _ _⟩

/-- non-vacuity: a concrete history reaches a state with two records whose rows satisfy the
    invariant with non-trivial positions (record size 1: every block is its own record) -/
example :
    let f : FsCfg := { c := { rs := 1 } }
    let s := ({} : Sys).runAll f [({ now := 1, recs := [(3, 0)] }, .init [47] 511), ({ now := 2, recs := [(3, 0)] }, .mkdir [47, 97] 493)]
    s.w.idx.rows.map (fun r => (r.recd, r.blk)) = [(0, 0), (5, 0)] := by
  decide

/-- (7) `GetLastIndexedRecordAndBlock` returns a position at or behind every row's last-known
    position (tombstones included): the next write operation starts indexing at the end of what
    the index knows. -/
theorem lastIndexed_is_max (p : Idx) (rs : Int) :
    ∀ r ∈ p.rows, r.lkRecd * rs + r.lkBlk ≤ (p.lastIndexed rs).1 * rs + (p.lastIndexed rs).2 := by
  unfold Idx.lastIndexed
  have key : ∀ (rows : List Row) (best : Int × Int),
      best.1 * rs + best.2 ≤ (rows.foldl (fun (b : Int × Int) r =>
          if r.lkRecd * rs + r.lkBlk > b.1 * rs + b.2 then (r.lkRecd, r.lkBlk) else b) best).1 * rs +
        (rows.foldl (fun (b : Int × Int) r =>
          if r.lkRecd * rs + r.lkBlk > b.1 * rs + b.2 then (r.lkRecd, r.lkBlk) else b) best).2 ∧
      ∀ r ∈ rows, r.lkRecd * rs + r.lkBlk ≤ (rows.foldl (fun (b : Int × Int) r =>
          if r.lkRecd * rs + r.lkBlk > b.1 * rs + b.2 then (r.lkRecd, r.lkBlk) else b) best).1 * rs +
        (rows.foldl (fun (b : Int × Int) r =>
          if r.lkRecd * rs + r.lkBlk > b.1 * rs + b.2 then (r.lkRecd, r.lkBlk) else b) best).2 := by
    intro rows
    induction rows with
    | nil => intro best; exact ⟨Int.le_refl _, fun r hr => by cases hr⟩
    | cons x xs ih =>
      intro best
      simp only [List.foldl_cons]
      by_cases hx : x.lkRecd * rs + x.lkBlk > best.1 * rs + best.2
      · simp only [hx, if_true]
        obtain ⟨h1, h2⟩ := ih (x.lkRecd, x.lkBlk)
        refine ⟨Int.le_trans (Int.le_of_lt hx) h1, ?_⟩
        intro r hr
        cases hr with
        | head => exact h1
        | tail _ hr => exact h2 r hr
      · simp only [hx, if_false]
        obtain ⟨h1, h2⟩ := ih best
        refine ⟨h1, ?_⟩
        intro r hr
        cases hr with
        | head => exact Int.le_trans (Int.not_lt.mp hx) h1
        | tail _ hr => exact h2 r hr
  exact (key p.rows (0, 0)).2

-- MIRRORS-BEGIN (maintained by bin/update-mirrors)
/-- The parts of the model this file's theorems are about were written by hand against these
    versions of the functions they mirror (fingerprint of each function's comment-free source,
    regenerated on every run).  When one of them changes, this obligation fails: the change has
    to be confirmed harmless by the correspondence, or shows up as its failing input. -/
theorem model_mirrors_source :
    [(n!"persisters.MetadataPersister.GetLastIndexedRecordAndBlock"), (n!"recovery.Index"), (n!"recovery.Fetch")].map Gen.fingerprintOf =
    [some 848024407035557031, some 1657455892095054075, some 409879996791663625] := by decide
-- MIRRORS-END

end Stfs.C04
