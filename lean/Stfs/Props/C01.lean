/-
  C01 — The index is a pure function of the tape (rebuild / reopen equivalence).

  Partial.  Proved: the rebuild is a function of the tape alone (it purges first), it is a left
  fold over the records of the tape at their layout positions (so "every prefix" is free and a
  write operation's incremental pass is the same fold continued), and the generated position
  arithmetic drives that fold correctly.  The remaining step — that the incremental fold of
  the running instance and the from-scratch fold agree up to the root spelling (`/a` vs `a`),
  and that listings commute with that spelling — is decided by the oracle on the real code
  after every call and by the correspondence (the model predicts both the live and the rebuilt
  table); it fails today in the regions of findings F01, F10, F11, F12 (witnesses below).
-/
import Stfs.Proofs.Replay
import Stfs.Proofs.PosOps
import Stfs.Model.Trig
import Stfs.Gen.Fingerprints
namespace Stfs.C01
open Stfs Gen

/-- (1) A rebuild does not depend on what the index contained before (nothing the user sees
    after a rebuild lives only in the index). -/
theorem rebuild_ignores_index (c : Cfg) (p q : Idx) (t : Tape) (init : Bool) (off : Nat) (s : Subst) :
    index c p t ⟨0, 0⟩ true init off s = index c q t ⟨0, 0⟩ true init off s := by
  unfold index
  simp [Idx.purge]

/-- (2) The rebuild is the ideal fold: started at `(0, 0)` on a tape, the code's loop (generated
    arithmetic, re-seek after every trailer) applies each record at the position of its first
    block, in tape order. -/
theorem rebuild_is_fold (c : Cfg) (hrs : 0 < c.rs) (p : Idx) (t : Tape) (init : Bool) (off : Nat) (s : Subst) :
    index c p t ⟨0, 0⟩ true init off s = indexLoopIdeal c init off s {} 0 0 t := by
  unfold index
  have h0 : indexSeek0 c.rs 0 0 = 0 := by unfold indexSeek0; simp
  simp only [if_true, h0, Idx.purge]
  have hit : itemsFrom t 0 = some t := by
    unfold itemsFrom; cases t <;> simp [itemsFromAux]
  have h1 : ((0 : Int) / blockSize).toNat = 0 := by simp
  have hl := indexLoop_eq_ideal c hrs init off s t {} 0 0
  simp only [posOfBlock, blockSize] at hl
  simp only [blockSize] at h1 ⊢
  simp [hit]
  simpa using hl

/-- (3) Replay of a longer tape continues the replay of its prefix (the statement for every
    prefix of a history, and the reason an incremental pass can be a suffix of the rebuild). -/
theorem replay_append (c : Cfg) (init : Bool) (off : Nat) (s : Subst) (a b : Tape) (p : Idx) (B i : Nat) :
    indexLoopIdeal c init off s p B i (a ++ b) =
      match indexLoopIdeal c init off s p B i a with
      | (p', some e) => (p', some e)
      | (p', none) => indexLoopIdeal c init off s p' (B + tapeBlocks a) (i + recCount a) b :=
  indexLoopIdeal_append c init off s a b p B i

def env1 (now : Int) : Env := { now := now, recs := [(3, 0)] }

/-- the history of finding F01: write `/a`, write `/b`, remove `/b`, rename `/a` onto `/b` -/
def histF01 : List (Env × Call) :=
  [(env1 1, .init (n!"/") 511),
   (env1 2, .create 1 (n!"/a")), ({ now := 3, recs := [(3, 5)] }, .hwrite 1 [1, 2, 3, 4, 5]), ({ now := 3, recs := [(3, 5)] }, .hclose 1),
   (env1 4, .create 2 (n!"/b")), ({ now := 5, recs := [(3, 3)] }, .hwrite 2 [7, 8, 9]), ({ now := 5, recs := [(3, 3)] }, .hclose 2),
   (env1 6, .remove (n!"/b")), (env1 7, .rename (n!"/a") (n!"/b"))]

/-- (4) F01 witness: after renaming onto a name that has a tombstone, the running index and a
    rebuild of the same tape disagree — the rebuild stops with an error at the move record. -/
theorem F01_witness :
    let s := ({} : Sys).runAll {} histF01
    ((rebuildOp {} s.w).2.isSome) = true ∧
    (s.w.idx.rows.filter (·.live)).map (·.name) = [(n!"/"), (n!"/a"), (n!"/b")] := by
  decide

theorem F01_trigger_fires :
    (Trig.eval {} (({} : Sys).runAll {} (histF01.take 8)) (.rename (n!"/a") (n!"/b"))).contains "moveOntoUsedKey" = true := by
  decide

-- MIRRORS-BEGIN (maintained by bin/update-mirrors)
/-- The parts of the model this file's theorems are about were written by hand against these
    versions of the functions they mirror (fingerprint of each function's comment-free source,
    regenerated on every run).  When one of them changes, this obligation fails: the change has
    to be confirmed harmless by the correspondence, or shows up as its failing input. -/
theorem model_mirrors_source :
    [(n!"recovery.indexHeader"), (n!"recovery.Index"), (n!"persisters.MetadataPersister.UpsertHeader"), (n!"persisters.MetadataPersister.UpdateHeaderMetadata"), (n!"persisters.MetadataPersister.MoveHeader"), (n!"persisters.MetadataPersister.DeleteHeader"), (n!"persisters.MetadataPersister.getSanitizedPath")].map Gen.fingerprintOf =
    [some 1203388063636210460, some 1657455892095054075, some 1475075715614363495, some 1156983867159650422, some 431296354897121277, some 487247875105465038, some 134905088822168908] := by decide
-- MIRRORS-END

end Stfs.C01
