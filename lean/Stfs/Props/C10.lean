/-
  C10 — Every call returns and leaves the drive free, even when something fails.

  Partial.  The lock skeletons are regenerated from the Go source on every run
  (`Gen/Locks.lean`); the analysis (`Model/Locks.lean`) is proved sound once; the theorems below
  are decided by the kernel on the generated table.  Known to be false today for every error
  return between `GetWriter` and `CloseWriter` of the four write operations (findings F02/F21),
  for a failing open inside the drive manager (F21) and for read errors inside a handle's
  streaming goroutine (F18); those regions are pinned exactly, so a *new* leaking exit, a new
  panic site or a lost `defer` changes a decided equality.
-/
import Stfs.Model.Locks
import Stfs.Model.Sys
namespace Stfs.C10
open Stfs Stfs.Locks Stfs.Gen

/-- (1) Soundness of the analysis: an execution that returns at an exit which is not reported
    as a leak site has released the drive and every mutex the function took. -/
theorem analysis_sound (evs : List LEv) (s0 : St) (chs : List Bool) (site : Site) (s : St)
    (h : run evs s0 chs = some (site, s)) (hn : site ∉ leakSites evs s0) : s.balanced = true :=
  no_leak_sound evs s0 chs site s h hn

def writeOps : List LName := [n!"Operations.archive", n!"Operations.Update", n!"Operations.Delete", n!"Operations.Move"]

/-- exits located after the first `release` (= after `CloseWriter`: the re-index phase) -/
def exitsAfterRelease : List LEv → Bool → List Site
  | [], _ => []
  | .release :: rest, _ => exitsAfterRelease rest true
  | .exit c n :: rest, seen => (if seen then [(c, n)] else []) ++ exitsAfterRelease rest seen
  | .ret :: rest, seen => (if seen then [([], 0)] else []) ++ exitsAfterRelease rest seen
  | _ :: rest, seen => exitsAfterRelease rest seen

/-- (2) The re-index phase of every write operation never leaks: once the writer has been
    closed, every exit (an error from `recovery.Index` included: the reader is closed by a
    `defer`) and the final return leave the drive free.  The only exception is the exit that
    handles `GetReader`'s own failure (the drive manager's open leak, finding F21). -/
theorem index_phase_never_leaks :
    writeOps.all (fun f =>
      let evs := expand (skeleton f)
      (exitsAfterRelease evs false).all (fun s =>
        s == (n!"backend.GetReader", 0) || s == (n!"backend.CloseWriter", 0) || !(leakSites evs).contains s)) = true := by
  decide

/-- (3) `Restore` and every method of `*STFS` and `*File` (closures inlined) release everything
    they take at every exit — in particular `ioLock` (always through `defer`), and the reader in
    `Initialize` whichever way its rebuild ends.  (`Restore`'s only leaking exit is again
    `GetReader`'s own failure.) -/
theorem fs_methods_balanced :
    (lockSkeletons.all (fun (name, evs) =>
      !(hasPrefix name (n!"STFS.") || hasPrefix name (n!"File.")) || name.contains 36 /- '$': closure bodies are inlined at their call sites -/ ||
      (leakSites (expand evs)).isEmpty)) = true ∧
    leakSites (expand (skeleton (n!"Operations.Restore"))) = [(n!"backend.GetReader", 0)] := by
  decide

/-- (4) No lock or drive event sits inside a loop body (so the balance at an exit does not
    depend on how often a loop ran). -/
theorem loops_neutral : (lockSkeletons.all (fun (_, evs) => loopsNeutral evs)) = true := by
  decide

/-- (5) No function of the lock-relevant code (operations, drive manager, every filesystem and
    file method and their goroutines) calls `panic`: the two streaming goroutines, which used to
    turn a read error into a panic (finding F18, repaired), hand the error to the reader. -/
theorem panic_sites :
    (lockSkeletons.filter (fun (_, evs) => evs.contains .panic)).map (·.1) = [] := by
  decide

/-- (6) F21 witness (drive manager): when opening the drive fails, `GetWriter` and
    `openOrReuseReader` return with `physicalLock` held. -/
theorem F21_manager_witness :
    (leakSites (skeleton (n!"TapeManager.GetWriter"))).contains (n!"OpenTapeWriteOnly", 0) = true ∧
    (leakSites (skeleton (n!"TapeManager.openOrReuseReader"))).contains (n!"OpenTapeReadOnly", 0) = true := by
  decide

/-- (7) F02 witness on the generated skeleton: `Delete`'s exit for a name that cannot be looked
    up lies between `GetWriter` and `CloseWriter` and leaks the drive … -/
theorem F02_skeleton_witness :
    (leakSites (skeleton (n!"Operations.Delete"))).contains (n!"Metadata.GetHeaderByLinkname", 0) = true := by
  decide

/-- … and on the model: `RemoveAll` of a missing path returns success and wedges the instance. -/
theorem F02_model_witness :
    let s := ({} : Sys).runAll {} [({ now := 1, recs := [(3, 0)] }, .init (n!"/") 511)]
    let s' := (s.step {} {} (.removeAll (n!"/nope"))).1
    s'.w.stuck = true ∧ (match (s'.step {} { now := 2, recs := [(3, 0)] } (.mkdir (n!"/x") 493)).2 with | .error .stuck => true | _ => false) = true := by
  decide

/-! ### the same question on the operation models: when does a write operation leave the drive locked? -/

theorem reindex_keeps_stuck (c : Cfg) (w : World) (t : Tape) (start : Int × Int) (o i : Bool) (hs : List Hdr) :
    (reindex c w t start o i hs).1.stuck = w.stuck := by
  unfold reindex
  rfl

/-- (9) In the model of the four write operations the drive stays free (`stuck` keeps its value)
    on every path except the ones named here — which are exactly the regions of findings F21
    and F02: a source that cannot be emitted (Archive, Update), a name that cannot be looked up
    (Delete, Move), and a Move whose relative target equals its source.  In particular a call
    that fails while indexing what it appended (any error of the re-index pass) leaves the
    drive free. -/
theorem archive_free_unless (c : Cfg) (w : World) (srcs : List Src) (o i : Bool) (env : EnvRecs)
    (h : (emitAll (archiveItem c) srcs env 0).isSome = true) : (archive c w srcs o i env).1.stuck = w.stuck := by
  unfold archive
  by_cases hs : w.stuck = true
  · simp [hs]
  · simp only [hs, Bool.false_eq_true, if_false]
    cases he : emitAll (archiveItem c) srcs env 0 with
    | none => rw [he] at h; cases h
    | some x => obtain ⟨hdrs, its⟩ := x; simp only [reindex_keeps_stuck]; simpa using hs

theorem update_free_unless (c : Cfg) (w : World) (srcs : List Src) (r k : Bool) (env : EnvRecs)
    (h : (emitAll (fun s e => updateItem c s r k e) srcs env 0).isSome = true) :
    (update c w srcs r k env).1.stuck = w.stuck := by
  unfold update
  by_cases hs : w.stuck = true
  · simp [hs]
  · simp only [hs, Bool.false_eq_true, if_false]
    cases he : emitAll (fun s e => updateItem c s r k e) srcs env 0 with
    | none => rw [he] at h; cases h
    | some x => obtain ⟨hdrs, its⟩ := x; simp only [reindex_keeps_stuck]; simpa using hs

theorem delete_free_unless (c : Cfg) (w : World) (name : Name) (env : EnvRecs)
    (h : (lookupForWrite w.idx name).2.toOption.isSome = true) : (delete c w name env).1.stuck = w.stuck := by
  unfold delete
  by_cases hs : w.stuck = true
  · simp [hs]
  · simp only [hs, Bool.false_eq_true, if_false]
    generalize hl : lookupForWrite w.idx name = x at h
    obtain ⟨p, r⟩ := x
    cases r with
    | error e => simp [Except.toOption] at h
    | ok r =>
      simp only
      split <;> simp only [reindex_keeps_stuck]

theorem move_free_unless (c : Cfg) (w : World) (from_ to : Name) (env : EnvRecs)
    (h : (lookupForWrite w.idx from_).2.toOption.isSome = true)
    (h2 : ∀ r, (lookupForWrite w.idx from_).2 = .ok r → from_ ≠ moveTarget r.name to) :
    (move c w from_ to env).1.stuck = w.stuck := by
  unfold move
  by_cases he : (from_ == to) = true
  · simp [he]
  · simp only [he, Bool.false_eq_true, if_false]
    by_cases hs : w.stuck = true
    · simp [hs]
    · simp only [hs, Bool.false_eq_true, if_false]
      generalize hl : lookupForWrite w.idx from_ = x at h h2
      obtain ⟨p, r⟩ := x
      cases r with
      | error e => simp [Except.toOption] at h
      | ok r =>
        have hne : (from_ == moveTarget r.name to) = false := by
          simp only [beq_eq_false_iff_ne, ne_eq]; exact h2 r rfl
        simp only [hne, Bool.false_eq_true, if_false]
        split <;> simp only [reindex_keeps_stuck]

end Stfs.C10
