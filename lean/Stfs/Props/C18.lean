/-
  C18 — Generated keys work, and only with the right password.

  Over the symbolic model of `utility.Keygen` and `keys.Parse(Signer)Identity`
  (Model/Keys.lean), whose per-format wrapping rules are regenerated from the source on every
  run (Gen/KeyWrap.lean): ideal primitives, real decision logic.
-/
import Stfs.Model.Keys
namespace Stfs.C18
open Stfs Stfs.Keys Stfs.Gen

/-- the translator saw password and key bytes reach the primitives unchanged, and the pgp
    signature format delegating to the pgp encryption code (so that `KFmt.pgp` covers both) -/
theorem key_material_verbatim : keyMaterialVerbatim = true ∧ pgpSignatureReusesEncryption = true := by decide

/-- (1) A freshly generated pair parses with its own password and then decrypts / verifies
    what was produced under its public half — for every format and every password (empty,
    non-ASCII, any length: passwords are arbitrary code-point lists here). -/
theorem right_password_roundtrip (f : KFmt) (pw : Name) (k : Nat) :
    parse f (keygen f pw k) pw = some (.usable k) ∧ works (.usable k) k = true := by
  refine ⟨?_, by simp [works]⟩
  cases f
  · -- age
    by_cases hp : pw = []
    · subst hp
      simp [parse, keygen, keygenRule, parseRule, ageKeygenWrap, ageParseUnwrap, applies]
    · have e : (pw != []) = true := by simpa [bne] using hp
      simp [parse, keygen, keygenRule, parseRule, ageKeygenWrap, ageParseUnwrap, applies, e]
  · -- pgp
    simp [parse, keygen, keygenRule, parseRule, pgpKeygenWrap, pgpParseUnwrap, applies]
  · -- minisign
    simp [parse, keygen, keygenRule, parseRule, minisignKeygenWrap, minisignParseUnwrap, applies]

/-- (2) Parsing the private half with a different password fails — for every format. -/
theorem wrong_password_rejected (f : KFmt) (pw pw' : Name) (k : Nat) (hne : pw ≠ pw') :
    parse f (keygen f pw k) pw' = none := by
  have hne' : (pw' == pw) = false := by
    simp only [beq_eq_false_iff_ne, ne_eq]; exact fun e => hne e.symm
  cases f
  · -- age
    by_cases hp : pw = [] <;> by_cases hp' : pw' = []
    · exact absurd (hp.trans hp'.symm) hne
    · subst hp
      have e : (pw' != []) = true := by simpa [bne] using hp'
      simp [parse, keygen, keygenRule, parseRule, ageKeygenWrap, ageParseUnwrap, applies, e]
    · subst hp'
      have e : (pw != []) = true := by simpa [bne] using hp
      simp [parse, keygen, keygenRule, parseRule, ageKeygenWrap, ageParseUnwrap, applies, e]
    · have e : (pw != []) = true := by simpa [bne] using hp
      have e' : (pw' != []) = true := by simpa [bne] using hp'
      simp [parse, keygen, keygenRule, parseRule, ageKeygenWrap, ageParseUnwrap, applies, e, e', hne']
  · -- pgp
    simp [parse, keygen, keygenRule, parseRule, pgpKeygenWrap, pgpParseUnwrap, applies, hne']
  · -- minisign
    simp [parse, keygen, keygenRule, parseRule, minisignKeygenWrap, minisignParseUnwrap, applies, hne']

/-- (3) A pair never decrypts or verifies data produced under another pair. -/
theorem other_pair_rejected (f : KFmt) (pw pw' : Name) (k k' : Nat) (hk : k ≠ k') (i : Ident)
    (hi : parse f (keygen f pw k) pw' = some i) : works i k' = false := by
  have key : ∀ i, parse f (keygen f pw k) pw' = some i → i = .usable k ∨ i = .locked k := by
    intro i hi
    have hb : keygen f pw k = .plain k ∨ keygen f pw k = .wrapped pw k := by
      unfold keygen; split <;> simp
    rcases hb with hb | hb <;> rw [hb] at hi <;> unfold parse at hi
    · split at hi
      · cases f <;> simp at hi <;> simp [← hi]
      · simp at hi; simp [← hi]
    · split at hi
      · simp only at hi
        split at hi
        · simp at hi; simp [← hi]
        · cases hi
      · cases f <;> simp at hi <;> simp [← hi]
  rcases key i hi with rfl | rfl
  · simp only [works, beq_eq_false_iff_ne, ne_eq]; exact hk
  · rfl

/-- The defect repaired in /repo (finding F26, fixed): had `ParseIdentity` unlocked pgp keys
    only for a non-empty password (`iffNonEmpty`, as the source said before the repair), a pair
    generated with the empty password would parse but stay locked, and any pair would parse
    without error under the empty password.  Stated over the same `parse` with the old rule. -/
def parseOld (b : Blob) (pw : Name) : Option Ident :=
  if applies .iffNonEmpty pw then
    match b with
    | .wrapped pw' k => if pw == pw' then some (.usable k) else none
    | .plain k => some (.usable k)
  else
    match b with
    | .plain k => some (.usable k)
    | .wrapped _ k => some (.locked k)

theorem F26_old_rule_was_wrong (k : Nat) (pw : Name) :
    parseOld (keygen .pgp [] k) [] = some (.locked k) ∧ works (.locked k) k = false ∧
    parseOld (keygen .pgp pw k) [] = some (.locked k) := by
  refine ⟨?_, rfl, ?_⟩ <;> simp [parseOld, keygen, keygenRule, pgpKeygenWrap, applies]

/-- non-vacuity: the hypotheses of (1) and (2) are met by concrete cases of every format -/
example : parse .age (keygen .age (n!"secret") 7) (n!"secret") = some (.usable 7) ∧
    parse .age (keygen .age [] 7) [] = some (.usable 7) ∧
    parse .minisign (keygen .minisign [] 7) [] = some (.usable 7) ∧
    parse .pgp (keygen .pgp (n!"p w") 7) (n!"p w") = some (.usable 7) ∧
    parse .age (keygen .age (n!"secret") 7) (n!"secret ") = none ∧
    parse .age (keygen .age [] 7) (n!"x") = none ∧
    parse .pgp (keygen .pgp [] 7) [] = some (.usable 7) ∧
    parse .pgp (keygen .pgp (n!"pw") 7) [] = none := by decide

end Stfs.C18
