/-
  C06 — A torn tail never costs more than the torn record (crash prefix-recoverability).

  The model of a torn tape (`Model/Cut.lean`) is the tar-reader contract R1–R4 applied to
  `recovery.Index`; it is validated against the real reader on real bytes at every byte offset
  of small tapes (thorough tier) and around every boundary (quick tier).  Over that model:
-/
import Stfs.Model.Cut
import Stfs.Proofs.Frame
import Stfs.Proofs.Replay
import Stfs.Gen.Fingerprints
namespace Stfs.C06
open Stfs

/-- the complete items before the cut are a prefix of the tape -/
theorem cutAt_prefix (t : Tape) : ∀ (s c : Nat), ∃ rest, t = (cutAt t s c).1 ++ rest := by
  induction t with
  | nil => intro s c; exact ⟨[], rfl⟩
  | cons it rest ih =>
    intro s c
    simp only [cutAt]
    split
    · obtain ⟨r, hr⟩ := ih (s + it.blocks * 512) c
      exact ⟨r, by simp only [List.cons_append]; rw [← hr]⟩
    · split
      · exact ⟨it :: rest, rfl⟩
      · cases it with
        | trailer => exact ⟨_, rfl⟩
        | recd h hb st d =>
          simp only
          split
          · exact ⟨_, rfl⟩
          · split <;> exact ⟨_, rfl⟩

/-- … and they end at or before the cut -/
theorem cutAt_complete (t : Tape) : ∀ (s c : Nat), s ≤ c → s + tapeBlocks (cutAt t s c).1 * 512 ≤ c := by
  induction t with
  | nil => intro s c h; simpa [cutAt, tapeBlocks] using h
  | cons it rest ih =>
    intro s c h
    simp only [cutAt]
    split
    · rename_i hle
      have := ih (s + it.blocks * 512) c hle
      simp only [tapeBlocks, List.map_cons, List.sum_cons] at this ⊢
      have e : s + (it.blocks + (List.map Item.blocks (cutAt rest (s + it.blocks * 512) c).1).sum) * 512
          = s + it.blocks * 512 + (List.map Item.blocks (cutAt rest (s + it.blocks * 512) c).1).sum * 512 := by
        rw [Nat.add_mul]; omega
      rw [e]; exact this
    · split
      · simpa [tapeBlocks] using h
      · cases it with
        | trailer => simpa [tapeBlocks] using h
        | recd hh hb st d =>
          simp only
          split
          · simpa [tapeBlocks] using h
          · split <;> simpa [tapeBlocks] using h

/-- (1) A tape that is not cut rebuilds as usual: cutting at or beyond the end changes nothing. -/
theorem uncut (cfg : Cfg) (t : Tape) (c : Nat) (h : tapeBlocks t * 512 ≤ c) :
    rebuildCut cfg t c = indexLoopIdeal cfg false 0 .tape {} 0 0 t := by
  have key : ∀ (t : Tape) (s : Nat), s + tapeBlocks t * 512 ≤ c → cutAt t s c = (t, .clean) := by
    intro t
    induction t with
    | nil => intro s _; rfl
    | cons it rest ih =>
      intro s hs
      have hb : tapeBlocks (it :: rest) = it.blocks + tapeBlocks rest := by simp [tapeBlocks]
      rw [hb, Nat.add_mul] at hs
      simp only [cutAt]
      have h1 : s + it.blocks * 512 ≤ c := Nat.le_trans (by rw [← Nat.add_assoc]; exact Nat.le_add_right _ _) hs
      have h2 : s + it.blocks * 512 + tapeBlocks rest * 512 ≤ c := by rw [Nat.add_assoc]; exact hs
      simp only [h1, if_true]
      rw [ih (s + it.blocks * 512) h2]
  unfold rebuildCut
  rw [key t 0 (by omega)]
  simp only
  split <;> rename_i heq <;> rw [heq]

/-- (2) The state after a torn rebuild is the state after the last completely written record,
    except that the one torn record may already be reflected: all rows whose name is not among
    the (at most three) names that record touches are exactly the rows of the rebuild of the
    complete prefix — every other entry keeps the position, attributes and size it had. -/
theorem torn_record_costs_only_itself (cfg : Cfg) (t : Tape) (c : Nat) :
    let pre := (cutAt t 0 c).1
    let p0 := (indexLoopIdeal cfg false 0 .tape {} 0 0 pre).1
    (indexLoopIdeal cfg false 0 .tape {} 0 0 pre).2 = none →
    ∃ names : List Name, names.length ≤ 3 ∧ SameOutside names p0.rows (rebuildCut cfg t c).1.rows := by
  intro pre p0 hok
  unfold rebuildCut
  have hsplit : cutAt t 0 c = (pre, (cutAt t 0 c).2) := rfl
  rw [hsplit]
  simp only
  have hp : indexLoopIdeal cfg false 0 .tape {} 0 0 pre = (p0, none) := by
    show _ = ((indexLoopIdeal cfg false 0 .tape {} 0 0 pre).1, none)
    rw [← hok]
  rw [hp]
  simp only
  cases (cutAt t 0 c).2 with
  | clean => exact ⟨[], by simp, SameOutside.refl _ _⟩
  | header => exact ⟨[], by simp, SameOutside.refl _ _⟩
  | content h =>
    obtain ⟨names, hl, hs⟩ := applyRec_frame cfg p0 (posOfBlock cfg.rs (tapeBlocks pre)) h false
    refine ⟨names, hl, ?_⟩
    simp only
    generalize applyRec cfg p0 (posOfBlock cfg.rs (tapeBlocks pre)) h false = x at hs
    rcases x with ⟨p', e⟩
    cases e <;> exact hs
  | padding h =>
    obtain ⟨names, hl, hs⟩ := applyRec_frame cfg p0 (posOfBlock cfg.rs (tapeBlocks pre)) h false
    exact ⟨names, hl, hs⟩

/-- (3) A cut inside a header or a trailer, or exactly between two items, is silent and loses
    nothing before it: the rebuild is exactly the rebuild of the complete prefix, without error. -/
theorem cut_outside_content_is_prefix_rebuild (cfg : Cfg) (t : Tape) (c : Nat)
    (h : match (cutAt t 0 c).2 with | .clean => True | .header => True | _ => False) :
    rebuildCut cfg t c = indexLoopIdeal cfg false 0 .tape {} 0 0 (cutAt t 0 c).1 := by
  unfold rebuildCut
  have hsplit : cutAt t 0 c = ((cutAt t 0 c).1, (cutAt t 0 c).2) := rfl
  rw [hsplit]
  simp only
  generalize indexLoopIdeal cfg false 0 .tape {} 0 0 (cutAt t 0 c).1 = x
  rcases x with ⟨p, e⟩
  cases e with
  | some e => rfl
  | none =>
    simp only
    cases ht : (cutAt t 0 c).2 with
    | clean => rfl
    | header => rfl
    | content hh => rw [ht] at h; exact absurd h id
    | padding hh => rw [ht] at h; exact absurd h id

/-- (4) A cut inside a record's content is never silent: the rebuild reports an error. -/
theorem cut_inside_content_is_reported (cfg : Cfg) (t : Tape) (c : Nat) (hh : Hdr)
    (h : (cutAt t 0 c).2 = .content hh) : (rebuildCut cfg t c).2 ≠ none := by
  unfold rebuildCut
  have hsplit : cutAt t 0 c = ((cutAt t 0 c).1, (cutAt t 0 c).2) := rfl
  rw [hsplit, h]
  simp only
  generalize indexLoopIdeal cfg false 0 .tape {} 0 0 (cutAt t 0 c).1 = x
  rcases x with ⟨p, e⟩
  cases e with
  | some e => simp
  | none =>
    simp only
    generalize applyRec cfg p (posOfBlock cfg.rs (tapeBlocks (cutAt t 0 c).1)) hh false = y
    rcases y with ⟨p', e'⟩
    cases e' <;> simp

/-- non-vacuity: a cut inside the content of the last record of a concrete tape -/
example :
    let t : Tape := [.recd { typeflag := tfDir, name := (n!"/") } 3 0 [], .trailer,
                     .recd { name := (n!"/f"), size := 700 } 3 700 [], .trailer]
    (match (cutAt t 0 (8 * 512 + 100)).2 with | .content _ => true | _ => false) = true ∧
    ((rebuildCut {} t (8 * 512 + 100)).1.rows.map (·.name)) = [[], (n!"f")] := by
  decide

-- MIRRORS-BEGIN (maintained by bin/update-mirrors)
/-- The parts of the model this file's theorems are about were written by hand against these
    versions of the functions they mirror (fingerprint of each function's comment-free source,
    regenerated on every run).  When one of them changes, this obligation fails: the change has
    to be confirmed harmless by the correspondence, or shows up as its failing input. -/
theorem model_mirrors_source :
    [(n!"recovery.Index")].map Gen.fingerprintOf =
    [some 1657455892095054075] := by decide
-- MIRRORS-END

end Stfs.C06
