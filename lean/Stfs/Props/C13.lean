/-
  C13 — The namespace is a well-formed tree and listings agree with lookups.

  False of the code today (findings F04, F05, F07, F10, F11, F15; witnesses below).  Proved
  for all inputs: the count limit and the self-exclusion of listings.
-/
import Stfs.Proofs.FsPres
import Stfs.Model.Trig
import Stfs.Proofs.Depth
import Stfs.Proofs.KeysUnique
import Stfs.Proofs.SysPres
import Stfs.Gen.Fingerprints
namespace Stfs.C13
open Stfs

theorem applyLimit_le (n : Int) (hn : 0 < n) (outs : List Row) : ((Idx.applyLimit (n + 1) outs).length : Int) ≤ n := by
  unfold Idx.applyLimit
  split
  · rename_i h
    simp only [Bool.or_eq_true, decide_eq_true_eq] at h
    rcases h with (h | h) | h
    · omega
    · omega
    · simp at h; simp [h]; omega
  · simp only [List.length_take]
    have : ((n + 1 - 1).toNat : Int) = n := by omega
    omega

/-- (1) A count-limited listing returns at most that many entries — for every table, every
    directory spelling and every `n > 0` (the `limit++`, `limit+1`, `[:limit-1]` arithmetic). -/
theorem limited_listing_le (p : Idx) (name : Name) (n : Int) (hn : 0 < n) :
    ∀ rows, (p.getHeaderDirectChildren name n).2 = .ok rows → (rows.length : Int) ≤ n := by
  intro rows h
  unfold Idx.getHeaderDirectChildren at h
  simp only [hn, if_true] at h
  split at h
  · cases h
  · injection h with h; subst h; exact applyLimit_le n hn _

/-- (2) … and so does `Readdir(n)` on a directory handle, in every state. -/
theorem readdir_count_le (h : Handle) (n : Int) (hn : 0 < n) (w : World) :
    ∀ infos, (hReaddir h n w).2 = .ok infos → (infos.length : Int) ≤ n := by
  intro infos hi
  unfold hReaddir at hi
  split at hi
  · cases hi
  · have key := limited_listing_le w.idx h.path n hn
    unfold list at hi
    simp only [bind, Bind.bind, M.idx, pure, Pure.pure] at hi
    cases hr : (w.idx.getHeaderDirectChildren h.path n).2 with
    | error e => simp [hr] at hi
    | ok rows =>
      simp [hr] at hi
      subst hi
      simpa using key rows hr

theorem mem_applyLimit (l : Int) (outs : List Row) (r : Row) (h : r ∈ Idx.applyLimit l outs) : r ∈ outs := by
  unfold Idx.applyLimit at h
  split at h
  · exact h
  · exact List.mem_of_mem_take h

/-- (3) A listing never contains the directory itself (under either spelling). -/
theorem listing_excludes_self (p : Idx) (name : Name) (n : Int) :
    ∀ rows, (p.getHeaderDirectChildren name n).2 = .ok rows →
      ∀ r ∈ rows, Idx.notSelf (p.sanitize name).2 r = true := by
  intro rows h r hr
  unfold Idx.getHeaderDirectChildren at h
  simp only at h
  split at h
  · cases h
  · injection h with h; subst h
    exact (List.mem_filter.mp (mem_applyLimit _ _ _ hr)).2

def env1 (now : Int) : Env := { now := now, recs := [(3, 0)] }

/-- (4) F10 witness: with `/a/b/a/c` present, listing `/a` returns `b` *and* the deeper
    descendant `c` (SQLite `replace` removes every occurrence of the prefix `/a/`). -/
theorem F10_witness :
    let s := ({} : Sys).runAll {} [(env1 1, .init (n!"/") 511), (env1 2, .mkdir (n!"/a") 493), (env1 3, .mkdir (n!"/a/b") 493),
      (env1 4, .mkdir (n!"/a/b/a") 493), (env1 5, .mkdir (n!"/a/b/a/c") 493)]
    (match (s.w.idx.getHeaderDirectChildren (n!"/a") (-1)).2 with
     | .ok rows => rows.map (·.name)
     | .error _ => []) = [(n!"/a/b"), (n!"/a/b/a/c")] := by
  decide

/-- (5) F04 witness: `Mkdir` below a regular file succeeds. -/
theorem F04_witness :
    let s := ({} : Sys).runAll {} [(env1 1, .init (n!"/") 511), (env1 2, .create 1 (n!"/f")), (env1 3, .hclose 1)]
    (match (s.step {} (env1 4) (.mkdir (n!"/f/sub") 493)).2 with | .ok _ => true | .error _ => false) = true := by
  decide

/-- (6) F05 witness: `MkdirAll("/x/y/z")` creates only the leaf row. -/
theorem F05_witness :
    let s := ({} : Sys).runAll {} [(env1 1, .init (n!"/") 511), (env1 2, .mkdirAll (n!"/x/y/z") 493)]
    s.w.idx.rows.map (·.name) = [(n!"/"), (n!"/x/y/z")] := by
  decide

/-! ### which rows a listing selects (outside the region of finding F10) -/

/-- the name test of `GetHeaderDirectChildren`'s query: `name LIKE prefix%` and the slash-count
    condition on `replace(name, prefix, '')` -/
def selected (prefix_ : Name) (rootDepth : Nat) (n : Name) : Bool :=
  like (prefix_ ++ [percent]) n &&
    (sqlDepth n prefix_ == rootDepth || (like [percent, slash] n && sqlDepth n prefix_ == rootDepth + 1))

/-- `selected` is the test the model of the query applies to a row's name -/
theorem directQuery_uses_selected (rows : List Row) (prefix_ : Name) (d : Nat) (r : Row) (hr : r ∈ rows) :
    ({ r with hdr := { r.hdr with linkname := [] } } ∈ Idx.directQuery rows prefix_ false d 0) ↔
      (∃ x ∈ rows, selected prefix_ d x.name = true ∧ x.live = true ∧ x.linkname = [] ∧
        Idx.rootSpellings.contains x.name = false ∧
        ({ x with hdr := { x.hdr with linkname := [] } } : Row) = { r with hdr := { r.hdr with linkname := [] } }) := by
  unfold Idx.directQuery selected
  simp only [Bool.false_eq_true, if_false, Int.lt_irrefl, List.mem_map, List.mem_filter, Bool.and_eq_true,
    Bool.or_eq_true, beq_iff_eq, Bool.not_eq_true', Bool.false_or]
  constructor
  · rintro ⟨x, ⟨hx, ⟨⟨⟨⟨h1, h2⟩, h3⟩, h4⟩, h5⟩⟩, he⟩
    exact ⟨x, hx, ⟨h1, h2⟩, h3, h4, h5, he⟩
  · rintro ⟨x, hx, ⟨h1, h2⟩, h3, h4, h5, he⟩
    exact ⟨x, ⟨hx, ⟨⟨⟨⟨h1, h2⟩, h3⟩, h4⟩, h5⟩⟩, he⟩

/-- (4) Exactness of the listing test.  For a directory whose `prefix` (its name with a trailing
    slash) has no wildcard characters, and a row name `prefix ++ t` in whose remainder `t` the
    prefix does not occur again (the region outside finding F10): the row is selected exactly
    when `t` has no slash (a direct child) or is one component followed by a slash (a direct
    child directory stored with its trailing slash, as foreign archives do). -/
theorem listing_test_exact (prefix_ t : Name) (hne : prefix_ ≠ []) (hw : noWild prefix_ = true)
    (ho : noOcc prefix_ t = true) :
    selected prefix_ 0 (prefix_ ++ t) =
      (countSlash t == 0 || ((prefix_ ++ t).getLast? == some slash && countSlash t == 1)) := by
  unfold selected
  have hl : like (prefix_ ++ [percent]) (prefix_ ++ t) = true := by
    rw [like_literal_prefix prefix_ hw]
    exact hasPrefixFold_of_hasPrefix _ _ (hasPrefix_append_self _ _)
  rw [hl, sqlDepth_prefix prefix_ t hne ho, like_ends_slash]
  simp

/-- … in particular a direct child is listed and nothing below it is -/
theorem direct_child_listed (prefix_ c : Name) (hne : prefix_ ≠ []) (hw : noWild prefix_ = true)
    (hs : slash ∉ c) (hp : ∃ ys, prefix_ = slash :: ys) :
    selected prefix_ 0 (prefix_ ++ c) = true := by
  obtain ⟨ys, hy⟩ := hp
  have ho : noOcc prefix_ c = true := noOcc_of_not_mem prefix_ c slash ys hy hs
  rw [listing_test_exact prefix_ c hne hw ho]
  have : countSlash c = 0 := by
    unfold countSlash
    exact List.count_eq_zero.mpr hs
  simp [this]

theorem deeper_not_listed (prefix_ t : Name) (hne : prefix_ ≠ []) (hw : noWild prefix_ = true)
    (ho : noOcc prefix_ t = true) (h2 : 2 ≤ countSlash t ∨ (1 ≤ countSlash t ∧ (prefix_ ++ t).getLast? ≠ some slash)) :
    selected prefix_ 0 (prefix_ ++ t) = false := by
  rw [listing_test_exact prefix_ t hne hw ho]
  rcases h2 with h | ⟨h, hl⟩
  · have a : (countSlash t == 0) = false := by simp; omega
    have b : (countSlash t == 1) = false := by simp; omega
    simp [a, b]
  · have a : (countSlash t == 0) = false := by simp; omega
    have b : ((prefix_ ++ t).getLast? == some slash) = false := by
      simp only [beq_eq_false_iff_ne, ne_eq]; exact hl
    rw [a, b]
    rfl

/-- … and a row that does not start with the prefix (compared modulo ASCII case) is never listed -/
theorem foreign_prefix_not_listed (prefix_ n : Name) (hw : noWild prefix_ = true) (d : Nat)
    (h : hasPrefixFold n prefix_ = false) : selected prefix_ d n = false := by
  unfold selected
  rw [like_literal_prefix prefix_ hw, h]
  rfl

/-- non-vacuity and the boundary with F10: `/a/b/` lists `/a/b/c` and `/a/b/c/`, not `/a/b/c/d`;
    with the prefix recurring (`/a/b/a/b/x`) the hypothesis `noOcc` fails and the test goes wrong -/
example : selected (n!"/a/b/") 0 (n!"/a/b/c") = true ∧ selected (n!"/a/b/") 0 (n!"/a/b/c/") = true ∧
    selected (n!"/a/b/") 0 (n!"/a/b/c/d") = false ∧
    noOcc (n!"/a/b/") (n!"x/a/b/y") = false ∧ selected (n!"/a/b/") 0 (n!"/a/b/x/a/b/y") = true := by decide

/-- (5) Every listed name can be looked up: a row the name-keyed query of a listing returns
    (with or without a count limit) has the name of a live row, so the lookup `Stat` and `Open`
    perform on that name (`where name = ? and deleted != 1`) finds a row, and the row it finds
    carries exactly that name. -/
theorem listed_name_can_be_statted (rows : List Row) (prefix_ : Name) (d : Nat) (limit : Int) (r : Row)
    (hr : r ∈ Idx.directQuery rows prefix_ false d limit) :
    ∃ x, Idx.findLive rows r.name = some x ∧ x.name = r.name ∧ x.live = true := by
  unfold Idx.directQuery at hr
  simp only [Bool.false_eq_true, if_false, List.mem_map] at hr
  obtain ⟨y, hy, rfl⟩ := hr
  have hy' : y ∈ rows ∧ y.live = true := by
    have : y ∈ rows.filter (fun r => like (prefix_ ++ [percent]) r.name
        && (sqlDepth r.name prefix_ == d || (like [percent, slash] r.name && sqlDepth r.name prefix_ == d + 1))
        && r.live && (false || r.linkname == []) && !(Idx.rootSpellings.contains r.name)) := by
      split at hy
      · exact List.mem_of_mem_take hy
      · exact hy
    simp only [List.mem_filter, Bool.and_eq_true] at this
    exact ⟨this.1, this.2.1.1.2⟩
  have hsome : (Idx.findLive rows y.name).isSome = true := by
    unfold Idx.findLive
    rw [List.find?_isSome]
    exact ⟨y, Idx.mem_byName.mpr ⟨hy'.1, rfl⟩, hy'.2⟩
  obtain ⟨x, hx⟩ := Option.isSome_iff_exists.mp hsome
  refine ⟨x, hx, ?_, ?_⟩
  · unfold Idx.findLive at hx
    exact (Idx.mem_byName.mp (List.mem_of_find?_eq_some hx)).2
  · unfold Idx.findLive at hx
    exact List.find?_some hx

/-- the premise is satisfiable: a one-row table whose row the query lists -/
example : (Idx.directQuery [Idx.mkRow { name := n!"/a/b/c" } 0 0 0 0] (n!"/a/b/") false 0 0).length = 1 := by decide

/-- (6) … with matching kind and size: when live rows have distinct names (no entry has both a
    plain row and a link row alive — the hypothesis; the table's key is `(name, linkname)`, so the
    model does not guarantee it; theorem (9) below needs only the primary key, which (7) proves
    for every reachable state), the row
    the lookup finds is the listed row itself, so every attribute `Stat` reports is the one the
    listing showed. -/
theorem listed_row_is_statted_row (rows : List Row) (prefix_ : Name) (d : Nat) (limit : Int) (r : Row)
    (huniq : ∀ a ∈ rows, ∀ b ∈ rows, a.live = true → b.live = true → a.name = b.name → a = b)
    (hr : r ∈ Idx.directQuery rows prefix_ false d limit) :
    Idx.findLive rows r.name = some r := by
  obtain ⟨x, hx, hn, hl⟩ := listed_name_can_be_statted rows prefix_ d limit r hr
  have hxm : x ∈ rows := by
    unfold Idx.findLive at hx
    exact (Idx.mem_byName.mp (List.mem_of_find?_eq_some hx)).1
  unfold Idx.directQuery at hr
  simp only [Bool.false_eq_true, if_false, List.mem_map] at hr
  obtain ⟨y, hy, rfl⟩ := hr
  have hy' : y ∈ rows ∧ y.live = true ∧ y.linkname = [] := by
    have : y ∈ rows.filter (fun r => like (prefix_ ++ [percent]) r.name
        && (sqlDepth r.name prefix_ == d || (like [percent, slash] r.name && sqlDepth r.name prefix_ == d + 1))
        && r.live && (false || r.linkname == []) && !(Idx.rootSpellings.contains r.name)) := by
      split at hy
      · exact List.mem_of_mem_take hy
      · exact hy
    simp only [List.mem_filter, Bool.and_eq_true, Bool.false_or, beq_iff_eq] at this
    exact ⟨this.1, this.2.1.1.2, this.2.1.2⟩
  have hxy : x = y := huniq x hxm y hy'.1 hl hy'.2.1 hn
  subst hxy
  rw [hx]
  congr 1
  obtain ⟨h, a, b, c, d', e⟩ := x
  obtain ⟨n1, l1⟩ := h
  simp only [Row.linkname] at hy'
  simp [hy'.2.2]

/-- (7) The table's primary key holds at every reachable state: after any history of calls
    (successful or failing, including rebuilds) no two rows, tombstones included, share
    `(name, linkname)`. -/
theorem keys_unique_always (f : FsCfg) (hist : List (Env × Call)) :
    KeysUnique ((({} : Sys).runAll f hist).w).idx.rows :=
  Sys.runAll_pres (opsPres_rows rowsInv_keysUnique f) hist {} List.Pairwise.nil

/-- the name-keyed listing query over a table with unique keys returns no name twice -/
theorem directQuery_names_once (rows : List Row) (prefix_ : Name) (d : Nat) (limit : Int)
    (h : KeysUnique rows) :
    ((Idx.directQuery rows prefix_ false d limit).map (·.name)).Pairwise (· ≠ ·) := by
  unfold Idx.directQuery
  simp only [Bool.false_eq_true, if_false]
  generalize hsel : rows.filter (fun r => like (prefix_ ++ [percent]) r.name
        && (sqlDepth r.name prefix_ == d || (like [percent, slash] r.name && sqlDepth r.name prefix_ == d + 1))
        && r.live && (false || r.linkname == []) && !(Idx.rootSpellings.contains r.name)) = sel
  have hsub : sel.Sublist rows := by rw [← hsel]; exact List.filter_sublist
  have hlink : ∀ x ∈ sel, x.linkname = [] := by
    intro x hx
    rw [← hsel] at hx
    have := (List.mem_filter.mp hx).2
    simp only [Bool.and_eq_true, Bool.false_or, beq_iff_eq] at this
    exact this.1.2
  generalize hS : (if limit > 0 then sel.take (limit + 1).toNat else sel) = S
  have hS1 : S.Sublist sel := by
    rw [← hS]; split
    · exact List.take_sublist _ _
    · exact List.Sublist.refl _
  have hku : KeysUnique S := List.Pairwise.sublist (hS1.trans hsub) h
  rw [List.map_map, List.pairwise_map]
  refine hku.imp_of_mem ?_
  intro a b ha hb hab hn
  apply hab
  exact ⟨hn, (hlink a (hS1.subset ha)).trans (hlink b (hS1.subset hb)).symm⟩

/-- (8) "Each directory listing contains each of its children exactly once", for the name-keyed
    pass of the listing and every reachable state: after any history, for every directory
    prefix, depth and count limit, no name occurs twice among the rows the query returns.
    (The link pass can repeat a name the name pass already returned: finding F11.) -/
theorem listing_lists_each_name_once (f : FsCfg) (hist : List (Env × Call)) (prefix_ : Name) (d : Nat) (limit : Int) :
    ((Idx.directQuery ((({} : Sys).runAll f hist).w).idx.rows prefix_ false d limit).map (·.name)).Pairwise (· ≠ ·) :=
  directQuery_names_once _ prefix_ d limit (keys_unique_always f hist)

/-- (9) … with matching kind and size, at every table with unique keys (hence, by
    `keys_unique_always`, at every reachable state): the lookup `Stat` and `Open` perform on a
    listed name finds exactly the listed row, so every attribute they report (kind, size, mode,
    owner, times) is the one the listing showed.  (The scan `where name = ?` runs in primary-key
    order, and the listed row has the empty linkname, which sorts first.) -/
theorem listed_row_is_statted_row_of_keys (rows : List Row) (prefix_ : Name) (d : Nat) (limit : Int) (r : Row)
    (hku : KeysUnique rows) (hr : r ∈ Idx.directQuery rows prefix_ false d limit) :
    Idx.findLive rows r.name = some r := by
  unfold Idx.directQuery at hr
  simp only [Bool.false_eq_true, if_false, List.mem_map] at hr
  obtain ⟨y, hy, rfl⟩ := hr
  have hy' : y ∈ rows ∧ y.live = true ∧ y.linkname = [] := by
    have : y ∈ rows.filter (fun r => like (prefix_ ++ [percent]) r.name
        && (sqlDepth r.name prefix_ == d || (like [percent, slash] r.name && sqlDepth r.name prefix_ == d + 1))
        && r.live && (false || r.linkname == []) && !(Idx.rootSpellings.contains r.name)) := by
      split at hy
      · exact List.mem_of_mem_take hy
      · exact hy
    simp only [List.mem_filter, Bool.and_eq_true, Bool.false_or, beq_iff_eq] at this
    exact ⟨this.1, this.2.1.1.2, this.2.1.2⟩
  have hblank : ({ y with hdr := { y.hdr with linkname := [] } } : Row) = y := by
    obtain ⟨h, a, b, c, d', e⟩ := y
    obtain ⟨n1, l1⟩ := h
    simp only [Row.linkname] at hy'
    simp [hy'.2.2]
  rw [hblank]
  have hall := keysUnique_forall hku
  have hL : y ∈ rows.filter (fun r => r.name == y.name) := List.mem_filter.mpr ⟨hy'.1, by simp⟩
  have hothers : ∀ x ∈ rows.filter (fun r => r.name == y.name), x ≠ y → x.linkname ≠ [] := by
    intro x hx hxy hxl
    have hxm := List.mem_filter.mp hx
    exact hall x hxm.1 y hy'.1 hxy ⟨by simpa using hxm.2, hxl.trans hy'.2.2.symm⟩
  have hnd : (rows.filter (fun r => r.name == y.name)).Pairwise (· ≠ ·) :=
    List.Pairwise.sublist List.filter_sublist (hku.imp (fun {a b} hab he => hab (by subst he; exact ⟨rfl, rfl⟩)))
  have hhead := head_sorted_of_empty_link _ y hL hy'.2.2 hothers hnd
  unfold Idx.findLive Idx.byName
  cases hS : (rows.filter (fun r => r.name == y.name)).foldr Idx.insertByLink [] with
  | nil => rw [hS] at hhead; simp at hhead
  | cons x xs =>
    rw [hS] at hhead
    simp only [List.head?_cons, Option.some.injEq] at hhead
    subst hhead
    simp [hy'.2.1]

/-- (10) The same for every reachable state of the model. -/
theorem listed_row_is_statted_row_always (f : FsCfg) (hist : List (Env × Call)) (prefix_ : Name) (d : Nat)
    (limit : Int) (r : Row)
    (hr : r ∈ Idx.directQuery ((({} : Sys).runAll f hist).w).idx.rows prefix_ false d limit) :
    Idx.findLive ((({} : Sys).runAll f hist).w).idx.rows r.name = some r :=
  listed_row_is_statted_row_of_keys _ prefix_ d limit r (keys_unique_always f hist) hr

-- MIRRORS-BEGIN (maintained by bin/update-mirrors)
/-- The parts of the model this file's theorems are about were written by hand against these
    versions of the functions they mirror (fingerprint of each function's comment-free source,
    regenerated on every run).  When one of them changes, this obligation fails: the change has
    to be confirmed harmless by the correspondence, or shows up as its failing input. -/
theorem model_mirrors_source :
    [(n!"persisters.MetadataPersister.GetHeaderDirectChildren"), (n!"inventory.List"), (n!"fs.File.Readdir"), (n!"persisters.MetadataPersister.GetHeader"), (n!"recovery.indexHeader"), (n!"persisters.MetadataPersister.UpsertHeader"), (n!"persisters.MetadataPersister.UpdateHeaderMetadata"), (n!"persisters.MetadataPersister.MoveHeader"), (n!"persisters.MetadataPersister.DeleteHeader")].map Gen.fingerprintOf =
    [some 2258247360074540872, some 1808801976671958421, some 1495984426148824387, some 2215020636047172842, some 1203388063636210460, some 1475075715614363495, some 1156983867159650422, some 431296354897121277, some 487247875105465038] := by decide
-- MIRRORS-END

end Stfs.C13
