/-
  C13 — The namespace is a well-formed tree and listings agree with lookups.

  False of the code today (findings F04, F05, F07, F10, F11, F15; witnesses below).  Proved
  for all inputs: the count limit and the self-exclusion of listings.
-/
import Stfs.Proofs.FsPres
import Stfs.Model.Trig
namespace Stfs.C13
open Stfs

theorem applyLimit_le (n : Int) (hn : 0 < n) (outs : List Row) : ((Idx.applyLimit (n + 1) outs).length : Int) ≤ n := by
  unfold Idx.applyLimit
  split
  · rename_i h
    simp only [Bool.or_eq_true, decide_eq_true_eq] at h
    rcases h with (h | h) | h
    · omega
    · omega
    · simp at h; simp [h]; omega
  · simp only [List.length_take]
    have : ((n + 1 - 1).toNat : Int) = n := by omega
    omega

/-- (1) A count-limited listing returns at most that many entries — for every table, every
    directory spelling and every `n > 0` (the `limit++`, `limit+1`, `[:limit-1]` arithmetic). -/
theorem limited_listing_le (p : Idx) (name : Name) (n : Int) (hn : 0 < n) :
    ∀ rows, (p.getHeaderDirectChildren name n).2 = .ok rows → (rows.length : Int) ≤ n := by
  intro rows h
  unfold Idx.getHeaderDirectChildren at h
  simp only [hn, if_true] at h
  split at h
  · cases h
  · injection h with h; subst h; exact applyLimit_le n hn _

/-- (2) … and so does `Readdir(n)` on a directory handle, in every state. -/
theorem readdir_count_le (h : Handle) (n : Int) (hn : 0 < n) (w : World) :
    ∀ infos, (hReaddir h n w).2 = .ok infos → (infos.length : Int) ≤ n := by
  intro infos hi
  unfold hReaddir at hi
  split at hi
  · cases hi
  · have key := limited_listing_le w.idx h.path n hn
    unfold list at hi
    simp only [bind, Bind.bind, M.idx, pure, Pure.pure] at hi
    cases hr : (w.idx.getHeaderDirectChildren h.path n).2 with
    | error e => simp [hr] at hi
    | ok rows =>
      simp [hr] at hi
      subst hi
      simpa using key rows hr

theorem mem_applyLimit (l : Int) (outs : List Row) (r : Row) (h : r ∈ Idx.applyLimit l outs) : r ∈ outs := by
  unfold Idx.applyLimit at h
  split at h
  · exact h
  · exact List.mem_of_mem_take h

/-- (3) A listing never contains the directory itself (under either spelling). -/
theorem listing_excludes_self (p : Idx) (name : Name) (n : Int) :
    ∀ rows, (p.getHeaderDirectChildren name n).2 = .ok rows →
      ∀ r ∈ rows, Idx.notSelf (p.sanitize name).2 r = true := by
  intro rows h r hr
  unfold Idx.getHeaderDirectChildren at h
  simp only at h
  split at h
  · cases h
  · injection h with h; subst h
    exact (List.mem_filter.mp (mem_applyLimit _ _ _ hr)).2

def env1 (now : Int) : Env := { now := now, recs := [(3, 0)] }

/-- (4) F10 witness: with `/a/b/a/c` present, listing `/a` returns `b` *and* the deeper
    descendant `c` (SQLite `replace` removes every occurrence of the prefix `/a/`). -/
theorem F10_witness :
    let s := ({} : Sys).runAll {} [(env1 1, .init (n!"/") 511), (env1 2, .mkdir (n!"/a") 493), (env1 3, .mkdir (n!"/a/b") 493),
      (env1 4, .mkdir (n!"/a/b/a") 493), (env1 5, .mkdir (n!"/a/b/a/c") 493)]
    (match (s.w.idx.getHeaderDirectChildren (n!"/a") (-1)).2 with
     | .ok rows => rows.map (·.name)
     | .error _ => []) = [(n!"/a/b"), (n!"/a/b/a/c")] := by
  decide

/-- (5) F04 witness: `Mkdir` below a regular file succeeds. -/
theorem F04_witness :
    let s := ({} : Sys).runAll {} [(env1 1, .init (n!"/") 511), (env1 2, .create 1 (n!"/f")), (env1 3, .hclose 1)]
    (match (s.step {} (env1 4) (.mkdir (n!"/f/sub") 493)).2 with | .ok _ => true | .error _ => false) = true := by
  decide

/-- (6) F05 witness: `MkdirAll("/x/y/z")` creates only the leaf row. -/
theorem F05_witness :
    let s := ({} : Sys).runAll {} [(env1 1, .init (n!"/") 511), (env1 2, .mkdirAll (n!"/x/y/z") 493)]
    s.w.idx.rows.map (·.name) = [(n!"/"), (n!"/x/y/z")] := by
  decide

end Stfs.C13
