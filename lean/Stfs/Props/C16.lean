/-
  C16 — Opening a filesystem over an existing tape is non-destructive and faithful.

  Partial: false today when the rebuild at open fails (finding F19: fallback to creating a
  root), when the index is stale (F20) and for reads of torn files (F18).  Proved over the
  model, for every tape and index:
-/
import Stfs.Proofs.AppendOnly
import Stfs.Model.Trig
import Stfs.Gen.Fingerprints
namespace Stfs.C16
open Stfs

/-- (1) `Initialize` never removes or rewrites tape content: the tape afterwards is the tape
    before plus a suffix, whatever the index contains and however the rebuild ends. -/
theorem initialize_never_rewrites (f : FsCfg) (env : Env) (r : Name) (p : Int) (w : World) :
    ∃ suffix, (initFs f env r p w).1.tape = w.tape ++ suffix :=
  (initFs_pres (opsPres_extends f w.tape) env r p).run w ⟨[], by simp⟩

/-- (2) With a root in the index, `Initialize` returns it and changes neither tape nor table. -/
theorem initialize_with_root_is_noop (f : FsCfg) (env : Env) (r : Name) (p : Int) (w : World) (root : Name)
    (h : (w.idx.getRootPath).2 = .ok root) :
    (initFs f env r p w).2 = .ok root ∧ (initFs f env r p w).1.tape = w.tape ∧
      (initFs f env r p w).1.idx.rows = w.idx.rows := by
  unfold initFs
  have hr := Idx.getRootPath_rows w.idx
  rcases hg : w.idx.getRootPath with ⟨q, res⟩
  rw [hg] at h hr
  simp only at h hr
  subst h
  exact ⟨rfl, rfl, hr⟩

/-- (3) Without a root in the index, when the rebuild of the tape succeeds nothing is appended
    and the table is exactly the from-scratch rebuild of that tape (faithfulness). -/
theorem initialize_rebuild_is_faithful (f : FsCfg) (env : Env) (r : Name) (p : Int) (w : World)
    (hnr : (w.idx.getRootPath).2 = .error .noRoot) (hst : w.stuck = false) (hne : (w.tape == []) = false)
    (hok : (rebuildOp f { w with idx := (w.idx.getRootPath).1 }).2 = none) :
    (initFs f env r p w).1.tape = w.tape ∧
    (initFs f env r p w).1.idx.rows = (rebuildOp f { w with idx := (w.idx.getRootPath).1 }).1.idx.rows := by
  unfold initFs
  rcases hg : w.idx.getRootPath with ⟨q, res⟩
  rw [hg] at hnr hok
  simp only at hnr hok
  subst hnr
  simp only [hst, hne, Bool.false_eq_true, if_false]
  rw [hst] at hok
  rcases hr : rebuildOp f { tape := w.tape, idx := q, stuck := false } with ⟨w2, e⟩
  rw [hr] at hok
  simp only at hok
  subst hok
  simp only
  constructor
  · have := congrArg (fun x => x.1.tape) hr
    simpa [rebuildOp] using this.symm
  · exact Idx.getRootPath_rows w2.idx

def env1 (now : Int) : Env := { now := now, recs := [(3, 0)] }

/-- (4) F19 witness: over the tape of finding F01 (a move record that cannot be replayed) and
    an absent index, `Initialize` appends a new root record although a root exists on the tape. -/
theorem F19_witness :
    let s := ({} : Sys).runAll {}
      [(env1 1, .init (n!"/") 511), (env1 2, .mkdir (n!"/a") 493), (env1 3, .mkdir (n!"/b") 493),
       (env1 4, .remove (n!"/b")), (env1 5, .rename (n!"/a") (n!"/b"))]
    let w0 : World := { tape := s.w.tape }
    ((initFs {} (env1 6) (n!"/") 511 w0).1.tape.length > w0.tape.length) = true := by
  decide

-- MIRRORS-BEGIN (maintained by bin/update-mirrors)
/-- The parts of the model this file's theorems are about were written by hand against these
    versions of the functions they mirror (fingerprint of each function's comment-free source,
    regenerated on every run).  When one of them changes, this obligation fails: the change has
    to be confirmed harmless by the correspondence, or shows up as its failing input. -/
theorem model_mirrors_source :
    [(n!"fs.STFS.Initialize"), (n!"persisters.MetadataPersister.GetRootPath"), (n!"persisters.MetadataPersister.PurgeAllHeaders")].map Gen.fingerprintOf =
    [some 1449536689134317052, some 1811262850778349076, some 1041557785464941302] := by decide
-- MIRRORS-END

end Stfs.C16
