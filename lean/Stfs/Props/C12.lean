/-
  C12 — Recursive remove and rename touch exactly the named subtree.

  The property is *false* of the code today (findings F03, F07; witnesses below, proved by
  kernel evaluation and replayed on the implementation).  What is proved for all inputs is
  the exact extent of the `LIKE` query the subtree operations are built on, and that outside
  the trigger region it selects exactly the textual subtree.
-/
import Stfs.Proofs.Like
import Stfs.Model.Trig
import Stfs.Proofs.Spelling
import Stfs.Proofs.Frame
import Stfs.Gen.Fingerprints
namespace Stfs.C12
open Stfs

/-- (1) What `name LIKE '<dir>/%'` means, for every directory name without `%`/`_` and every
    candidate: prefix comparison modulo ASCII case — nothing else (spaces, dots, non-ASCII and
    prefix-related sibling names are all handled by the trailing slash). -/
theorem like_is_folded_prefix (d n : Name) (hd : noWild d = true) :
    like (d ++ [slash, percent]) n = hasPrefixFold n (d ++ [slash]) :=
  children_pattern d n hd

/-- (2) Completeness, for every name: every entry inside the subtree is selected. -/
theorem every_descendant_selected (d n : Name) (hd : noWild d = true) (h : hasPrefix n (d ++ [slash]) = true) :
    like (d ++ [slash, percent]) n = true :=
  children_pattern_complete d n hd h

/-- (3) Exactness outside the trigger region: when the stored directory name has no wildcard
    character and no live entry matches it only up to case, `GetHeaderChildren` — the set that
    `RemoveAll`/`Rename` delete or move — is exactly the live rows textually beneath it. -/
theorem children_exact_partial (p : Idx) (d : Name)
    (hw : noWild (trimSuffix (p.sanitize d).2 [slash]) = true)
    (hc : caseClean p.rows (trimSuffix (p.sanitize d).2 [slash])) :
    (p.getHeaderChildren d).2 =
      (p.rows.filter (fun r => hasPrefix r.name (trimSuffix (p.sanitize d).2 [slash] ++ [slash]) && r.live)).filter
        (Idx.notSelf (p.sanitize d).2) :=
  getHeaderChildren_exact p d hw hc

/-- a prefix-related sibling is never selected: `ab` is not beneath `a` (the pattern ends in `/`) -/
theorem prefix_sibling_not_selected (d n : Name) (hd : noWild d = true)
    (h : hasPrefixFold n (d ++ [slash]) = false) : like (d ++ [slash, percent]) n = false := by
  rw [children_pattern d n hd]; exact h

def env1 (now : Int) : Env := { now := now, recs := [(3, 0)] }

/-- the history of finding F03: `/a_`, `/ab`, `/ab/x`, then `RemoveAll("/a_")` -/
def histF03 : List (Env × Call) :=
  [(env1 1, .init (n!"/") 511), (env1 2, .mkdir (n!"/a_") 493), (env1 3, .mkdir (n!"/ab") 493), (env1 4, .mkdir (n!"/ab/x") 493),
   ({ now := 5, recs := [(3, 0), (3, 0)] }, .removeAll (n!"/a_"))]

/-- (4) F03 witness: with an underscore in the directory name, `RemoveAll("/a_")` tombstones
    `/ab/x`, an entry of a sibling — the full property is false of the model (and, by the
    correspondence and the replay, of the code). -/
theorem F03_witness :
    ((({} : Sys).runAll {} histF03).w.idx.rows.filter (fun r => r.deleted)).map (·.name) = [(n!"/a_"), (n!"/ab/x")] := by
  decide

/-- … and the trigger fires exactly there -/
theorem F03_trigger_fires :
    (Trig.eval {} (({} : Sys).runAll {} (histF03.take 4)) (.removeAll (n!"/a_"))).contains "likeDeviates" = true := by
  decide

/-- (5) F07 witness: renaming a directory into its own subtree is accepted -/
theorem F07_witness :
    let s := ({} : Sys).runAll {} [(env1 1, .init (n!"/") 511), (env1 2, .mkdir (n!"/s") 493), (env1 3, .mkdir (n!"/s/x") 493)]
    (match (s.step {} { now := 4, recs := [(3, 0), (3, 0)] } (.rename (n!"/s") (n!"/s/t"))).2 with | .ok _ => true | .error _ => false) = true := by
  decide

theorem pax_get_set_self (p : Pax) (k v : Name) : (p.set k v).get k = some v := by
  induction p with
  | nil => simp [Pax.set, Pax.get]
  | cons kv rest ih =>
    obtain ⟨k', v'⟩ := kv
    simp only [Pax.set]
    by_cases h1 : (k' == k) = true
    · simp [h1, Pax.get]
    · have h1' : (k' == k) = false := by simpa using h1
      simp only [h1', Bool.false_eq_true, if_false]
      by_cases h2 : nameLt k k' = true
      · simp [h2, Pax.get]
      · simp only [h2, Bool.false_eq_true, if_false]
        have : (Pax.set rest k v).get k = some v := ih
        simp only [Pax.get, List.find?_cons, h1', Bool.false_eq_true, if_false] at this ⊢
        exact this

/-- (4′) A recursive remove writes exactly one DELETE record per selected row, carrying that
    row's own name: nothing outside the selection is named on the tape. -/
theorem deleteItems_names (rows : List Row) (env : EnvRecs) :
    (deleteItems rows env).1.map (·.name) = rows.map (·.name) ∧
    ∀ h ∈ (deleteItems rows env).1, h.pax.get Gen.recSTFSRecordAction = some Gen.recSTFSRecordActionDelete := by
  constructor
  · simp [deleteItems, Row.toHdr, Row.name]
  · intro h hh
    simp only [deleteItems, List.mem_map] at hh
    obtain ⟨r, _, rfl⟩ := hh
    simp [paxV1, pax_get_set_self]

/-- the name a `Move` record carries for the entry `n` when `from_` is renamed to `to` -/
def movedName (from_ to n : Name) : Name :=
  pjoin [to, trimPrefix (trimPrefix n [slash]) (trimPrefix from_ [slash])]

/-- (5) Rename arithmetic: when the directory `/F` is renamed to `/T`, the record written for the
    descendant `/F/R` carries the name `/T/R`, and the one for `/F` itself carries `/T` — for
    all plain component lists F, T, R (any depth, any characters but `/`, no `.`/`..`
    components).  Everything else keeps its name because only these rows are selected
    (`children_exact_partial`). -/
theorem rename_maps_descendants (cf ct cr : List Name) (hf : cf ≠ []) (ht : ct ≠ []) (hr : cr ≠ [])
    (pf : Plain cf) (pt : Plain ct) (pr : Plain cr) :
    movedName (slash :: joinWith slash cf) (slash :: joinWith slash ct)
        (slash :: (joinWith slash cf ++ slash :: joinWith slash cr)) =
      slash :: (joinWith slash ct ++ slash :: joinWith slash cr) ∧
    movedName (slash :: joinWith slash cf) (slash :: joinWith slash ct) (slash :: joinWith slash cf) =
      slash :: joinWith slash ct := by
  have tp : ∀ x : Name, trimPrefix (slash :: x) [slash] = x := by
    intro x; simp [trimPrefix, hasPrefix]
  have tne : (slash :: joinWith slash ct) ≠ [] := by simp
  constructor
  · -- a descendant
    unfold movedName
    rw [tp, tp, trimPrefix_append]
    unfold pjoin
    have hall : ([slash :: joinWith slash ct, slash :: joinWith slash cr].all (· == [])) = false := by simp
    simp only [hall, Bool.false_eq_true, if_false]
    have jb : joinBuf [] [slash :: joinWith slash ct, slash :: joinWith slash cr] =
        slash :: joinWith slash (ct ++ [[]] ++ cr) := by
      have e1 : ((slash :: joinWith slash ct) != []) = true := by simp
      simp only [joinBuf, e1, if_true, bne_self_eq_false, Bool.false_eq_true, if_false]
      rw [joinWith_append slash (ct ++ [[]]) cr (by simp) hr, joinWith_append slash ct [[]] ht (by simp)]
      simp [joinWith, List.append_assoc]
    rw [jb]
    have semi : Semi (ct ++ [[]] ++ cr) := by
      intro c hc
      simp only [List.mem_append, List.mem_singleton] at hc
      rcases hc with (hc | hc) | hc
      · exact Or.inr (pt c hc)
      · exact Or.inl hc
      · exact Or.inr (pr c hc)
    rw [clean_abs_semi _ (by simp) semi]
    have filt : (ct ++ [[]] ++ cr).filter (fun c => c != []) = ct ++ cr := by
      have f1 : ∀ l : List Name, Plain l → l.filter (fun c => c != []) = l := by
        intro l hl
        apply List.filter_eq_self.mpr
        intro c hc
        simp [bne, (hl c hc).1]
      simp [List.filter_append, f1 ct pt, f1 cr pr]
    rw [filt, joinWith_append slash ct cr ht hr]
  · -- the directory itself
    unfold movedName
    rw [tp]
    have e : trimPrefix (joinWith slash cf) (joinWith slash cf) = [] := by
      have := trimPrefix_append (joinWith slash cf) []
      simpa using this
    rw [e]
    unfold pjoin
    have hall : ([slash :: joinWith slash ct, ([] : Name)].all (· == [])) = false := by simp
    simp only [hall, Bool.false_eq_true, if_false]
    have jb : joinBuf [] [slash :: joinWith slash ct, []] = slash :: joinWith slash (ct ++ [[]]) := by
      have e1 : ((slash :: joinWith slash ct) != []) = true := by simp
      simp only [joinBuf, e1, if_true, bne_self_eq_false, Bool.false_eq_true, if_false]
      rw [joinWith_append slash ct [[]] ht (by simp)]
      simp [joinWith]
    rw [jb]
    have semi : Semi (ct ++ [[]]) := by
      intro c hc
      simp only [List.mem_append, List.mem_singleton] at hc
      rcases hc with hc | hc
      · exact Or.inr (pt c hc)
      · exact Or.inl hc
    rw [clean_abs_semi _ (by simp) semi]
    have filt : (ct ++ [[]]).filter (fun c => c != []) = ct := by
      have f1 : ct.filter (fun c => c != []) = ct := by
        apply List.filter_eq_self.mpr
        intro c hc
        simp [bne, (pt c hc).1]
      simp [List.filter_append, f1]
    rw [filt]

/-- `movedName` is the expression the model of `Move` (and, by the correspondence, the code) uses -/
theorem moveItems_names (from_ to : Name) (rows : List Row) (env : EnvRecs) :
    (moveItems from_ to rows env).1.map (·.name) = rows.map (fun r => movedName from_ to r.name) := by
  simp [moveItems, movedName, Row.toHdr]

example : movedName (n!"/a/b") (n!"/x") (n!"/a/b/c/d") = (n!"/x/c/d") := by decide

/-- (6) DELETE records touch only the rows they name.  Applying any sequence of DELETE records
    for absolute names to an index with an absolute root leaves every row whose name is neither
    one of those names nor the root exactly as it was (present or absent, live or tombstone, with
    all its columns).  With `deleteItems_names` (the records a recursive remove writes carry
    exactly the names of the selected rows) and `children_exact_partial` (the selected rows are
    exactly the rows beneath the directory), no entry outside the subtree is deleted or altered. -/
theorem delete_records_touch_only_their_names (recs : List (Name × Int × Int))
    (habs : ∀ r ∈ recs, hasPrefix r.1 [slash] = true) :
    ∀ p : Idx, AbsRoot p →
      SameOutside (p.root :: recs.map (·.1)) p.rows
        (recs.foldl (fun q r => (q.deleteHeader r.1 r.2.1 r.2.2).1) p).rows := by
  induction recs with
  | nil => intro p _; exact SameOutside.refl _ _
  | cons r rest ih =>
    intro p hr
    have hn := habs r (by simp)
    have h1 := Idx.deleteHeader_frame p r.1 r.2.1 r.2.2
    have hroot := deleteHeader_root p r.1 r.2.1 r.2.2 hr hn
    have hr' : AbsRoot (p.deleteHeader r.1 r.2.1 r.2.2).1 := by unfold AbsRoot; rw [hroot]; exact hr
    have h2 := ih (fun x hx => habs x (List.mem_cons_of_mem _ hx)) _ hr'
    rw [hroot] at h2
    simp only [List.foldl_cons, List.map_cons]
    refine (h1.trans h2).mono ?_
    intro x hx
    rcases List.mem_append.mp hx with h | h
    · simp only [List.mem_singleton] at h
      rcases (sanitize_abs p r.1 hr hn).2 with e | e
      · rw [h, e]; simp
      · rw [h, e]; simp
    · rcases List.mem_cons.mp h with h | h
      · rw [h]; simp
      · exact List.mem_cons_of_mem _ (List.mem_cons_of_mem _ h)

/-- the premises are satisfiable: an index with the root `/` and one absolute name to delete -/
example : AbsRoot ({ root := n!"/" } : Idx) ∧ hasPrefix (n!"/a/b") [slash] = true := by unfold AbsRoot; decide

-- MIRRORS-BEGIN (maintained by bin/update-mirrors)
/-- The parts of the model this file's theorems are about were written by hand against these
    versions of the functions they mirror (fingerprint of each function's comment-free source,
    regenerated on every run).  When one of them changes, this obligation fails: the change has
    to be confirmed harmless by the correspondence, or shows up as its failing input. -/
theorem model_mirrors_source :
    [(n!"persisters.MetadataPersister.GetHeaderChildren"), (n!"operations.Operations.Move"), (n!"operations.Operations.Delete"), (n!"fs.STFS.RemoveAll"), (n!"fs.STFS.Rename")].map Gen.fingerprintOf =
    [some 263775495660498030, some 621564509989880546, some 909123977399108449, some 637712002952537686, some 615787276878741348] := by decide
-- MIRRORS-END

end Stfs.C12
