/-
  C03 — Content round-trips byte-exactly through every pipeline configuration.

  Two layers.  (a) The pipeline's *structure* over abstract lawful codecs: whatever the stages
  are, read ∘ write is the identity, the header's size is the length of what pass two writes,
  and the size the index reports is the content length.  (b) The name side of the pipeline over
  the suffix tables regenerated from pkg/suffix: the suffix added on write is exactly the one
  removed on read, for every supported pair of formats and every name.
-/
import Stfs.Model.Pipeline
namespace Stfs.C03
open Stfs Stfs.Pipeline

/-- (1) For every pipeline of lawful stages and every content (empty, one byte, any length,
    any bytes): what is read back is byte-for-byte what was written. -/
theorem roundtrip (p : Pipe) (hc : p.compress.Lawful) (he : p.encrypt.Lawful) (hs : p.signer.Lawful) (x : Bytes) :
    read p (write p x) = some x := by
  simp only [Pipeline.read, Pipeline.write, he (p.compress.enc x), hc x, hs x, if_true]

/-- (2) The size written into the tar header by the counting first pass is the length of what
    the second pass writes, and the size reported for the entry is the content length. -/
theorem sizes (p : Pipe) (x : Bytes) :
    (write p x).storedSize = (write p x).stored.length ∧ (write p x).uncompressedSize = x.length := ⟨rfl, rfl⟩

/-- (3) Stages compose: the identity stage is lawful and two lawful stages in sequence are -/
theorem id_lawful : Codec.id.Lawful := fun _ => rfl

def Codec.comp (a b : Codec) : Codec :=
  { enc := fun x => b.enc (a.enc x), dec := fun y => (b.dec y).bind a.dec }

theorem comp_lawful (a b : Codec) (ha : a.Lawful) (hb : b.Lawful) : (Codec.comp a b).Lawful := by
  intro x; simp [Codec.comp, hb (a.enc x), ha x]

/-- a stage that alters content is caught: if decoding returns something else for some input,
    the round trip fails on that input (the statement is not vacuous in `Lawful`) -/
theorem unlawful_stage_breaks (p : Pipe) (he : p.encrypt.Lawful) (x y : Bytes) (hxy : y ≠ x)
    (hbad : p.compress.dec (p.compress.enc x) = some y) : read p (write p x) ≠ some x := by
  simp only [Pipeline.read, Pipeline.write, he (p.compress.enc x), hbad]
  by_cases hv : p.signer.verify y (p.signer.sign x) = true
  · simp only [hv, if_true]; intro h; exact hxy (Option.some.inj h)
  · simp only [hv, Bool.false_eq_true, if_false]; intro h; cases h

theorem hasPrefix_append (s t : Name) : hasPrefix (s ++ t) s = true := by
  induction s with
  | nil => cases t <;> rfl
  | cons a as ih => simp [hasPrefix, ih]

theorem trimSuffix_append (n s : Name) : trimSuffix (n ++ s) s = n := by
  have h : hasSuffix (n ++ s) s = true := by
    simp [hasSuffix, List.reverse_append, hasPrefix_append]
  simp [trimSuffix, h]

/-- the tables agree: for every supported format the suffix `AddSuffix` appends is the suffix
    `RemoveSuffix` strips (decided on this run's generated tables) -/
theorem tables_agree :
    Gen.addSuffixFirstIsCompression = true ∧ Gen.removeSuffixFirstIsEncryption = true ∧
    (∀ c ∈ Gen.knownCompressionFormats, (lookupTable Gen.addSuffixFirst c).isSome = true ∧
        lookupTable Gen.addSuffixFirst c = lookupTable Gen.removeSuffixSecond c) ∧
    (∀ e ∈ Gen.knownEncryptionFormats, (lookupTable Gen.addSuffixSecond e).isSome = true ∧
        lookupTable Gen.addSuffixSecond e = lookupTable Gen.removeSuffixFirst e) := by decide

/-- (4) The suffix added on write is the one removed on read, for every supported compression
    and encryption format (the generated tables of pkg/suffix) and every name. -/
theorem suffix_roundtrip (n c e : Name) (hc : c ∈ Gen.knownCompressionFormats) (he : e ∈ Gen.knownEncryptionFormats) :
    (addSuffix n c e).bind (fun m => removeSuffix m c e) = some n := by
  obtain ⟨h1, h2, hcs, hes⟩ := tables_agree
  obtain ⟨hc1, hc2⟩ := hcs c hc
  obtain ⟨he1, he2⟩ := hes e he
  unfold addSuffix removeSuffix
  simp only [h1, h2, if_true]
  rw [← hc2, ← he2]
  cases ha : lookupTable Gen.addSuffixFirst c with
  | none => rw [ha] at hc1; cases hc1
  | some s1 =>
    cases hb : lookupTable Gen.addSuffixSecond e with
    | none => rw [hb] at he1; cases he1
    | some s2 =>
      simp only [Option.bind_some]
      rw [trimSuffix_append, trimSuffix_append]

end Stfs.C03
