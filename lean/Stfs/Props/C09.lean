/-
  C09 — With encryption on, the tape reveals nothing but record sizes.

  Over the symbolic model Model/Enc.lean (ideal encryption) and the write-path table
  regenerated from pkg/operations/*.go, pkg/encryption/encrypt.go and pkg/recovery/index.go.
-/
import Stfs.Model.Enc
namespace Stfs.C09
open Stfs Stfs.Enc Stfs.Gen

/-- (0) decided on this run's table: every `tw.WriteHeader(X)` of Archive, Update (both
    branches), Delete and Move is directly preceded by `EncryptHeader(X, o.pipes.Encryption,
    o.crypto.Recipient)` and that by `SignHeader(X, …, o.pipes.Signature, o.crypto.Identity)`;
    content reaches the tar writer only through `encryption.Encrypt(tw, o.pipes.Encryption,
    o.crypto.Recipient)`; EncryptHeader's replacement header has exactly the format marker, the
    size and the one encrypted record; the indexer returns decryptHeader's error at both sites. -/
theorem write_paths :
    writeSites.length = 5 ∧ writeSites.all (fun s => s.encryptedBefore && s.signedBefore) = true ∧
    contentGoesThroughEncrypt = true ∧
    encryptHeaderFields = [(n!"Format=tar.FormatPAX"), (n!"Size=hdr.Size"), (n!"PAXRecords=<*ast.CompositeLit>")] ∧
    encryptHeaderPax = [(n!"records.STFSRecordEmbeddedHeader=EncryptString(string(wrappedHeader), encryptionFormat, recipient)")] ∧
    encryptHeaderReplaces = true ∧ decryptHeaderCalls = 2 ∧ decryptHeaderErrorsReturned = 2 := by decide

theorem visibleAll_map_clear (l : List Name) : visibleAll (l.map .clear) = l := by
  induction l with
  | nil => rfl
  | cons x xs ih => simp [visibleAll, visible, ih]

/-- (1) With encryption on, nothing of a header or of the content is visible in any record any
    write operation puts on the tape: no name, link target, owner, timestamp, STFS action
    record or content byte — only the fixed wrapper and the record length. -/
theorem nothing_visible (site : WriteSite) (hs : site ∈ writeSites) (rk stored : Nat) (s : Secret) :
    visibleAll (writeRecord site contentGoesThroughEncrypt true rk stored s) = [] := by
  have h := write_paths
  have he : site.encryptedBefore = true := by
    have := List.all_eq_true.mp h.2.1 site hs
    simp only [Bool.and_eq_true] at this
    exact this.1
  have hc : contentGoesThroughEncrypt = true := h.2.2.1
  simp [writeRecord, he, hc, encryptHeader, visibleAll, visible]

/-- for contrast: without encryption everything is visible (the model is not vacuous) -/
theorem everything_visible_without_encryption (site : WriteSite) (hs : site ∈ writeSites) (rk stored : Nat) (s : Secret) :
    visibleAll (writeRecord site contentGoesThroughEncrypt false rk stored s) = s.fields ++ [s.content] := by
  have h := write_paths
  have he : site.encryptedBefore = true := by
    have := List.all_eq_true.mp h.2.1 site hs
    simp only [Bool.and_eq_true] at this
    exact this.1
  simp [writeRecord, he, encryptHeader, visibleAll, visible, visibleAll_map_clear]
  induction s.fields with
  | nil => simp [visibleAll, visible]
  | cons x xs ih => simp [visibleAll, visible, ih]

/-- (2) Neither an index rebuild nor a restore succeeds with a different private key: the
    rebuild of a non-empty encrypted tape stops with an error, and a record does not open. -/
theorem wrong_key_fails (rk k : Nat) (hk : k ≠ rk) (inner : List Term) (rest : List Term) :
    rebuildOpens (decryptHeaderErrorsReturned == decryptHeaderCalls) k (.enc rk inner :: rest) = false ∧
    decrypt k (.enc rk inner) = none := by
  have h : (decryptHeaderErrorsReturned == decryptHeaderCalls) = true := by decide
  have e : (k == rk) = false := by simpa using hk
  simp [rebuildOpens, decrypt, e, h]

/-- … while the right key opens every record the writer made -/
theorem right_key_opens (rk : Nat) (s : Secret) :
    decrypt rk (.enc rk (s.fields.map .clear)) = some (s.fields.map .clear) := by
  simp [decrypt]

/-- … and a rebuild with the right key opens every record of a tape the writer made -/
theorem right_key_rebuild_opens (rk : Nat) (recs : List (List Term)) (strict : Bool) :
    rebuildOpens strict rk (recs.map (fun inner => Term.enc rk inner)) = true := by
  induction recs with
  | nil => rfl
  | cons r rest ih => simp [rebuildOpens, decrypt, ih]

/-- non-vacuity: there are write sites, and a concrete record with secrets at any of them -/
example : writeSites ≠ [] ∧ ∀ site ∈ writeSites, visibleAll (writeRecord site contentGoesThroughEncrypt true 1 512
    { fields := [(n!"/secret/name"), (n!"UPDATE")], content := (n!"content") }) = [] :=
  ⟨by decide, fun site hs => nothing_visible site hs 1 512 _⟩

end Stfs.C09
