/-
  C05 — The tape is append-only and stays a standard tar stream.
-/
import Stfs.Proofs.AppendOnly
import Stfs.Gen.OpenFlags
import Stfs.Gen.Fingerprints
namespace Stfs.C05
open Stfs Gen

/-- (1) Append-only, per call: whatever call is made in whatever state (successful or
    failing), the tape afterwards is the tape before followed by a suffix. -/
theorem step_appends (f : FsCfg) (s : Sys) (env : Env) (c : Call) :
    ∃ suffix, (s.step f env c).1.w.tape = s.w.tape ++ suffix :=
  Sys.step_pres (opsPres_extends f s.w.tape) s env c ⟨[], by simp⟩

/-- (2) Append-only over histories: no history ever changes a block already on the tape. -/
theorem history_appends (f : FsCfg) (s : Sys) (hist : List (Env × Call)) :
    ∃ suffix, (s.runAll f hist).w.tape = s.w.tape ++ suffix :=
  Sys.runAll_pres (opsPres_extends f s.w.tape) hist s ⟨[], by simp⟩

/-- (3) At rest the tape is a concatenation of archives, each a non-empty run of records
    closed by a trailer — after every history, successful and failing calls alike. -/
theorem archives_well_formed (f : FsCfg) (hist : List (Env × Call)) :
    wfFrom false ((({} : Sys).runAll f hist).w.tape) = true :=
  Sys.runAll_pres (opsPres_archWF f) hist {} (by simp [ArchWF, wfFrom])

/-- the state a read-only program (a precondition check) leaves behind: same tape, same table,
    same drive state — only the persister's root cache may have been filled -/
def SameData (w0 w : World) : Prop := w.tape = w0.tape ∧ w.idx.rows = w0.idx.rows ∧ w.stuck = w0.stuck

theorem sameData_stable (w0 : World) : RowStable (SameData w0) := by
  intro w p hp h
  exact ⟨h.1, by simp only; rw [hp]; exact h.2.1, h.2.2⟩

/-- when the first half of `g >>= k` fails, the whole call fails with that error in that state -/
theorem bind_fails {α β : Type} (g : M α) (k : α → M β) (w w' : World) (e : Err) (h : g w = (w', .error e)) :
    (g >>= k) w = (w', .error e) := by
  show (Bind.bind g k) w = _
  simp only [Bind.bind, h]

/-- (4) A call that fails its precondition appends nothing: every mutating method that has a
    precondition is `guard >>= effect` with a read-only guard, so when the guard fails the call
    returns the guard's error and tape, table and drive state are exactly what they were. -/
theorem failed_precondition_appends_nothing (f : FsCfg) (env : Env) (w : World) :
    (∀ n p w' e, mkdirGuard f n w = (w', .error e) →
        mkdir f env n p w = (w', .error e) ∧ SameData w w') ∧
    (∀ n w' e, removeGuard f n w = (w', .error e) →
        removeNoLock f env n w = (w', .error e) ∧ SameData w w') ∧
    (∀ a b w' e, renameGuard f a b w = (w', .error e) →
        rename f env a b w = (w', .error e) ∧ SameData w w') ∧
    (∀ n m w' e, attrGuard f n w = (w', .error e) →
        chmod f env n m w = (w', .error e) ∧ SameData w w') ∧
    (∀ n u g w' e, attrGuard f n w = (w', .error e) →
        chown f env n u g w = (w', .error e) ∧ SameData w w') ∧
    (∀ n a m w' e, attrGuard f n w = (w', .error e) →
        chtimes f env n a m w = (w', .error e) ∧ SameData w w') ∧
    (∀ a b w' e, symlinkGuard f a b w = (w', .error e) →
        symlink f env a b w = (w', .error e) ∧ SameData w w') := by
  have hs := sameData_stable w
  have h0 : SameData w w := ⟨rfl, rfl, rfl⟩
  refine ⟨?_, ?_, ?_, ?_, ?_, ?_, ?_⟩
  · intro n p w' e h
    exact ⟨bind_fails _ _ _ _ _ h, by have := (mkdirGuard_ro hs f n).run w h0; rw [h] at this; exact this⟩
  · intro n w' e h
    exact ⟨bind_fails _ _ _ _ _ h, by have := (removeGuard_ro hs f n).run w h0; rw [h] at this; exact this⟩
  · intro a b w' e h
    exact ⟨bind_fails _ _ _ _ _ h, by have := (renameGuard_ro hs f a b).run w h0; rw [h] at this; exact this⟩
  · intro n m w' e h
    exact ⟨bind_fails _ _ _ _ _ h, by have := (attrGuard_ro hs f n).run w h0; rw [h] at this; exact this⟩
  · intro n u g w' e h
    exact ⟨bind_fails _ _ _ _ _ h, by have := (attrGuard_ro hs f n).run w h0; rw [h] at this; exact this⟩
  · intro n a m w' e h
    exact ⟨bind_fails _ _ _ _ _ h, by have := (attrGuard_ro hs f n).run w h0; rw [h] at this; exact this⟩
  · intro a b w' e h
    exact ⟨bind_fails _ _ _ _ _ h, by have := (symlinkGuard_ro hs f a b).run w h0; rw [h] at this; exact this⟩

/-- non-vacuity of (4): a guard that fails — `Mkdir` below a missing parent -/
example :
    let f : FsCfg := {}
    let s := ({} : Sys).runAll f [({ now := 1, recs := [(3, 0)] }, .init [47] 511)]
    (match (mkdirGuard f [47, 97, 47, 98] s.w).2 with | .error .notExist => true | _ => false) = true := by decide

/-- (5) How the drive is opened, *as extracted from `pkg/tape/write.go` and `manager.go` on this
    run*: every open that is not under `overwrite` carries `O_APPEND` and none carries
    `O_TRUNC`; `Truncate` is only called under `overwrite`; and `GetWriter` latches `overwrite`
    after the first writer, handing the latched value on. -/
theorem drive_opened_append_only :
    (writeOpenSites.all (fun s =>
        s.conds.contains [111, 118, 101, 114, 119, 114, 105, 116, 101] /- "overwrite" -/ ||
        s.flags.contains [79, 95, 65, 80, 80, 69, 78, 68] /- "O_APPEND" -/)) = true ∧
    (writeOpenSites.all (fun s => !s.flags.contains [79, 95, 84, 82, 85, 78, 67] /- "O_TRUNC" -/)) = true ∧
    (writeOpenSites.any (fun s => !s.conds.contains [111, 118, 101, 114, 119, 114, 105, 116, 101])) = true ∧
    (truncateSites.all (fun s => s.conds.contains [111, 118, 101, 114, 119, 114, 105, 116, 101])) = true ∧
    overwriteLatched = true ∧ overwritePassedLatched = true := by
  decide

-- MIRRORS-BEGIN (maintained by bin/update-mirrors)
/-- The parts of the model this file's theorems are about were written by hand against these
    versions of the functions they mirror (fingerprint of each function's comment-free source,
    regenerated on every run).  When one of them changes, this obligation fails: the change has
    to be confirmed harmless by the correspondence, or shows up as its failing input. -/
theorem model_mirrors_source :
    [(n!"operations.Operations.Archive"), (n!"operations.Operations.archive"), (n!"operations.Operations.Update"), (n!"operations.Operations.Delete"), (n!"operations.Operations.Move")].map Gen.fingerprintOf =
    [some 1648624610388481193, some 5792097208041111, some 759131720475697022, some 909123977399108449, some 621564509989880546] := by decide
-- MIRRORS-END

end Stfs.C05
