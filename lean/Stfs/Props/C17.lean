/-
  C17 — Foreign tar archives open as filesystems; path spellings are interchangeable.

  What is proved here, over the model of the index (`getSanitizedPath`, `GetRootPath`,
  `indexHeader`) that the correspondence check ties to the code on every run:

  * (spellings) once an archive with an entry for its top-level directory has been indexed
    (the root is the canonical `""` and a live row of that name exists), '/p', 'p' and './p'
    resolve to the same row, for every plain path p — the property's precondition "contains an
    entry for its top-level directory" is exactly the hypothesis the proof needs;
  * (root) `GetRootPath` returns a live name with the fewest slashes;
  * (members) a record written by a standard tar writer (no STFS PAX records) is indexed as a
    plain upsert at its own position, whatever the archive's format;
  * (coexistence) an STFS archive appended behind a foreign one rebuilds as the continuation of
    the foreign archive's rebuild (`C01.replay_append`), and the trailer between them is skipped.
-/
import Stfs.Proofs.Spelling
import Stfs.Proofs.IndexLemmas
import Stfs.Model.Fs
import Stfs.Props.C01
import Stfs.Proofs.Scan
import Stfs.Gen.Fingerprints
namespace Stfs.C17
open Stfs Stfs.Idx

/-- `getSanitizedPath` on the three spellings of a plain path, in an index whose root is the
    canonical empty name and which holds the top-level directory's row: all three give the
    plain relative name, and none of them touches the rows or the root. -/
theorem sanitize_spellings (p : Idx) (cs : List Name) (hne : cs ≠ []) (hpl : Plain cs)
    (hroot : p.root = []) (htop : headerExistsExact p [] = true) :
    let q := joinWith slash cs
    (sanitize p (clean (slash :: q))).2 = q ∧ (sanitize p (clean q)).2 = q ∧
    (sanitize p (clean (dotc :: slash :: q))).2 = q ∧
    (sanitize p (clean (slash :: q))).1.rows = p.rows ∧ (sanitize p (clean q)).1.rows = p.rows ∧
    (sanitize p (clean (slash :: q))).1.root = [] ∧ (sanitize p (clean q)).1.root = [] := by
  intro q
  have hq0 : q ≠ [] := joinWith_ne_nil cs hne hpl
  have hnr : isRoot q false = false := plain_not_root cs hne hpl
  have hhead : (q.head? == some slash) = false := joinWith_head cs hne hpl
  have hpre : hasPrefix q [slash] = false := by
    cases hq : q with
    | nil => exact absurd hq hq0
    | cons a as =>
      rw [hq] at hhead
      have : (a == slash) = false := by simpa using hhead
      simp [hasPrefix, this]
  have htrim : trimPrefix q [slash] = q := by simp [trimPrefix, hpre]
  have hpj : pjoin [[], q] = q := pjoin_empty_plain cs hne hpl
  -- the relative spelling
  have rel : sanitize p q = (p, q) := by
    unfold sanitize
    have e1 : (q == p.root) = false := by rw [hroot]; simpa using hq0
    simp only [hnr, e1, Bool.or_self, Bool.false_eq_true, if_false, hpre, Bool.and_false, Bool.false_and, hroot,
      beq_self_eq_true, hasPrefix, htrim, hpj, if_true]
    simp [hasPrefix]
  -- the absolute spelling
  have habsroot : isRoot (slash :: q) false = false := by
    cases hq : q with
    | nil => exact absurd hq hq0
    | cons a as => simp [isRoot, slash, dotc]
  have abs : (sanitize p (slash :: q)).2 = q ∧ (sanitize p (slash :: q)).1.rows = p.rows ∧
      (sanitize p (slash :: q)).1.root = [] := by
    unfold sanitize
    have e1 : ((slash :: q) == p.root) = false := by rw [hroot]; simp
    have hp : hasPrefix (slash :: q) [slash] = true := by simp [hasPrefix]
    have ht : trimPrefix (slash :: q) [slash] = q := by simp [trimPrefix, hp]
    simp only [habsroot, e1, Bool.or_self, Bool.false_eq_true, if_false, hroot, beq_self_eq_true, hp, Bool.true_and]
    cases hrie : p.rootIsEmpty with
    | true =>
      simp only [Bool.not_true, Bool.and_false, Bool.false_eq_true, if_false, hroot, hasPrefix, beq_self_eq_true, if_true, ht, hpj]
      simp [hroot, hasPrefix]
    | false =>
      simp only [Bool.not_false, Bool.and_true, if_true, htop, Bool.not_true, Bool.false_eq_true, if_false, hroot,
        hasPrefix, beq_self_eq_true, ht, hpj]
      simp [hroot, hasPrefix]
  rw [clean_abs_plain cs hne hpl, clean_plain cs hne hpl, clean_dot_plain cs hne hpl, rel]
  exact ⟨abs.1, rfl, rfl, abs.2.1, rfl, abs.2.2, hroot⟩

/-- (1) Equivalent spellings resolve to the same entry: the lookups by '/p', 'p' and './p'
    return the same row (or all fail alike). -/
theorem spellings_resolve_alike (p : Idx) (cs : List Name) (hne : cs ≠ []) (hpl : Plain cs)
    (hroot : p.root = []) (htop : headerExistsExact p [] = true) :
    let q := joinWith slash cs
    (p.getHeader (clean (slash :: q))).2 = (p.getHeader (clean q)).2 ∧
    (p.getHeader (clean (dotc :: slash :: q))).2 = (p.getHeader (clean q)).2 := by
  intro q
  obtain ⟨h1, h2, h3, r1, r2, _, _⟩ := sanitize_spellings p cs hne hpl hroot htop
  have key : ∀ n : Name, (sanitize p n).2 = q → (sanitize p n).1.rows = p.rows →
      (p.getHeader n).2 = (match findLive p.rows q with | some r => .ok r | none => .error .noRows) := by
    intro n hn hr
    unfold Idx.getHeader
    generalize sanitize p n = x at hn hr
    rcases x with ⟨p', n'⟩
    simp only at hn hr
    simp only [hn, hr]
    cases findLive p.rows q <;> rfl
  have hdot : clean (dotc :: slash :: q) = clean q := by
    rw [clean_dot_plain cs hne hpl, clean_plain cs hne hpl]
  constructor
  · rw [key _ h1 r1, key _ h2 r2]
  · rw [hdot]

/-- … and at the level of the filesystem call, `Stat("./p")` is `Stat("p")` outright -/
theorem stat_dot_spelling (cs : List Name) (hne : cs ≠ []) (hpl : Plain cs) (w : World) :
    fsStat (dotc :: slash :: joinWith slash cs) w = fsStat (joinWith slash cs) w := by
  unfold fsStat
  rw [clean_dot_plain cs hne hpl, clean_plain cs hne hpl]

theorem minDepthRow_none (rows : List Row) (h : minDepthRow rows = none) : ∀ r ∈ rows, r.live = false := by
  induction rows with
  | nil => intro r hr; cases hr
  | cons y ys ih =>
    unfold minDepthRow at h
    by_cases hy : y.live = true
    · simp only [hy, if_true] at h
      cases h2 : minDepthRow ys with
      | none => rw [h2] at h; simp at h
      | some m => rw [h2] at h; simp only at h; split at h <;> cases h
    · simp only [hy, Bool.false_eq_true, if_false] at h
      intro r hr
      cases hr with
      | head => simpa using hy
      | tail _ hr => exact ih h r hr

theorem minDepthRow_min (rows : List Row) (m : Row) (h : minDepthRow rows = some m) :
    m ∈ rows ∧ m.live = true ∧ ∀ r ∈ rows, r.live = true → countSlash m.name ≤ countSlash r.name := by
  induction rows generalizing m with
  | nil => simp [minDepthRow] at h
  | cons r rs ih =>
    unfold minDepthRow at h
    by_cases hl : r.live = true
    · simp only [hl, if_true] at h
      cases hm : minDepthRow rs with
      | none =>
        rw [hm] at h
        simp only [Option.some.injEq] at h
        subst h
        refine ⟨List.mem_cons_self, hl, ?_⟩
        intro x hx hxl
        cases hx with
        | head => exact Nat.le_refl _
        | tail _ hx =>
          have := minDepthRow_none rs hm x hx
          rw [this] at hxl; cases hxl
      | some m' =>
        rw [hm] at h
        obtain ⟨hmem, hlive, hmin⟩ := ih m' hm
        simp only at h
        split at h
        · rename_i hlt
          simp only [Option.some.injEq] at h
          subst h
          refine ⟨List.mem_cons_of_mem _ hmem, hlive, ?_⟩
          intro x hx hxl
          cases hx with
          | head => exact Nat.le_of_lt hlt
          | tail _ hx => exact hmin x hx hxl
        · rename_i hnlt
          simp only [Option.some.injEq] at h
          subst h
          refine ⟨List.mem_cons_self, hl, ?_⟩
          intro x hx hxl
          cases hx with
          | head => exact Nat.le_refl _
          | tail _ hx => exact Nat.le_trans (Nat.le_of_not_lt hnlt) (hmin x hx hxl)
    · simp only [hl, Bool.false_eq_true, if_false] at h
      obtain ⟨hmem, hlive, hmin⟩ := ih m h
      refine ⟨List.mem_cons_of_mem _ hmem, hlive, ?_⟩
      intro x hx hxl
      cases hx with
      | head => exact absurd hxl hl
      | tail _ hx => exact hmin x hx hxl

/-- (2) `GetRootPath` picks a live name with the fewest slashes (when no root is cached). -/
theorem root_has_fewest_slashes (p : Idx) (hroot : p.root = []) (r : Name) (h : (p.getRootPath).2 = .ok r) :
    (∃ m ∈ p.rows, m.live = true ∧ m.name = r) ∧
    ∀ x ∈ p.rows, x.live = true → countSlash r ≤ countSlash x.name := by
  unfold Idx.getRootPath at h
  have e : (p.root != []) = false := by simp [hroot]
  simp only [e, Bool.false_eq_true, if_false] at h
  cases hm : minDepthRow p.rows with
  | none => rw [hm] at h; simp at h
  | some m =>
    rw [hm] at h
    simp only [Except.ok.injEq] at h
    obtain ⟨hmem, hlive, hmin⟩ := minDepthRow_min p.rows m hm
    subst h
    exact ⟨⟨m, hmem, hlive, rfl⟩, hmin⟩

/-- (3) A record of a standard tar writer — no STFS records in its PAX map — is indexed as a
    plain upsert at its own position, in every tar format (the format only changes how many
    header blocks the record has, which the position arithmetic of C04 accounts for). -/
theorem foreign_record_is_upsert (p : Idx) (pos : Pos) (h : Hdr) (hp : h.pax = []) (init : Bool) :
    applyRec {} p pos h init = (p.upsertHeader (Idx.mkRow h pos.recd pos.blk pos.recd pos.blk) init, none) := by
  have hrs : ∀ n : Name, removeSuffix n [] [] = some n := by
    intro n
    have e1 : lookupTable Gen.removeSuffixFirst [] = some [] := by decide
    have e2 : lookupTable Gen.removeSuffixSecond [] = some [] := by decide
    have t : ∀ s : Name, trimSuffix s [] = s := by
      intro s; simp [trimSuffix, hasSuffix, hasPrefix]
    unfold removeSuffix
    have hb : Gen.removeSuffixFirstIsEncryption = true := by decide
    simp only [hb, if_true, e1, e2, t]
  obtain ⟨tf, nm, ln, sz, at_, px⟩ := h
  have hp' : px = [] := hp
  subst hp'
  unfold applyRec
  cases hreg : Hdr.isRegular { typeflag := tf, name := nm, linkname := ln, size := sz, attrs := at_, pax := [] } <;>
    simp [Pax.get, hrs, Option.getD, hreg]

/-- the row a foreign record leaves: live, at the record's position, under the sanitised name -/
theorem upsert_row_present (p : Idx) (r : Row) (init : Bool) :
    ∃ x ∈ (p.upsertHeader r init).rows, x.recd = r.recd ∧ x.blk = r.blk ∧ x.deleted = r.deleted ∧
      x.hdr.size = r.hdr.size ∧ x.linkname = r.linkname ∧
      x.name = (if init then r.name else (sanitize p r.name).2) := by
  unfold Idx.upsertHeader
  cases init with
  | true =>
    simp only [if_true]
    split
    · rename_i hk
      -- the key exists: setByKey rewrites that row
      simp only [hasKey, List.any_eq_true] at hk
      obtain ⟨y, hy, hyk⟩ := hk
      refine ⟨{ r with hdr := { r.hdr with name := r.name } }, ?_, rfl, rfl, rfl, rfl, rfl, rfl⟩
      simp only [setByKey, List.mem_map]
      exact ⟨y, hy, by simp only [Bool.and_eq_true, beq_iff_eq] at hyk; simp [hyk.1, hyk.2]⟩
    · exact ⟨_, List.mem_append_right _ List.mem_cons_self, rfl, rfl, rfl, rfl, rfl, rfl⟩
  | false =>
    simp only [Bool.false_eq_true, if_false]
    generalize sanitize p r.name = s
    rcases s with ⟨p', n⟩
    simp only
    split
    · rename_i hk
      simp only [hasKey, List.any_eq_true] at hk
      obtain ⟨y, hy, hyk⟩ := hk
      refine ⟨{ r with hdr := { r.hdr with name := n } }, ?_, rfl, rfl, rfl, rfl, rfl, rfl⟩
      simp only [setByKey, List.mem_map]
      exact ⟨y, hy, by simp only [Bool.and_eq_true, beq_iff_eq] at hyk; simp [hyk.1, hyk.2]⟩
    · exact ⟨_, List.mem_append_right _ List.mem_cons_self, rfl, rfl, rfl, rfl, rfl, rfl⟩

/-- a tape as a standard tar writer produces it: no record carries STFS PAX records -/
def PlainTape (t : Tape) : Prop := ∀ it ∈ t, match it with | .recd h _ _ _ => h.pax = [] | .trailer => True

/-- along the rebuild: no two members collide on the key they are stored under (name after
    `getSanitizedPath` at that moment, link name).  Decidable, evaluated on the run. -/
def freshAlong (p : Idx) (B : Nat) : Tape → Bool
  | [] => true
  | .trailer :: rest => freshAlong p (B + 2) rest
  | .recd h hb st _ :: rest =>
    !hasKey p.rows (sanitize p h.name).2 h.linkname &&
    freshAlong (p.upsertHeader (Idx.mkRow h (posOfBlock 20 B).recd (posOfBlock 20 B).blk (posOfBlock 20 B).recd (posOfBlock 20 B).blk) false)
      (B + hb + blocksOf st) rest

/-- the rows the members get: one per record, in tape order, at the record's own position,
    live, with the record's size and attributes, under the sanitised name -/
def memberRows (p : Idx) (B : Nat) : Tape → List Row
  | [] => []
  | .trailer :: rest => memberRows p (B + 2) rest
  | .recd h hb st _ :: rest =>
    let pos := posOfBlock 20 B
    let r : Row := Idx.mkRow { h with name := (sanitize p h.name).2 } pos.recd pos.blk pos.recd pos.blk
    r :: memberRows (p.upsertHeader (Idx.mkRow h pos.recd pos.blk pos.recd pos.blk) false) (B + hb + blocksOf st) rest

/-- (3′) Every member is listed: the rebuild of an archive written by a standard tar writer
    (any mix of records and end-of-archive markers, any header-block counts, i.e. any tar
    format) whose members do not collide succeeds and adds exactly one live row per member, in
    tape order, at the member's own position, with its size and attributes. -/
theorem every_member_gets_its_row (t : Tape) (hp : PlainTape t) :
    ∀ (p : Idx) (B i : Nat), freshAlong p B t = true →
      (indexLoopIdeal {} false 0 .tape p B i t).2 = none ∧
      (indexLoopIdeal {} false 0 .tape p B i t).1.rows = p.rows ++ memberRows p B t := by
  induction t with
  | nil => intro p B i _; simp [indexLoopIdeal, memberRows]
  | cons it rest ih =>
    intro p B i hf
    have hrest : PlainTape rest := fun x hx => hp x (List.mem_cons_of_mem _ hx)
    cases it with
    | trailer =>
      simp only [freshAlong] at hf
      simp only [indexLoopIdeal, memberRows]
      exact ih hrest p (B + 2) i hf
    | recd h hb st d =>
      have hpax : h.pax = [] := hp _ List.mem_cons_self
      simp only [freshAlong, Bool.and_eq_true, Bool.not_eq_true'] at hf
      obtain ⟨hkey, hf'⟩ := hf
      have hrec := foreign_record_is_upsert p (posOfBlock 20 B) h hpax false
      have hrs : ({} : Cfg).rs = 20 := rfl
      simp only [indexLoopIdeal, Nat.zero_le, ge_iff_le, if_true, Subst.header, hrs, hrec, memberRows]
      have hup : (p.upsertHeader (Idx.mkRow h (posOfBlock 20 B).recd (posOfBlock 20 B).blk (posOfBlock 20 B).recd (posOfBlock 20 B).blk) false).rows =
          p.rows ++ [Idx.mkRow { h with name := (sanitize p h.name).2 } (posOfBlock 20 B).recd (posOfBlock 20 B).blk (posOfBlock 20 B).recd (posOfBlock 20 B).blk] := by
        unfold Idx.upsertHeader
        simp only [Bool.false_eq_true, if_false, Idx.mkRow]
        have e : hasKey (sanitize p h.name).1.rows (sanitize p h.name).2 h.linkname = false := by
          rw [Idx.sanitize_rows]; exact hkey
        generalize hs : sanitize p h.name = sp at e ⊢
        obtain ⟨p', n⟩ := sp
        simp only at e ⊢
        have hr' : p'.rows = p.rows := by
          have := Idx.sanitize_rows p h.name
          rw [hs] at this; exact this
        rw [hr'] at e
        simp [Row.name, Row.linkname, e, hr']
      obtain ⟨i1, i2⟩ := ih hrest _ (B + hb + blocksOf st) (i + 1) hf'
      refine ⟨i1, ?_⟩
      rw [i2, hup, List.append_assoc]
      rfl

/-- non-vacuity: the freshness guard holds on a concrete archive, and the rows are as stated -/
example :
    let t : Tape := [.recd { typeflag := tfDir, name := (n!"./") } 1 0 [],
                     .recd { typeflag := tfDir, name := (n!"./d/") } 1 0 [],
                     .recd { name := (n!"./d/f"), size := 700 } 3 700 [], .trailer, .trailer]
    freshAlong {} 0 t = true ∧
    ((memberRows {} 0 t).map (fun r => (r.name, r.recd, r.blk, r.hdr.size, r.deleted))) =
      [([], 0, 0, 0, false), ((n!"d"), 0, 1, 0, false), ((n!"d/f"), 0, 2, 700, false)] := by decide

/-- (4) Files later added through the filesystem coexist with the original members and survive
    a rebuild: rebuilding `foreign ++ later` is the rebuild of `foreign` continued over `later`
    (an instance of `C01.replay_append`). -/
theorem later_archives_continue_the_rebuild (c : Cfg) (foreign later : Tape) :
    indexLoopIdeal c false 0 .tape {} 0 0 (foreign ++ later) =
      (match indexLoopIdeal c false 0 .tape {} 0 0 foreign with
       | (p, some e) => (p, some e)
       | (p, none) => indexLoopIdeal c false 0 .tape p (tapeBlocks foreign) (recCount foreign) later) := by
  have := C01.replay_append c false 0 .tape foreign later {} 0 0
  rw [this]
  simp only [Nat.zero_add]
  generalize indexLoopIdeal c false 0 .tape {} 0 0 foreign = x
  rcases x with ⟨p, _ | e⟩ <;> rfl

/-- non-vacuity: an archive written as `tar -cf x.tar .` (names './', './d/', './d/f'),
    rebuilt; its root is canonical, the top-level row exists, and the three spellings of `d/f`
    find the member at block 2 -/
example :
    let t : Tape := [.recd { typeflag := tfDir, name := (n!"./") } 1 0 [],
                     .recd { typeflag := tfDir, name := (n!"./d/") } 1 0 [],
                     .recd { name := (n!"./d/f"), size := 700 } 1 700 [], .trailer]
    let p := (indexLoopIdeal {} false 0 .tape {} 0 0 t).1
    p.root = [] ∧ headerExistsExact p [] = true ∧
    ((p.getHeader (clean (n!"/d/f"))).2.toOption.map (fun r => (r.name, r.recd, r.blk))) = some ((n!"d/f"), 0, 2) ∧
    ((p.getHeader (clean (n!"d/f"))).2.toOption.map (fun r => (r.name, r.recd, r.blk))) = some ((n!"d/f"), 0, 2) ∧
    ((p.getHeader (clean (n!"./d/f"))).2.toOption.map (fun r => (r.name, r.recd, r.blk))) = some ((n!"d/f"), 0, 2) := by
  decide

example : Plain [(n!"d"), (n!"f")] := by
  intro c hc
  simp only [List.mem_cons, List.mem_nil_iff, or_false] at hc
  rcases hc with rfl | rfl <;> refine ⟨by decide, by decide, by decide, by decide⟩

-- MIRRORS-BEGIN (maintained by bin/update-mirrors)
/-- The parts of the model this file's theorems are about were written by hand against these
    versions of the functions they mirror (fingerprint of each function's comment-free source,
    regenerated on every run).  When one of them changes, this obligation fails: the change has
    to be confirmed harmless by the correspondence, or shows up as its failing input. -/
theorem model_mirrors_source :
    [(n!"persisters.MetadataPersister.getSanitizedPath"), (n!"persisters.MetadataPersister.GetRootPath"), (n!"persisters.MetadataPersister.GetHeader"), (n!"cache.NewCacheFilesystem"), (n!"pathext.IsRoot")].map Gen.fingerprintOf =
    [some 134905088822168908, some 1811262850778349076, some 2215020636047172842, some 1719190592749692221, some 960647649373867508] := by decide
-- MIRRORS-END

end Stfs.C17
