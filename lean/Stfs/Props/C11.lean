/-
  C11 — Concurrent callers see a linearizable, race-free filesystem.

  Three layers.
  (a) The generic theorem (Proofs/Lin.lean): whatever the threads do, if every operation's
      body runs under one mutex and shared state is touched only inside bodies, the completed
      operations form a valid *sequential* history in release order, the shared state with the
      lock free is the sequential state, and the order respects real time.
  (b) Its instance for the model: the sequential specification is `Sys.step`, the model of
      every filesystem and file method, so every concurrent execution of bracketed methods is
      a run of `Sys.runAll` on some order of the calls that respects their real-time order.
  (c) Which methods *are* bracketed: decided by the kernel on the shapes regenerated from
      pkg/fs on this run (Gen/Guards), together with the exceptions that exist today, and on
      the lock skeletons of the operations (Gen/Locks).
  What the model cannot exhibit: the Go memory model and the scheduler.  The concurrency stream
  (built with the race detector, yields injected at the drive and index-store seams) searches
  for schedules on the real code; it is not the proof.
-/
import Stfs.Proofs.Lin
import Stfs.Model.Sys
import Stfs.Gen.Guards
import Stfs.Gen.Locks
namespace Stfs.C11
open Stfs Stfs.Lin Stfs.Gen

/-- (a) the generic statements, re-exported -/
theorem mutex_linearizable {σ Op Res : Type} (I : Impl σ Op Res) (s0 : σ) (s : St σ Op Res) (h : Reach I s0 s) :
    validSeq I s0 s.lin ∧ (s.holder = none → s.mem = seqState I s0 s.lin) ∧
    s.lin.Pairwise (fun a b => a.relT < b.relT) ∧
    (∀ p ∈ s.done, ∀ b ∈ s.lin, p.2 < b.invT → p.1 ∈ s.lin ∧ p.1.relT < b.relT) :=
  ⟨(linearizable I s0 s h).1, (linearizable I s0 s h).2, (respects_real_time I s0 s h).1, (respects_real_time I s0 s h).2⟩

/-- (b) the filesystem as an instance: the shared state is the model's `Sys` (tape, index,
    handles) plus the result of the call that ran last; one call is one critical section -/
abbrev Shared := Sys × Option (Except Err Val)

def stfsImpl (f : FsCfg) : Impl Shared (Env × Call) (Option (Except Err Val)) where
  steps := fun op => [fun s => let r := s.1.step f op.1 op.2; (r.1, some r.2)]
  result := fun s _ => s.2

/-- running a list of calls sequentially through the model -/
def runSeq (f : FsCfg) (s : Sys) : List (Env × Call) → Sys
  | [] => s
  | (env, c) :: rest => runSeq f (s.step f env c).1 rest

theorem seqState_fst (f : FsCfg) (s : Shared) (l : List (Entry (Env × Call) (Option (Except Err Val)))) :
    (seqState (stfsImpl f) s l).1 = runSeq f s.1 (l.map (·.op)) := by
  induction l generalizing s with
  | nil => rfl
  | cons e l ih =>
    obtain ⟨op, res, it, rt⟩ := e
    obtain ⟨env, c⟩ := op
    simp only [seqState, List.map_cons, runSeq]
    rw [ih]
    simp [Impl.seqStep, stfsImpl, applyAll]

/-- Every concurrent execution in which each call runs under the filesystem's lock is a
    sequential run of the model: with the lock free, tape, index and handles are those of
    `runSeq` over the completed calls in release order — an order that respects real time —
    and every call returned what `Sys.step` returns at its place in that order. -/
theorem stfs_linearizable (f : FsCfg) (s0 : Sys) (s : St Shared (Env × Call) (Option (Except Err Val)))
    (h : Reach (stfsImpl f) (s0, none) s) :
    validSeq (stfsImpl f) (s0, none) s.lin ∧
    (s.holder = none → s.mem.1 = runSeq f s0 (s.lin.map (·.op))) ∧
    s.lin.Pairwise (fun a b => a.relT < b.relT) ∧
    (∀ p ∈ s.done, ∀ b ∈ s.lin, p.2 < b.invT → p.1.relT < b.relT) := by
  obtain ⟨h1, h2, h3, h4⟩ := mutex_linearizable (stfsImpl f) (s0, none) s h
  refine ⟨h1, ?_, h3, fun p hp b hb hlt => (h4 p hp b hb hlt).2⟩
  intro hf
  rw [h2 hf, seqState_fst]

/-- … and a recorded result is exactly the model's result at that point -/
theorem result_is_models (f : FsCfg) (s : Shared) (e : Entry (Env × Call) (Option (Except Err Val)))
    (h : validSeq (stfsImpl f) s [e]) : e.res = some (s.1.step f e.op.1 e.op.2).2 := by
  have := h.1
  simpa [Impl.seqStep, stfsImpl, applyAll] using this

/-- the statements a method may run before it takes the lock without touching shared state:
    logging, guards on the instance's immutable configuration and on the arguments, cleaning
    the name, guards on the handle's own flags -/
def localKind : StmtKind → Bool
  | .log | .roGuard | .checkName | .clean | .readFlagGuard | .writeFlagGuard | .lenGuard | .dirGuard => true
  | _ => false

inductive Bracket | bracketed | delegates | preLockProbe | pure | unlocked
deriving DecidableEq, Repr

/-- classification of one method's top-level statements -/
def classify (kinds : List StmtKind) : Bracket :=
  match kinds.dropWhile localKind with
  | .lock :: .deferUnlock :: rest => if rest.contains .lock then .unlocked else .bracketed
  | [.ret] => .pure
  | .delegate :: _ => .delegates
  | rest => if rest.contains .lock || rest.contains .delegate then .preLockProbe else .unlocked

def exported (m : MethodShape) : Bool :=
  match m.name with
  | c :: _ => 65 ≤ c && c ≤ 90
  | [] => false

/-- (c) The bracket table of pkg/fs as it is on this run: every exported method of *STFS and
    *File takes the lock before anything but local guards and releases it by `defer` —
    except the ones listed here with what they do instead: `Name` is pure; `Open`, `ReadAt` and
    `Readdirnames` delegate to bracketed methods (`ReadAt` is `Seek` followed by `Read`, two
    critical sections, not one); `Create` and `SymlinkIfPossible` probe the index *before*
    taking the lock. -/
theorem bracket_table :
    (methodShapes.filter exported).map (fun m => (m.isFile, m.name, classify m.kinds)) =
    [ (false, (n!"Name"), .pure), (false, (n!"Create"), .preLockProbe), (false, (n!"Initialize"), .bracketed),
      (false, (n!"Mkdir"), .bracketed), (false, (n!"MkdirAll"), .bracketed), (false, (n!"Open"), .delegates),
      (false, (n!"OpenFile"), .bracketed), (false, (n!"Remove"), .bracketed), (false, (n!"RemoveAll"), .bracketed),
      (false, (n!"Rename"), .bracketed), (false, (n!"Stat"), .bracketed), (false, (n!"Chmod"), .bracketed),
      (false, (n!"Chown"), .bracketed), (false, (n!"Chtimes"), .bracketed), (false, (n!"LstatIfPossible"), .bracketed),
      (false, (n!"SymlinkIfPossible"), .preLockProbe), (false, (n!"ReadlinkIfPossible"), .bracketed),
      (true, (n!"Name"), .bracketed), (true, (n!"Stat"), .bracketed), (true, (n!"Readdir"), .bracketed),
      (true, (n!"Readdirnames"), .delegates), (true, (n!"Read"), .bracketed), (true, (n!"ReadAt"), .delegates),
      (true, (n!"Seek"), .bracketed), (true, (n!"Write"), .bracketed), (true, (n!"WriteAt"), .bracketed),
      (true, (n!"WriteString"), .bracketed), (true, (n!"Truncate"), .bracketed), (true, (n!"Sync"), .bracketed),
      (true, (n!"Close"), .bracketed) ] := by decide

/-- the helpers that run without taking the lock are all unexported (callable only from
    inside a bracket) -/
theorem unlocked_helpers_are_private :
    (methodShapes.filter (fun m => !exported m)).all (fun m => classify m.kinds != .bracketed) = true := by decide

/-- below the filesystem lock: every operation of pkg/operations that touches the drive takes
    the operations' own lock first and releases it by `defer` (the skeleton's first two events, after a rejection of trivial arguments that touches nothing) -/
theorem operations_take_their_lock :
    ([(n!"Operations.Archive"), (n!"Operations.Update"), (n!"Operations.Delete"), (n!"Operations.Move"), (n!"Operations.Restore")].all
      (fun nm => match (lockSkeletons.find? (·.1 == nm)).map (fun x => x.2.dropWhile (fun e => match e with | LEv.exit _ _ => true | _ => false)) with
        | some (LEv.lock l :: LEv.deferUnlock l' :: _) => l == (n!"diskOperationLock") && l' == l
        | _ => false)) = true := by decide

/-- the index store is opened with a single connection in every build variant, so statements
    issued outside the filesystem lock (the pre-lock probes above, the streaming goroutine) are
    serialised by the connection pool instead of failing with "database is locked" -/
theorem single_sqlite_connection :
    sqliteMaxOpenConns.length = 2 ∧ sqliteMaxOpenConns.all (fun x => x.2 == 1) = true := by decide

/-- non-vacuity of (b): two threads, two calls, a concrete reachable state with both completed -/
example : ∃ s, Reach (stfsImpl {}) ({}, none) s ∧ s.lin.length = 1 := by
  let op : Env × Call := ({}, .stat (n!"/"))
  refine ⟨_, Reach.step (Reach.step (Reach.step (Reach.step Reach.init
    (Step.inv _ 0 op rfl)) (Step.acq _ 0 op 0 rfl rfl)) (Step.micro _ 0 op 0 _ [] rfl rfl)) (Step.rel _ 0 op 0 rfl rfl), rfl⟩

end Stfs.C11
