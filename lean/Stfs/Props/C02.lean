/-
  C02 — Single-caller behaviour matches a reference hierarchical filesystem.

  The reference is `Stfs/Spec/RefFs.lean` (a finite map from absolute clean paths to
  directories, files and symlinks).  The property is false of the code in many regions (findings
  F01–F16: rename onto existing entries, parents that are files, multi-level MkdirAll, O_EXCL,
  O_TRUNC, wildcard names, …); each region is delimited by a decidable trigger (`Model/Trig.lean`)
  and has a witness.  What is proved here for all states and arguments is the "a failed call
  changes nothing" half for every method with a precondition, and the agreement of the
  precondition decision with the reference for `Mkdir`.  The simulation itself (result class
  and visible tree equal to the reference after every call, outside the trigger regions) is
  decided by the oracle: the real code against the Lean `RefFs` driven through the driver.
-/
import Stfs.Props.C05
import Stfs.Spec.RefFs
import Stfs.Proofs.RefFs
import Stfs.Gen.Fingerprints
namespace Stfs.C02
open Stfs

/-- (1) A failed call changes nothing: when the precondition part of `Mkdir`, `Remove`,
    `Rename`, `Chmod`, `Chown`, `Chtimes` or `Symlink` fails, the call returns that error and tape,
    table and drive state are exactly what they were. -/
theorem failed_call_changes_nothing (f : FsCfg) (env : Env) (w : World) :
    (∀ n p w' e, mkdirGuard f n w = (w', .error e) → mkdir f env n p w = (w', .error e) ∧ C05.SameData w w') ∧
    (∀ n w' e, removeGuard f n w = (w', .error e) → removeNoLock f env n w = (w', .error e) ∧ C05.SameData w w') ∧
    (∀ a b w' e, renameGuard f a b w = (w', .error e) → rename f env a b w = (w', .error e) ∧ C05.SameData w w') ∧
    (∀ n m w' e, attrGuard f n w = (w', .error e) → chmod f env n m w = (w', .error e) ∧ C05.SameData w w') ∧
    (∀ n u g w' e, attrGuard f n w = (w', .error e) → chown f env n u g w = (w', .error e) ∧ C05.SameData w w') ∧
    (∀ n a m w' e, attrGuard f n w = (w', .error e) → chtimes f env n a m w = (w', .error e) ∧ C05.SameData w w') ∧
    (∀ a b w' e, symlinkGuard f a b w = (w', .error e) → symlink f env a b w = (w', .error e) ∧ C05.SameData w w') :=
  C05.failed_precondition_appends_nothing f env w

/-- (2) The reference refuses what it should: in `RefFs`, `mkdir` fails exactly when the parent
    is not a directory or the name is taken, and changes nothing then. -/
theorem ref_mkdir_fails_iff (s : RefFs.State) (p : Name) (perm uid gid now : Int) :
    (RefFs.mkdir s p perm uid gid now).2 ≠ .ok ↔
      (RefFs.parentOk s (RefFs.norm p) = false ∨ (s.get (RefFs.norm p)).isSome = true) := by
  unfold RefFs.mkdir
  simp only
  by_cases h1 : RefFs.parentOk s (RefFs.norm p) = true
  · by_cases h2 : (s.get (RefFs.norm p)).isSome = true
    · simp [h1, h2]
    · simp [h1, h2]
  · simp [h1]

theorem ref_failed_mkdir_changes_nothing (s : RefFs.State) (p : Name) (perm uid gid now : Int)
    (h : (RefFs.mkdir s p perm uid gid now).2 ≠ .ok) : (RefFs.mkdir s p perm uid gid now).1 = s := by
  unfold RefFs.mkdir at h ⊢
  simp only at h ⊢
  split
  · rfl
  · split
    · rfl
    · rename_i h1 h2; simp [h1, h2] at h

/-- (2b) The reference itself obeys the property's last sentence for every call with a failure
    result: `mkdir`, `remove`, `rename`, the attribute updates (`chmod`/`chown`/`chtimes` are
    `updAttr`), `symlink` and the create-or-open decision of `openFile` return the state they were
    given whenever the result is not `ok`.  (`mkdirAll` is deliberately not in the list: like
    `RefFs.mkdir -p` it keeps the ancestors it created before it met a file.) -/
theorem ref_failed_call_changes_nothing (s : RefFs.State) :
    (∀ p perm uid gid now, (RefFs.mkdir s p perm uid gid now).2 ≠ .ok → (RefFs.mkdir s p perm uid gid now).1 = s) ∧
    (∀ p, (RefFs.remove s p).2 ≠ .ok → (RefFs.remove s p).1 = s) ∧
    (∀ a b, (RefFs.rename s a b).2 ≠ .ok → (RefFs.rename s a b).1 = s) ∧
    (∀ p f, (RefFs.updAttr s p f).2 ≠ .ok → (RefFs.updAttr s p f).1 = s) ∧
    (∀ t l, (RefFs.symlink s t l).2 ≠ .ok → (RefFs.symlink s t l).1 = s) ∧
    (∀ p c e w perm uid gid now, (RefFs.openFile s p c e w perm uid gid now).2.1 ≠ .ok →
        (RefFs.openFile s p c e w perm uid gid now).1 = s) := by
  refine ⟨?_, ?_, ?_, ?_, ?_, ?_⟩
  · intro p perm uid gid now
    generalize hr : RefFs.mkdir s p perm uid gid now = r
    intro h; unfold RefFs.mkdir at hr; simp only at hr
    repeat' split at hr
    all_goals (subst hr; first | rfl | (simp at h))
  · intro p
    generalize hr : RefFs.remove s p = r
    intro h; unfold RefFs.remove at hr; simp only at hr
    repeat' split at hr
    all_goals (subst hr; first | rfl | (simp at h))
  · intro a b
    generalize hr : RefFs.rename s a b = r
    intro h; unfold RefFs.rename at hr; simp only at hr
    repeat' split at hr
    all_goals (subst hr; first | rfl | (simp at h))
  · intro p f
    generalize hr : RefFs.updAttr s p f = r
    intro h; unfold RefFs.updAttr at hr; simp only at hr
    repeat' split at hr
    all_goals (subst hr; first | rfl | (simp at h))
  · intro t l
    generalize hr : RefFs.symlink s t l = r
    intro h; unfold RefFs.symlink at hr; simp only at hr
    repeat' split at hr
    all_goals (subst hr; first | rfl | (simp at h))
  · intro p c e w perm uid gid now
    generalize hr : RefFs.openFile s p c e w perm uid gid now = r
    intro h; unfold RefFs.openFile at hr; simp only at hr
    repeat' split at hr
    all_goals (subst hr; first | rfl | (simp at h))

/-- (2c) "A successful call changes exactly the entries the reference changes", made precise on
    the reference: after a successful `mkdir`, `remove` or `symlink` every path `q` maps to what it
    mapped to before, except the one named path, which maps to exactly the new node (or nothing);
    attribute updates, the create decision of `openFile` and a handle's RefFs.flush leave every path
    other than the (resolved) named one untouched. -/
theorem ref_successful_call_changes_exactly (s : RefFs.State) (q : Name) :
    (∀ p perm uid gid now, (RefFs.mkdir s p perm uid gid now).2 = .ok →
      (RefFs.mkdir s p perm uid gid now).1.get q =
        if q = RefFs.norm p then some (.dir { perm := perm % 512, uid := uid, gid := gid, mtime := now }) else s.get q) ∧
    (∀ p, (RefFs.remove s p).2 = .ok → (RefFs.remove s p).1.get q = if q = RefFs.norm p then none else s.get q) ∧
    (∀ t l, (RefFs.symlink s t l).2 = .ok →
      (RefFs.symlink s t l).1.get q = if q = RefFs.norm l then some (.symlink (RefFs.norm t)) else s.get q) ∧
    (∀ p f, (RefFs.updAttr s p f).2 = .ok → q ≠ s.resolve (RefFs.norm p) → (RefFs.updAttr s p f).1.get q = s.get q) ∧
    (∀ p c e w perm uid gid now, (RefFs.openFile s p c e w perm uid gid now).2.1 = .ok →
      q ≠ s.resolve (RefFs.norm p) → (RefFs.openFile s p c e w perm uid gid now).1.get q = s.get q) ∧
    (∀ p d, q ≠ p → (RefFs.flush s p d).get q = s.get q) := by
  refine ⟨?_, ?_, ?_, ?_, ?_, ?_⟩
  · intro p perm uid gid now
    generalize hr : RefFs.mkdir s p perm uid gid now = r
    intro h; unfold RefFs.mkdir at hr; simp only at hr
    repeat' split at hr
    all_goals (subst hr; first | (simp at h; done) | simp only [RefFs.get_set])
  · intro p
    generalize hr : RefFs.remove s p = r
    intro h; unfold RefFs.remove at hr; simp only at hr
    repeat' split at hr
    all_goals (subst hr; first | (simp at h; done) | simp only [RefFs.get_erase])
  · intro t l
    generalize hr : RefFs.symlink s t l = r
    intro h; unfold RefFs.symlink at hr; simp only at hr
    repeat' split at hr
    all_goals (subst hr; first | (simp at h; done) | simp only [RefFs.get_set])
  · intro p f
    generalize hr : RefFs.updAttr s p f = r
    intro h hq; unfold RefFs.updAttr at hr; simp only at hr
    repeat' split at hr
    all_goals (subst hr; first | (simp at h; done) | simp only [RefFs.get_set, if_neg hq])
  · intro p c e w perm uid gid now
    generalize hr : RefFs.openFile s p c e w perm uid gid now = r
    intro h hq; unfold RefFs.openFile at hr; simp only at hr
    repeat' split at hr
    all_goals (subst hr; first | (simp at h; done) | rfl | simp only [RefFs.get_set, if_neg hq])
  · intro p d hq
    unfold RefFs.flush
    split
    · simp only [RefFs.get_set, if_neg hq]
    · rfl

/-- the premises are satisfiable: a concrete successful and a concrete failed reference call -/
example :
    let s := RefFs.initFs {} 511 0 0 1
    (RefFs.mkdir s (n!"/a") 493 0 0 2).2 = .ok ∧ (RefFs.mkdir s (n!"/a/b") 493 0 0 2).2 = .notExist ∧
    (RefFs.remove s (n!"/")).2 = .invalid := by decide

def env1 (now : Int) : Env := { now := now, recs := [(3, 0)] }

/-- (3) F06 witness: `Rename` onto an existing file of the same kind removes the target and does
    not move the source; the call returns success. -/
theorem F06_witness :
    let s := ({} : Sys).runAll {} [(env1 1, .init (n!"/") 511), (env1 2, .create 1 (n!"/p")), (env1 3, .hclose 1),
      (env1 4, .create 2 (n!"/q")), (env1 5, .hclose 2), (env1 6, .rename (n!"/p") (n!"/q"))]
    (s.w.idx.rows.filter (·.live)).map (·.name) = [(n!"/"), (n!"/p")] := by
  decide

/-- (4) F09 witness: `O_CREATE|O_EXCL` on a missing name returns not-exist. -/
theorem F09_witness :
    let s := ({} : Sys).runAll {} [(env1 1, .init (n!"/") 511)]
    (match (s.step {} (env1 2) (.openFile 1 (n!"/new") (O_RDWR + O_CREATE + O_EXCL) 420)).2 with
     | .error .notExist => true | _ => false) = true := by
  decide

-- MIRRORS-BEGIN (maintained by bin/update-mirrors)
/-- The parts of the model this file's theorems are about were written by hand against these
    versions of the functions they mirror (fingerprint of each function's comment-free source,
    regenerated on every run).  When one of them changes, this obligation fails: the change has
    to be confirmed harmless by the correspondence, or shows up as its failing input. -/
theorem model_mirrors_source :
    [(n!"fs.STFS.Mkdir"), (n!"fs.STFS.MkdirAll"), (n!"fs.STFS.Remove"), (n!"fs.STFS.RemoveAll"), (n!"fs.STFS.Rename"), (n!"fs.STFS.OpenFile"), (n!"fs.STFS.Create"), (n!"fs.STFS.Chmod"), (n!"fs.STFS.Chown"), (n!"fs.STFS.Chtimes"), (n!"fs.STFS.SymlinkIfPossible"), (n!"fs.STFS.mknodeWithoutLocking"), (n!"fs.STFS.removeWithoutLocking"), (n!"fs.STFS.updateMetadata"), (n!"inventory.Stat")].map Gen.fingerprintOf =
    [some 823642119686928358, some 1568040599885539347, some 173944456288931333, some 637712002952537686, some 615787276878741348, some 783957390101727887, some 1326896719285586932, some 2114429229993821925, some 262292304263637420, some 230397048809253692, some 2108145255034646484, some 2302725456323025275, some 2041027050399353272, some 1465021600573265517, some 804149311388915219] := by decide
-- MIRRORS-END

end Stfs.C02
