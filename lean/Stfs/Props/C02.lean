/-
  C02 — Single-caller behaviour matches a reference hierarchical filesystem.

  The reference is `Stfs/Spec/RefFs.lean` (a finite map from absolute clean paths to
  directories, files and symlinks).  The property is false of the code in many regions (findings
  F01–F16: rename onto existing entries, parents that are files, multi-level MkdirAll, O_EXCL,
  O_TRUNC, wildcard names, …); each region is delimited by a decidable trigger (`Model/Trig.lean`)
  and has a witness.  What is proved here for all states and arguments is the "a failed call
  changes nothing" half for every method with a precondition, and the agreement of the
  precondition decision with the reference for `Mkdir`.  The simulation itself (result class
  and visible tree equal to the reference after every call, outside the trigger regions) is
  decided by the oracle: the real code against the Lean `RefFs` driven through the driver.
-/
import Stfs.Props.C05
import Stfs.Spec.RefFs
import Stfs.Gen.Fingerprints
namespace Stfs.C02
open Stfs

/-- (1) A failed call changes nothing: when the precondition part of `Mkdir`, `Remove`,
    `Rename`, `Chmod`, `Chown`, `Chtimes` or `Symlink` fails, the call returns that error and tape,
    table and drive state are exactly what they were. -/
theorem failed_call_changes_nothing (f : FsCfg) (env : Env) (w : World) :
    (∀ n p w' e, mkdirGuard f n w = (w', .error e) → mkdir f env n p w = (w', .error e) ∧ C05.SameData w w') ∧
    (∀ n w' e, removeGuard f n w = (w', .error e) → removeNoLock f env n w = (w', .error e) ∧ C05.SameData w w') ∧
    (∀ a b w' e, renameGuard f a b w = (w', .error e) → rename f env a b w = (w', .error e) ∧ C05.SameData w w') ∧
    (∀ n m w' e, attrGuard f n w = (w', .error e) → chmod f env n m w = (w', .error e) ∧ C05.SameData w w') ∧
    (∀ n u g w' e, attrGuard f n w = (w', .error e) → chown f env n u g w = (w', .error e) ∧ C05.SameData w w') ∧
    (∀ n a m w' e, attrGuard f n w = (w', .error e) → chtimes f env n a m w = (w', .error e) ∧ C05.SameData w w') ∧
    (∀ a b w' e, symlinkGuard f a b w = (w', .error e) → symlink f env a b w = (w', .error e) ∧ C05.SameData w w') :=
  C05.failed_precondition_appends_nothing f env w

/-- (2) The reference refuses what it should: in `RefFs`, `mkdir` fails exactly when the parent
    is not a directory or the name is taken, and changes nothing then. -/
theorem ref_mkdir_fails_iff (s : RefFs.State) (p : Name) (perm uid gid now : Int) :
    (RefFs.mkdir s p perm uid gid now).2 ≠ .ok ↔
      (RefFs.parentOk s (RefFs.norm p) = false ∨ (s.get (RefFs.norm p)).isSome = true) := by
  unfold RefFs.mkdir
  simp only
  by_cases h1 : RefFs.parentOk s (RefFs.norm p) = true
  · by_cases h2 : (s.get (RefFs.norm p)).isSome = true
    · simp [h1, h2]
    · simp [h1, h2]
  · simp [h1]

theorem ref_failed_mkdir_changes_nothing (s : RefFs.State) (p : Name) (perm uid gid now : Int)
    (h : (RefFs.mkdir s p perm uid gid now).2 ≠ .ok) : (RefFs.mkdir s p perm uid gid now).1 = s := by
  unfold RefFs.mkdir at h ⊢
  simp only at h ⊢
  split
  · rfl
  · split
    · rfl
    · rename_i h1 h2; simp [h1, h2] at h

def env1 (now : Int) : Env := { now := now, recs := [(3, 0)] }

/-- (3) F06 witness: `Rename` onto an existing file of the same kind removes the target and does
    not move the source; the call returns success. -/
theorem F06_witness :
    let s := ({} : Sys).runAll {} [(env1 1, .init (n!"/") 511), (env1 2, .create 1 (n!"/p")), (env1 3, .hclose 1),
      (env1 4, .create 2 (n!"/q")), (env1 5, .hclose 2), (env1 6, .rename (n!"/p") (n!"/q"))]
    (s.w.idx.rows.filter (·.live)).map (·.name) = [(n!"/"), (n!"/p")] := by
  decide

/-- (4) F09 witness: `O_CREATE|O_EXCL` on a missing name returns not-exist. -/
theorem F09_witness :
    let s := ({} : Sys).runAll {} [(env1 1, .init (n!"/") 511)]
    (match (s.step {} (env1 2) (.openFile 1 (n!"/new") (O_RDWR + O_CREATE + O_EXCL) 420)).2 with
     | .error .notExist => true | _ => false) = true := by
  decide

-- MIRRORS-BEGIN (maintained by bin/update-mirrors)
/-- The parts of the model this file's theorems are about were written by hand against these
    versions of the functions they mirror (fingerprint of each function's comment-free source,
    regenerated on every run).  When one of them changes, this obligation fails: the change has
    to be confirmed harmless by the correspondence, or shows up as its failing input. -/
theorem model_mirrors_source :
    [(n!"fs.STFS.Mkdir"), (n!"fs.STFS.MkdirAll"), (n!"fs.STFS.Remove"), (n!"fs.STFS.RemoveAll"), (n!"fs.STFS.Rename"), (n!"fs.STFS.OpenFile"), (n!"fs.STFS.Create"), (n!"fs.STFS.Chmod"), (n!"fs.STFS.Chown"), (n!"fs.STFS.Chtimes"), (n!"fs.STFS.SymlinkIfPossible"), (n!"fs.STFS.mknodeWithoutLocking"), (n!"fs.STFS.removeWithoutLocking"), (n!"fs.STFS.updateMetadata"), (n!"inventory.Stat")].map Gen.fingerprintOf =
    [some 823642119686928358, some 1568040599885539347, some 173944456288931333, some 637712002952537686, some 615787276878741348, some 783957390101727887, some 1326896719285586932, some 2114429229993821925, some 262292304263637420, some 230397048809253692, some 2108145255034646484, some 2302725456323025275, some 2041027050399353272, some 1465021600573265517, some 804149311388915219] := by decide
-- MIRRORS-END

end Stfs.C02
