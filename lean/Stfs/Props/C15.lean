/-
  C15 — A read-only filesystem never changes the tape or the index.
-/
import Stfs.Proofs.ReadOnly
import Stfs.Gen.Guards
namespace Stfs.C15
open Stfs Gen

/-- every handle was obtained read-only and has no write cache -/
def HandlesRO (s : Sys) : Prop := ∀ x ∈ s.handles, HRO x.2

/-- the read-only invariant relative to the data `w0` the instance was opened over -/
def ROInv (w0 : World) (s : Sys) : Prop := SameAs w0 s.w ∧ HandlesRO s

def isMutating : Call → Bool
  | .mkdir .. | .mkdirAll .. | .remove .. | .removeAll .. | .rename .. | .chmod .. | .chown .. | .chtimes ..
  | .symlink .. | .create .. => true
  | _ => false

def isInit : Call → Bool
  | .init .. => true
  | _ => false

theorem run_fail (s : Sys) {α} (e : Err) (v : α → Val) : s.run (M.fail e : M α) v = (s, .error e) := by
  unfold Sys.run; rfl

theorem handlesRO_set (s : Sys) (w : World) (id : Nat) (h : Handle) (hs : HandlesRO s)
    (hh : h.wbuf = none ∧ h.flags.write = false) : HandlesRO (({ s with w := w } : Sys).setHandle id h) := by
  intro x hx
  simp only [Sys.setHandle, List.mem_cons] at hx
  rcases hx with hx | hx
  · subst hx; exact hh
  · exact hs x ((List.mem_filter.mp hx).1)

theorem getHandle_mem (s : Sys) (id : Nat) (h : Handle) (hg : s.getHandle id = some h) : (id, h) ∈ s.handles ∨ ∃ i, (i, h) ∈ s.handles := by
  unfold Sys.getHandle at hg
  cases hf : s.handles.find? (·.1 == id) with
  | none => simp [hf] at hg
  | some x =>
    simp [hf] at hg
    right; exact ⟨x.1, by have := List.mem_of_find?_eq_some hf; rw [← hg]; exact this⟩

/-- (1) Every mutating filesystem method fails with a permission error on a read-only
    instance, whatever the state and the arguments, and leaves the instance exactly as it was. -/
theorem mutating_calls_denied0 (f : FsCfg) (hro : f.readOnly = true) (s : Sys) (env : Env) (c : Call)
    (hc : isMutating c = true) : s.step0 f env c = (s, .error .permission) := by
  cases c <;> simp [isMutating] at hc <;> simp only [Sys.step0]
  case mkdir n p => rw [mkdir_denied hro]; exact run_fail _ _ _
  case mkdirAll n p => rw [mkdirAll_denied hro]; exact run_fail _ _ _
  case remove n => rw [remove_denied hro]; exact run_fail _ _ _
  case removeAll n => rw [removeAll_denied hro]; exact run_fail _ _ _
  case rename a b => rw [rename_denied hro]; exact run_fail _ _ _
  case chmod n m => rw [chmod_denied hro]; exact run_fail _ _ _
  case chown n u g => rw [chown_denied hro]; exact run_fail _ _ _
  case chtimes n a m => rw [chtimes_denied hro]; exact run_fail _ _ _
  case symlink a b => rw [symlink_denied hro]; exact run_fail _ _ _
  case create id n => rw [create_denied hro]; rfl

/-- (1) Every mutating filesystem method fails with a permission error on a read-only
    instance, whatever the state and the arguments, and leaves the instance exactly as it was. -/
theorem mutating_calls_denied (f : FsCfg) (hro : f.readOnly = true) (s : Sys) (env : Env) (c : Call)
    (hc : isMutating c = true) : s.step f env c = (s, .error .permission) := by
  unfold Sys.step
  split
  · rename_i hb
    rw [mutating_calls_denied0 f hro _ env c hc]
    simp only
    have hst : s.w.stuck = false := by
      simp only [Bool.and_eq_true, Bool.not_eq_true'] at hb; exact hb.2
    cases s with
    | mk w hs =>
      cases w with
      | mk t i st => simp only at hst; subst hst; rfl
  · exact mutating_calls_denied0 f hro s env c hc

/-- (2) For any call other than `Initialize` (which may build a missing index), in any state a
    read-only instance can be in: tape, table (tombstones included) and drive state are
    unchanged, and handles stay read-only. -/
theorem readonly_step0 (f : FsCfg) (hro : f.readOnly = true) (w0 : World) (s : Sys) (env : Env) (c : Call)
    (hinv : ROInv w0 s) (hc : isInit c = false) : ROInv w0 (s.step0 f env c).1 := by
  obtain ⟨hw, hh⟩ := hinv
  have hst := sameAs_stable w0
  have hm : ∀ a b c d e g, Pres (SameAs w0) (mknod f env a b c d e g) := by
    intro a b c d e g; rw [mknod_denied hro]; exact Pres.fail _
  by_cases hmut : isMutating c = true
  · rw [mutating_calls_denied0 f hro s env c hmut]; exact ⟨hw, hh⟩
  · cases c <;> simp [isMutating] at hmut <;> simp [isInit] at hc <;> simp only [Sys.step0]
    case stat n => exact ⟨by rw [Sys.run_w]; exact (statOrLink_ro hst _).run _ hw, by unfold Sys.run; split <;> exact hh⟩
    case lstat n => exact ⟨by rw [Sys.run_w]; exact (lstat_ro hst _).run _ hw, by unfold Sys.run; split <;> exact hh⟩
    case readlink n => exact ⟨by rw [Sys.run_w]; exact (readlink_ro hst _).run _ hw, by unfold Sys.run; split <;> exact hh⟩
    case cat n =>
      exact ⟨by rw [Sys.run_w]; exact (cat_pres' hst (fun w h => h) env hm n).run _ hw, by unfold Sys.run; split <;> exact hh⟩
    case openFile id n flag perm =>
      have hp := (openFile_pres' hst env hm n flag perm).run _ hw
      have hf := (openFile_flags f env n flag perm).run s.w
      split
      · rename_i w' o heq
        rw [heq] at hp
        have hfl := hf w' o heq
        refine ⟨hp, handlesRO_set s w' id _ hh ⟨rfl, ?_⟩⟩
        show (Handle.ofOpened o).flags.write = false
        simp only [Handle.ofOpened]; rw [hfl]; exact openFlags_ro f hro flag
      · rename_i w' e heq
        rw [heq] at hp; exact ⟨hp, hh⟩
    case open_ id n =>
      have hp := (openFile_pres' hst env hm (clean n) 0 0).run _ hw
      have hf := (openFile_flags f env (clean n) 0 0).run s.w
      show ROInv w0 (match fsOpen f env n s.w with
        | (w, .ok o) => (({ s with w := w } : Sys).setHandle id (Handle.ofOpened o), (.ok .unit : Except Err Val))
        | (w, .error e) => ({ s with w := w }, .error e)).1
      unfold fsOpen
      split
      · rename_i w' o heq
        rw [heq] at hp
        have hfl := hf w' o heq
        refine ⟨hp, handlesRO_set s w' id _ hh ⟨rfl, ?_⟩⟩
        show (Handle.ofOpened o).flags.write = false
        simp only [Handle.ofOpened]; rw [hfl]; exact openFlags_ro f hro 0
      · rename_i w' e heq
        rw [heq] at hp; exact ⟨hp, hh⟩
    case hwrite id data =>
      split
      · exact ⟨hw, hh⟩
      · rename_i h hg
        have hmem : h.wbuf = none ∧ h.flags.write = false := by
          rcases getHandle_mem s id h hg with hm' | ⟨i, hm'⟩
          · exact hh _ hm'
          · exact hh _ hm'
        have : hWrite f h data s.w = (s.w, .error (if h.info.isDir then .isDirectory else .permission)) := by
          unfold hWrite
          by_cases hd : h.info.isDir = true
          · simp [hd]; rfl
          · simp [hd, hmem.2]; rfl
        rw [this]; exact ⟨hw, hh⟩
    case hwriteString id data =>
      split
      · exact ⟨hw, hh⟩
      · rename_i h hg
        have hmem : h.wbuf = none ∧ h.flags.write = false := by
          rcases getHandle_mem s id h hg with hm' | ⟨i, hm'⟩
          · exact hh _ hm'
          · exact hh _ hm'
        have : hWrite f h data s.w = (s.w, .error (if h.info.isDir then .isDirectory else .permission)) := by
          unfold hWrite
          by_cases hd : h.info.isDir = true
          · simp [hd]; rfl
          · simp [hd, hmem.2]; rfl
        rw [this]; exact ⟨hw, hh⟩
    case hread id n =>
      split
      · exact ⟨hw, hh⟩
      · rename_i h hg
        have hmem : HRO h := by
          rcases getHandle_mem s id h hg with hm' | ⟨i, hm'⟩
          · exact hh _ hm'
          · exact hh _ hm'
        have hp := (hRead_ro hst (fun w h => h) f h n).run _ hw
        have hq := (hRead_hro f h n hmem).run s.w
        split
        · rename_i w' h' b eof heq
          rw [heq] at hp
          exact ⟨hp, handlesRO_set s w' id _ hh (hq w' _ heq)⟩
        · rename_i w' e heq
          rw [heq] at hp; exact ⟨hp, hh⟩
    case hreadAt id n off =>
      split
      · exact ⟨hw, hh⟩
      · rename_i h hg
        have hmem : HRO h := by
          rcases getHandle_mem s id h hg with hm' | ⟨i, hm'⟩
          · exact hh _ hm'
          · exact hh _ hm'
        have hp := (hReadAt_ro hst (fun w h => h) f h n off).run _ hw
        have hq := (hReadAt_hro f h n off hmem).run s.w
        split
        · rename_i w' h' b eof heq
          rw [heq] at hp
          exact ⟨hp, handlesRO_set s w' id _ hh (hq w' _ heq)⟩
        · rename_i w' e heq
          rw [heq] at hp; exact ⟨hp, hh⟩
    case hseek id off wh =>
      split
      · exact ⟨hw, hh⟩
      · rename_i h hg
        have hmem : HRO h := by
          rcases getHandle_mem s id h hg with hm' | ⟨i, hm'⟩
          · exact hh _ hm'
          · exact hh _ hm'
        have hp := (hSeekNoLock_ro hst (fun w h => h) f h off wh).run _ hw
        have hq := (hSeekNoLock_hro f h off wh hmem).run s.w
        split
        · rename_i w' h' r heq
          rw [heq] at hp
          exact ⟨hp, handlesRO_set s w' id _ hh (hq w' _ heq)⟩
        · rename_i w' e heq
          rw [heq] at hp; exact ⟨hp, hh⟩
    case hwriteAt id data off =>
      split
      · exact ⟨hw, hh⟩
      · rename_i h hg
        have hmem : h.wbuf = none ∧ h.flags.write = false := by
          rcases getHandle_mem s id h hg with hm' | ⟨i, hm'⟩
          · exact hh _ hm'
          · exact hh _ hm'
        have : writeGuard h = some (if h.info.isDir then .isDirectory else .permission) := by
          unfold writeGuard
          by_cases hd : h.info.isDir = true
          · simp [hd]
          · simp [hd, hmem.2]
        rw [this]; exact ⟨hw, hh⟩
    case htruncate id sz =>
      split
      · exact ⟨hw, hh⟩
      · rename_i h hg
        have hmem : h.wbuf = none ∧ h.flags.write = false := by
          rcases getHandle_mem s id h hg with hm' | ⟨i, hm'⟩
          · exact hh _ hm'
          · exact hh _ hm'
        have : writeGuard h = some (if h.info.isDir then .isDirectory else .permission) := by
          unfold writeGuard
          by_cases hd : h.info.isDir = true
          · simp [hd]
          · simp [hd, hmem.2]
        rw [this]; exact ⟨hw, hh⟩
    case hstat id =>
      split
      · exact ⟨hw, hh⟩
      · rename_i h hg
        have hmem : HRO h := by
          rcases getHandle_mem s id h hg with hm' | ⟨i, hm'⟩
          · exact hh _ hm'
          · exact hh _ hm'
        have hp := (hStat_pres (I := SameAs w0) h).run _ hw
        have hq := (hStat_hro h hmem).run s.w
        split
        · rename_i w' h' i heq
          rw [heq] at hp
          exact ⟨hp, handlesRO_set s w' id _ hh (hq w' _ heq)⟩
        · rename_i w' e heq
          rw [heq] at hp; exact ⟨hp, hh⟩
    case hname id =>
      split <;> exact ⟨hw, hh⟩
    case hsync id =>
      split
      · exact ⟨hw, hh⟩
      · rename_i h hg
        have hmem : h.wbuf = none ∧ h.flags.write = false := by
          rcases getHandle_mem s id h hg with hm' | ⟨i, hm'⟩
          · exact hh _ hm'
          · exact hh _ hm'
        have : hSyncNoLock f env h s.w = (s.w, if h.info.isDir then .error .isDirectory else .ok h) := by
          unfold hSyncNoLock
          by_cases hd : h.info.isDir = true
          · simp [hd]; rfl
          · simp [hd, hmem.1]; rfl
        rw [this]
        split
        · rename_i w' h' heq
          injection heq with h1 h2; subst h1
          refine ⟨hw, handlesRO_set s s.w id _ hh ?_⟩
          split at h2
          · cases h2
          · injection h2 with h2; subst h2; exact hmem
        · rename_i w' e heq
          injection heq with h1 _; subst h1; exact ⟨hw, hh⟩
    case hclose id =>
      split
      · exact ⟨hw, hh⟩
      · rename_i h hg
        have hmem : h.wbuf = none ∧ h.flags.write = false := by
          rcases getHandle_mem s id h hg with hm' | ⟨i, hm'⟩
          · exact hh _ hm'
          · exact hh _ hm'
        have : hClose f env h s.w = (s.w, .ok { h with reader := none }) := by
          unfold hClose hCloseCore; simp [hmem.1]; rfl
        rw [this]
        refine ⟨hw, ?_⟩
        intro x hx
        exact hh x ((List.mem_filter.mp hx).1)
    case hreaddir id n =>
      split
      · exact ⟨hw, hh⟩
      · rename_i h hg
        exact ⟨by rw [Sys.run_w]; exact (hReaddir_ro hst h n).run _ hw, by unfold Sys.run; split <;> exact hh⟩

theorem readonly_step (f : FsCfg) (hro : f.readOnly = true) (w0 : World) (s : Sys) (env : Env) (c : Call)
    (hinv : ROInv w0 s) (hc : isInit c = false) : ROInv w0 (s.step f env c).1 := by
  unfold Sys.step
  split
  · have h1 : ROInv w0 { s with w := { s.w with stuck := true } } := ⟨hinv.1, hinv.2⟩
    have := readonly_step0 f hro w0 _ env c h1 hc
    generalize Sys.step0 f { s with w := { s.w with stuck := true } } env c = x at this
    rcases x with ⟨s', r⟩
    split
    · rename_i heq; injection heq with e1 _; subst e1; exact this
    · rename_i s2 r2 _ heq; injection heq with e1 _; subst e1; exact ⟨this.1, this.2⟩
  · exact readonly_step0 f hro w0 s env c hinv hc

/-- (3) `Initialize` on a read-only instance may rebuild a missing index but never touches the
    tape (and cannot fall back to creating a root). -/
theorem readonly_initialize_keeps_tape (f : FsCfg) (hro : f.readOnly = true) (s : Sys) (env : Env) (r : Name) (p : Int) :
    (s.step0 f env (.init r p)).1.w.tape = s.w.tape := by
  simp only [Sys.step0, Sys.run_w]
  unfold initFs
  rcases hg : s.w.idx.getRootPath with ⟨q, res⟩
  cases res with
  | ok root => rfl
  | error e =>
    cases e <;> try rfl
    simp only
    split
    · rfl
    · split
      · rw [mkdirRoot_denied hro]; rfl
      · rcases hrb : rebuildOp f { tape := s.w.tape, idx := q, stuck := s.w.stuck } with ⟨w2, e2⟩
        have ht : w2.tape = s.w.tape := by
          have := congrArg (fun x => x.1.tape) hrb
          simpa [rebuildOp] using this.symm
        cases e2 with
        | none => exact ht
        | some e => rw [mkdirRoot_denied hro]; exact ht

/-- (4) Histories: any history without `Initialize` on a read-only instance leaves tape, table
    and drive state as they were. -/
theorem readonly_history (f : FsCfg) (hro : f.readOnly = true) (w0 : World) (hist : List (Env × Call))
    (hnoinit : ∀ ec ∈ hist, isInit ec.2 = false) :
    ∀ s, ROInv w0 s → ROInv w0 (s.runAll f hist) := by
  induction hist with
  | nil => intro s h; exact h
  | cons ec rest ih =>
    intro s h
    rcases ec with ⟨env, c⟩
    simp only [Sys.runAll]
    exact ih (fun x hx => hnoinit x (by simp [hx])) _ (readonly_step f hro w0 s env c h (hnoinit (env, c) (by simp)))

def kindIdx (k : StmtKind) (ks : List StmtKind) : Nat := ks.findIdx (· == k)

/-- (5) What the Go source says *now* (table regenerated on every run): in every method of
    `*STFS` that calls `f.writeOps.*` directly, the `if f.readOnly { return ErrPermission }`
    guard comes before that call and before the lock; every exported mutating method of `*STFS`
    that goes through a helper starts with that guard too (except `Initialize` and `OpenFile`,
    whose only effect is `mknodeWithoutLocking`, which is itself guarded); and every method of
    `*File` that touches the write cache checks the write flag first. -/
theorem guards_precede_effects :
    (methodShapes.all (fun m => m.isFile || !m.kinds.contains .effectOps ||
        (kindIdx .roGuard m.kinds < kindIdx .effectOps m.kinds && kindIdx .roGuard m.kinds < kindIdx .lock m.kinds))) = true ∧
    (methodShapes.all (fun m => m.isFile || !m.kinds.contains .effectHelper ||
        m.name == [73, 110, 105, 116, 105, 97, 108, 105, 122, 101] /- Initialize -/ ||
        m.name == [79, 112, 101, 110, 70, 105, 108, 101] /- OpenFile -/ ||
        kindIdx .roGuard m.kinds < kindIdx .effectHelper m.kinds)) = true ∧
    (methodShapes.all (fun m => !m.isFile || !m.kinds.contains .effectBuf ||
        m.name == [101, 110, 116, 101, 114, 87, 114, 105, 116, 101, 77, 111, 100, 101] /- enterWriteMode -/ ||
        (kindIdx .writeFlagGuard m.kinds < kindIdx .effectBuf m.kinds && kindIdx .writeFlagGuard m.kinds < kindIdx .lock m.kinds))) = true := by
  decide

/-- non-vacuity: a read-only instance over a non-empty tape, and a mutating call on it -/
example :
    let fw : FsCfg := {}
    let s := ({} : Sys).runAll fw [({ now := 1, recs := [(3, 0)] }, .init [47] 511), ({ now := 2, recs := [(3, 0)] }, .mkdir [47, 97] 493)]
    let fr : FsCfg := { readOnly := true }
    s.w.idx.rows.length = 2 ∧ ((s.step fr {} (.remove [47, 97])).1.w.idx.rows.length = 2) := by
  decide

end Stfs.C15
