/-
  C14 — An open file behaves like a byte array with a cursor.

  Partial.  The reference is `Spec/ByteFile.lean`.  The code deviates from it in many places
  (finding F23: `Seek` in streaming mode returns the distance skipped and `SeekEnd` subtracts;
  growing `Truncate` zeroes the content and writes at the stale cursor; `O_APPEND` positions
  once; reads return EOF together with data; F12: a flush closes the cache; F22: a partial
  read keeps the drive) — witnesses below.  Proved: in write mode (a handle that has a write
  cache) reads, seeks with a non-negative target, writes, positioned writes and shrinking
  truncations are exactly the reference's; in streaming mode sequential reads return exactly
  the reference's bytes.
-/
import Stfs.Model.Sys
import Stfs.Spec.ByteFile
namespace Stfs.C14
open Stfs

/-- the write cache and the reference store bytes the same way -/
theorem cache_write_eq (buf : Bytes) (pos : Nat) (p : Bytes) : writeAt buf pos p = ByteFile.writeBytes buf pos p := by
  unfold writeAt ByteFile.writeBytes; rfl

/-- (1) Write mode, `Read`: for every cache content, cursor and count the bytes returned and the
    new cursor are the reference's; EOF is signalled exactly when nothing is left. -/
theorem read_in_write_mode (buf : Bytes) (cur n : Nat) :
    (cacheRead buf cur n).1 = (ByteFile.read { data := buf, pos := cur } n).2.2 ∧
    (cacheRead buf cur n).2.1 = (ByteFile.read { data := buf, pos := cur } n).1.pos ∧
    ((cacheRead buf cur n).2.2 = true ↔ cur ≥ buf.length) := by
  unfold cacheRead ByteFile.read
  by_cases h : cur ≥ buf.length
  · have : buf.drop cur = [] := List.drop_eq_nil_of_le h
    simp [h, this]
  · simp [h]

/-- (2) Write mode, `Seek`: for every whence and offset, the call is refused exactly when the
    reference refuses it, and otherwise the value returned and the new cursor are the reference's
    (the absolute offset; `SeekEnd` adds). -/
theorem seek_in_write_mode (buf : Bytes) (cur : Nat) (off whence : Int) :
    match cacheSeek buf cur off whence, ByteFile.seek { data := buf, pos := cur } off whence with
    | none, (_, r, _) => r = .invalid
    | some (c, a), (b', r, a') => r = .ok ∧ a = a' ∧ c = b'.pos := by
  unfold cacheSeek ByteFile.seek SEEK_SET SEEK_CUR SEEK_END
  by_cases h0 : whence = 0
  · subst h0; by_cases hn : off < 0 <;> simp [hn]
  · by_cases h1 : whence = 1
    · subst h1; by_cases hn : (cur : Int) + off < 0 <;> simp [hn]
    · by_cases h2 : whence = 2
      · subst h2; by_cases hn : (buf.length : Int) + off < 0 <;> simp [hn]
      · simp [h0, h1, h2]

/-- (3) Write mode, `Truncate` to a smaller or equal size: the content is the reference's and
    the cursor does not move. -/
theorem truncate_shrink (buf : Bytes) (cur : Nat) (size : Int) (h0 : 0 ≤ size) (hle : size ≤ buf.length) :
    cacheTruncate buf cur size =
      some ((ByteFile.truncate { data := buf, pos := cur, canWrite := true } size).1.data, cur) := by
  unfold cacheTruncate ByteFile.truncate
  have h1 : ¬ (size > (buf.length : Int)) := by omega
  have h2 : ¬ (size < 0) := by omega
  have h3 : size.toNat ≤ buf.length := by omega
  simp [h1, h2, h3]

/-- (4) Streaming mode, sequential `Read`: exactly the reference's bytes, the position advanced
    by their number. -/
theorem read_streaming (data : Bytes) (pos n : Nat) :
    (streamRead data pos n).1 = (ByteFile.read { data := data, pos := pos } n).2.2 ∧
    (streamRead data pos n).2.1 = (ByteFile.read { data := data, pos := pos } n).1.pos := by
  unfold streamRead takeAt ByteFile.read
  by_cases hge : data.length - pos ≥ n
  · simp [hge]
  · have h3 : (data.drop pos).take n = data.drop pos := by
      apply List.take_of_length_le; simp; omega
    simp [hge, h3]

/-- (5) Streaming mode, `Seek` forward inside the content: the position reached is the
    reference's — but the value returned is the distance skipped, not the offset (F23). -/
theorem seek_streaming_position (data : Bytes) (pos : Nat) (dst : Int) (atEOF : Int)
    (h1 : (pos : Int) < dst) (h2 : dst ≤ data.length) :
    (streamSkip data pos (dst - pos) atEOF).1 = dst.toNat ∧ (streamSkip data pos (dst - pos) atEOF).2 = dst - pos := by
  unfold streamSkip
  have a : ¬ (dst - (pos : Int) ≤ 0) := by omega
  have b : ((data.length : Int) - (pos : Int)) ≥ dst - pos := by omega
  simp only [a, b, if_false, if_true]
  constructor
  · omega
  · trivial

def env1 (now : Int) : Env := { now := now, recs := [(3, 0)] }

def tenBytes : Bytes := [48, 49, 50, 51, 52, 53, 54, 55, 56, 57]

/-- a file `/f` holding `0123456789`, opened read-only as handle 2 -/
def sF23 : Sys :=
  ({} : Sys).runAll {} [(env1 1, .init (n!"/") 511), (env1 2, .create 1 (n!"/f")),
    ({ now := 3, recs := [(3, 10)] }, .hwrite 1 tenBytes), ({ now := 3, recs := [(3, 10)] }, .hclose 1), (env1 4, .open_ 2 (n!"/f"))]

/-- (5) F23 witnesses: after reading 5 bytes `Seek(2, Current)` returns 2 instead of 7, and
    `Seek(-2, End)` returns 12 instead of 8. -/
theorem F23_seek_witness :
    let s1 := (sF23.step {} {} (.hread 2 5)).1
    (match (s1.step {} {} (.hseek 2 2 1)).2 with | .ok (.offset o) => o | _ => -1) = 2 ∧
    (match (sF23.step {} {} (.hseek 2 (-2) 2)).2 with | .ok (.offset o) => o | _ => -1) = 12 := by
  decide

/-- (6) F23 witness: growing `Truncate` replaces the content by zeros. -/
theorem F23_truncate_witness :
    let s0 := ({} : Sys).runAll {} [(env1 1, .init (n!"/") 511), (env1 2, .create 1 (n!"/f")),
      ({ now := 3, recs := [(3, 3)] }, .hwrite 1 [7, 8, 9])]
    (match ((s0.step {} {} (.htruncate 1 5)).1.getHandle 1) with
     | some h => h.wbuf.map (·.1)
     | none => none) = some [0, 0, 0, 0, 0, 0, 0, 0] := by
  decide

/-- (7) F22 witness: after a partial read, a call that needs the drive never returns. -/
theorem F22_witness :
    let s1 := (sF23.step {} {} (.hread 2 5)).1
    (match (s1.step {} (env1 9) (.mkdir (n!"/d") 493)).2 with | .error .stuck => true | _ => false) = true := by
  decide

end Stfs.C14
