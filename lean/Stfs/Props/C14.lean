/-
  C14 — An open file behaves like a byte array with a cursor.

  Partial.  The reference is `Spec/ByteFile.lean`.  The code deviates from it in many places
  (finding F23: `Seek` in streaming mode returns the distance skipped and `SeekEnd` subtracts;
  growing `Truncate` zeroes the content and writes at the stale cursor; `O_APPEND` positions
  once; reads return EOF together with data; F12: a flush closes the cache; F22: a partial
  read keeps the drive) — witnesses below.  Proved: in write mode (a handle that has a write
  cache) reads, seeks with a non-negative target, writes, positioned writes and shrinking
  truncations are exactly the reference's; in streaming mode sequential reads return exactly
  the reference's bytes.
-/
import Stfs.Model.Sys
import Stfs.Spec.ByteFile
import Stfs.Gen.Fingerprints
namespace Stfs.C14
open Stfs

/-- the write cache and the reference store bytes the same way -/
theorem cache_write_eq (buf : Bytes) (pos : Nat) (p : Bytes) : writeAt buf pos p = ByteFile.writeBytes buf pos p := by
  unfold writeAt ByteFile.writeBytes; rfl

/-- (1) Write mode, `Read`: for every cache content, cursor and count the bytes returned and the
    new cursor are the reference's; EOF is signalled exactly when nothing is left. -/
theorem read_in_write_mode (buf : Bytes) (cur n : Nat) :
    (cacheRead buf cur n).1 = (ByteFile.read { data := buf, pos := cur } n).2.2 ∧
    (cacheRead buf cur n).2.1 = (ByteFile.read { data := buf, pos := cur } n).1.pos ∧
    ((cacheRead buf cur n).2.2 = true ↔ cur ≥ buf.length) := by
  unfold cacheRead ByteFile.read
  by_cases h : cur ≥ buf.length
  · have : buf.drop cur = [] := List.drop_eq_nil_of_le h
    simp [h, this]
  · simp [h]

/-- (2) Write mode, `Seek`: for every whence and offset, the call is refused exactly when the
    reference refuses it, and otherwise the value returned and the new cursor are the reference's
    (the absolute offset; `SeekEnd` adds). -/
theorem seek_in_write_mode (buf : Bytes) (cur : Nat) (off whence : Int) :
    match cacheSeek buf cur off whence, ByteFile.seek { data := buf, pos := cur } off whence with
    | none, (_, r, _) => r = .invalid
    | some (c, a), (b', r, a') => r = .ok ∧ a = a' ∧ c = b'.pos := by
  unfold cacheSeek ByteFile.seek SEEK_SET SEEK_CUR SEEK_END
  by_cases h0 : whence = 0
  · subst h0; by_cases hn : off < 0 <;> simp [hn]
  · by_cases h1 : whence = 1
    · subst h1; by_cases hn : (cur : Int) + off < 0 <;> simp [hn]
    · by_cases h2 : whence = 2
      · subst h2; by_cases hn : (buf.length : Int) + off < 0 <;> simp [hn]
      · simp [h0, h1, h2]

/-- (3) Write mode, `Truncate` to a smaller or equal size: the content is the reference's and
    the cursor does not move. -/
theorem truncate_shrink (buf : Bytes) (cur : Nat) (size : Int) (h0 : 0 ≤ size) (hle : size ≤ buf.length) :
    cacheTruncate buf cur size =
      some ((ByteFile.truncate { data := buf, pos := cur, canWrite := true } size).1.data, cur) := by
  unfold cacheTruncate ByteFile.truncate
  have h1 : ¬ (size > (buf.length : Int)) := by omega
  have h2 : ¬ (size < 0) := by omega
  have h3 : size.toNat ≤ buf.length := by omega
  simp [h1, h2, h3]

/-- (4) Streaming mode, sequential `Read`: exactly the reference's bytes, the position advanced
    by their number. -/
theorem read_streaming (data : Bytes) (pos n : Nat) :
    (streamRead data pos n).1 = (ByteFile.read { data := data, pos := pos } n).2.2 ∧
    (streamRead data pos n).2.1 = (ByteFile.read { data := data, pos := pos } n).1.pos := by
  unfold streamRead takeAt ByteFile.read
  by_cases hge : data.length - pos ≥ n
  · simp [hge]
  · have h3 : (data.drop pos).take n = data.drop pos := by
      apply List.take_of_length_le; simp; omega
    simp [hge, h3]

/-- (5) Streaming mode, `Seek` forward inside the content: the position reached is the
    reference's — but the value returned is the distance skipped, not the offset (F23). -/
theorem seek_streaming_position (data : Bytes) (pos : Nat) (dst : Int) (atEOF : Int)
    (h1 : (pos : Int) < dst) (h2 : dst ≤ data.length) :
    (streamSkip data pos (dst - pos) atEOF).1 = dst.toNat ∧ (streamSkip data pos (dst - pos) atEOF).2 = dst - pos := by
  unfold streamSkip
  have a : ¬ (dst - (pos : Int) ≤ 0) := by omega
  have b : ((data.length : Int) - (pos : Int)) ≥ dst - pos := by omega
  simp only [a, b, if_false, if_true]
  constructor
  · omega
  · trivial

def env1 (now : Int) : Env := { now := now, recs := [(3, 0)] }

def tenBytes : Bytes := [48, 49, 50, 51, 52, 53, 54, 55, 56, 57]

/-! ### the streaming reader over whole histories -/

/-- what a client does on a handle in streaming (read) mode: read, or seek forward to an
    absolute offset -/
inductive SOp
  | read (n : Nat)
  | seekTo (dst : Nat)

/-- one call on the stream position, as `hRead`/`hSeekNoLock` drive the cores; the bytes a
    `Read` returns are the output -/
def streamStep (data : Bytes) (pos : Nat) : SOp → Nat × Bytes
  | .read n => ((streamRead data pos n).2.1, (streamRead data pos n).1)
  | .seekTo dst => ((streamSkip data pos ((dst : Int) - pos) 0).1, [])

/-- the reference: read at the cursor / set the cursor -/
def refStreamStep (data : Bytes) (pos : Nat) : SOp → Nat × Bytes
  | .read n => ((ByteFile.read { data := data, pos := pos } n).1.pos, (ByteFile.read { data := data, pos := pos } n).2.2)
  | .seekTo dst => (dst, [])

/-- seeks go forward and stay inside the content (backward seeks restart the stream, seeks
    beyond the end stop at the end: both are finding F23's region) -/
def forwardInside (data : Bytes) (pos : Nat) : SOp → Bool
  | .read _ => true
  | .seekTo dst => pos < dst && dst ≤ data.length

def runStream (data : Bytes) (pos : Nat) : List SOp → Nat × List Bytes
  | [] => (pos, [])
  | op :: ops => let r := streamStep data pos op; let rest := runStream data r.1 ops; (rest.1, r.2 :: rest.2)

def runRefStream (data : Bytes) (pos : Nat) : List SOp → Nat × List Bytes
  | [] => (pos, [])
  | op :: ops => let r := refStreamStep data pos op; let rest := runRefStream data r.1 ops; (rest.1, r.2 :: rest.2)

def allForward (data : Bytes) (pos : Nat) : List SOp → Bool
  | [] => true
  | op :: ops => forwardInside data pos op && allForward data (streamStep data pos op).1 ops

/-- (8) Refinement in streaming mode over whole histories: for every content and every sequence
    of Reads and forward Seeks inside the content, every Read returns the reference's bytes
    and the position is the reference's throughout. -/
theorem streaming_refines_bytefile (data : Bytes) (ops : List SOp) (pos : Nat) (hg : allForward data pos ops = true) :
    runStream data pos ops = runRefStream data pos ops := by
  induction ops generalizing pos with
  | nil => rfl
  | cons op ops ih =>
    simp only [allForward, Bool.and_eq_true] at hg
    have hstep : streamStep data pos op = refStreamStep data pos op := by
      cases op with
      | read n =>
        have h := read_streaming data pos n
        simp only [streamStep, refStreamStep, h.1, h.2]
      | seekTo dst =>
        have hf := hg.1
        simp only [forwardInside, Bool.and_eq_true, decide_eq_true_eq] at hf
        have h := seek_streaming_position data pos (dst : Int) 0 (by omega) (by omega)
        simp only [streamStep, refStreamStep, h.1, Int.toNat_natCast]
    have := ih (streamStep data pos op).1 hg.2
    simp only [runStream, runRefStream, hstep] at this ⊢
    rw [this]

example :
    let ops := [SOp.read 3, .seekTo 7, .read 2, .read 5, .read 1]
    allForward tenBytes 0 ops = true ∧ (runStream tenBytes 0 ops).2 = [[48, 49, 50], [], [55, 56], [57], []] := by
  decide


/-! ### the write cache over whole histories (refinement to the byte array) -/

/-- the calls a client can make on a handle in write mode -/
inductive WOp
  | write (p : Bytes)
  | read (n : Nat)
  | seek (off whence : Int)
  | truncate (size : Int)

/-- what the client sees from one call -/
inductive WOut
  | wrote (n : Nat)
  | bytes (b : Bytes)
  | offset (o : Int)
  | done
  | einval
deriving DecidableEq

/-- one call on the cache state `(buf, cur)`, as `hWrite`/`hRead`/`hSeekNoLock`/`hTruncate` drive the cores -/
def cacheStep (st : Bytes × Nat) : WOp → (Bytes × Nat) × WOut
  | .write p => ((writeAt st.1 st.2 p, st.2 + p.length), .wrote p.length)
  | .read n => ((st.1, (cacheRead st.1 st.2 n).2.1), .bytes (cacheRead st.1 st.2 n).1)
  | .seek off wh => match cacheSeek st.1 st.2 off wh with
      | some (c, a) => ((st.1, c), .offset a)
      | none => (st, .einval)
  | .truncate size => match cacheTruncate st.1 st.2 size with
      | some (b, c) => ((b, c), .done)
      | none => (st, .einval)

/-- the same call on the reference -/
def refStep (b : ByteFile.BF) : WOp → ByteFile.BF × WOut
  | .write p => ((ByteFile.write b p).1, .wrote (ByteFile.write b p).2.2)
  | .read n => ((ByteFile.read b n).1, .bytes (ByteFile.read b n).2.2)
  | .seek off wh => match ByteFile.seek b off wh with
      | (b', .ok, a) => (b', .offset a)
      | (_, _, _) => (b, .einval)
  | .truncate size => match ByteFile.truncate b size with
      | (b', .ok) => (b', .done)
      | (_, _) => (b, .einval)

/-- the region outside finding F23: no `Truncate` beyond the current length -/
def noGrow (st : Bytes × Nat) : WOp → Bool
  | .truncate size => size ≤ st.1.length
  | _ => true

def runCache (st : Bytes × Nat) : List WOp → (Bytes × Nat) × List WOut
  | [] => (st, [])
  | op :: ops => let r := cacheStep st op; let rest := runCache r.1 ops; (rest.1, r.2 :: rest.2)

def runRef (b : ByteFile.BF) : List WOp → ByteFile.BF × List WOut
  | [] => (b, [])
  | op :: ops => let r := refStep b op; let rest := runRef r.1 ops; (rest.1, r.2 :: rest.2)

def allNoGrow (st : Bytes × Nat) : List WOp → Bool
  | [] => true
  | op :: ops => noGrow st op && allNoGrow (cacheStep st op).1 ops

/-- a reference file that is open read-write without O_APPEND and mirrors the cache -/
def Mirrors (st : Bytes × Nat) (b : ByteFile.BF) : Prop :=
  b.data = st.1 ∧ b.pos = st.2 ∧ b.canRead = true ∧ b.canWrite = true ∧ b.append = false

theorem seek_flags (d : Bytes) (p : Nat) (cr cw ap dt : Bool) (off wh : Int) :
    ByteFile.seek { data := d, pos := p, canRead := cr, canWrite := cw, append := ap, dirty := dt } off wh =
      ({ data := d, pos := (ByteFile.seek { data := d, pos := p } off wh).1.pos, canRead := cr, canWrite := cw, append := ap, dirty := dt },
       (ByteFile.seek { data := d, pos := p } off wh).2.1, (ByteFile.seek { data := d, pos := p } off wh).2.2) := by
  unfold ByteFile.seek
  simp only
  split
  · rfl
  · split <;> rfl

theorem step_refines (st : Bytes × Nat) (b : ByteFile.BF) (hm : Mirrors st b) (op : WOp) (hg : noGrow st op = true) :
    (cacheStep st op).2 = (refStep b op).2 ∧ Mirrors (cacheStep st op).1 (refStep b op).1 := by
  obtain ⟨hd, hp, hr, hw, ha⟩ := hm
  obtain ⟨buf, cur⟩ := st
  obtain ⟨d, p, cr, cw, ap, dt⟩ := b
  simp only at hd hp hr hw ha
  subst hd hp hr hw ha
  cases op with
  | write q =>
    simp [cacheStep, refStep, ByteFile.write, Mirrors, cache_write_eq]
  | read n =>
    have h := read_in_write_mode d p n
    simp only [ByteFile.read, Bool.not_true, Bool.false_eq_true, if_false] at h
    simp [cacheStep, refStep, ByteFile.read, Mirrors, h.1, h.2.1]
  | seek off wh =>
    have h := seek_in_write_mode d p off wh
    simp only [cacheStep, refStep]
    rw [seek_flags]
    cases hc : cacheSeek d p off wh with
    | none =>
      rw [hc] at h
      generalize ByteFile.seek { data := d, pos := p } off wh = x at h ⊢
      obtain ⟨b', r, a'⟩ := x
      simp only at h
      subst h
      simp [Mirrors]
    | some ca =>
      obtain ⟨c, a⟩ := ca
      rw [hc] at h
      generalize ByteFile.seek { data := d, pos := p } off wh = x at h ⊢
      obtain ⟨b', r, a'⟩ := x
      simp only at h
      obtain ⟨h1, h2, h3⟩ := h
      subst h1 h2 h3
      simp [Mirrors]
  | truncate size =>
    simp only [noGrow, decide_eq_true_eq] at hg
    simp only [cacheStep, refStep]
    by_cases hneg : size < 0
    · have hc : cacheTruncate d p size = none := by
        unfold cacheTruncate
        have : ¬ size > (d.length : Int) := by omega
        simp [this, hneg]
      simp [hc, ByteFile.truncate, hneg, Mirrors]
    · have h0 : 0 ≤ size := by omega
      have ht := truncate_shrink d p size h0 hg
      rw [ht]
      have hle : size.toNat ≤ d.length := by omega
      simp [ByteFile.truncate, hneg, hle, Mirrors]

/-- (7) Refinement over whole histories: for every sequence of Write / Read / Seek / Truncate
    calls on a handle in write mode that never truncates beyond the current length (the region
    of finding F23), every call shows the client exactly what the byte-array reference shows,
    and the cache content and cursor stay the reference's. -/
theorem write_mode_refines_bytefile (ops : List WOp) (st : Bytes × Nat) (b : ByteFile.BF) (hm : Mirrors st b)
    (hg : allNoGrow st ops = true) :
    (runCache st ops).2 = (runRef b ops).2 ∧ Mirrors (runCache st ops).1 (runRef b ops).1 := by
  induction ops generalizing st b with
  | nil => exact ⟨rfl, hm⟩
  | cons op ops ih =>
    simp only [allNoGrow, Bool.and_eq_true] at hg
    obtain ⟨h1, h2⟩ := step_refines st b hm op hg.1
    obtain ⟨i1, i2⟩ := ih (cacheStep st op).1 (refStep b op).1 h2 hg.2
    simp only [runCache, runRef]
    exact ⟨by rw [h1, i1], i2⟩

/-- non-vacuity: a concrete history with overwrites, a hole, reads at and beyond the end, all
    three whences and a shrinking truncate -/
example :
    let ops := [WOp.write [1, 2, 3], .seek 5 0, .write [9], .seek (-2) 2, .read 10, .seek 0 1, .truncate 2, .read 1, .seek (-1) 1, .read 5]
    allNoGrow ([], 0) ops = true ∧ (runCache ([], 0) ops).2 = (runRef { canWrite := true } ops).2 := by decide

/-- a file `/f` holding `0123456789`, opened read-only as handle 2 -/
def sF23 : Sys :=
  ({} : Sys).runAll {} [(env1 1, .init (n!"/") 511), (env1 2, .create 1 (n!"/f")),
    ({ now := 3, recs := [(3, 10)] }, .hwrite 1 tenBytes), ({ now := 3, recs := [(3, 10)] }, .hclose 1), (env1 4, .open_ 2 (n!"/f"))]

/-- (5) F23 witnesses: after reading 5 bytes `Seek(2, Current)` returns 2 instead of 7, and
    `Seek(-2, End)` returns 12 instead of 8. -/
theorem F23_seek_witness :
    let s1 := (sF23.step {} {} (.hread 2 5)).1
    (match (s1.step {} {} (.hseek 2 2 1)).2 with | .ok (.offset o) => o | _ => -1) = 2 ∧
    (match (sF23.step {} {} (.hseek 2 (-2) 2)).2 with | .ok (.offset o) => o | _ => -1) = 12 := by
  decide

/-- (6) F23 witness: growing `Truncate` replaces the content by zeros. -/
theorem F23_truncate_witness :
    let s0 := ({} : Sys).runAll {} [(env1 1, .init (n!"/") 511), (env1 2, .create 1 (n!"/f")),
      ({ now := 3, recs := [(3, 3)] }, .hwrite 1 [7, 8, 9])]
    (match ((s0.step {} {} (.htruncate 1 5)).1.getHandle 1) with
     | some h => h.wbuf.map (·.1)
     | none => none) = some [0, 0, 0, 0, 0, 0, 0, 0] := by
  decide

/-- (7) F22 witness: after a partial read, a call that needs the drive never returns. -/
theorem F22_witness :
    let s1 := (sF23.step {} {} (.hread 2 5)).1
    (match (s1.step {} (env1 9) (.mkdir (n!"/d") 493)).2 with | .error .stuck => true | _ => false) = true := by
  decide

-- MIRRORS-BEGIN (maintained by bin/update-mirrors)
/-- The parts of the model this file's theorems are about were written by hand against these
    versions of the functions they mirror (fingerprint of each function's comment-free source,
    regenerated on every run).  When one of them changes, this obligation fails: the change has
    to be confirmed harmless by the correspondence, or shows up as its failing input. -/
theorem model_mirrors_source :
    [(n!"fs.File.Read"), (n!"fs.File.ReadAt"), (n!"fs.File.Seek"), (n!"fs.File.seekWithoutLocking"), (n!"fs.File.Write"), (n!"fs.File.WriteAt"), (n!"fs.File.WriteString"), (n!"fs.File.Truncate"), (n!"fs.File.enterWriteMode"), (n!"fs.File.syncWithoutLocking"), (n!"fs.File.closeWithoutLocking"), (n!"fs.File.Stat")].map Gen.fingerprintOf =
    [some 1012172523322856820, some 705744641016468564, some 1238093570208668037, some 64861167514041371, some 1173533311108468106, some 592242020438334892, some 258280185019789225, some 2204048852330886634, some 1446306354819979764, some 180719127958551020, some 1879860595920009448, some 864840339918521905] := by decide
-- MIRRORS-END

end Stfs.C14
