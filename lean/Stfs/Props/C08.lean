/-
  C08 — With signatures on, nothing unsigned or altered is ever accepted.

  Over the symbolic model Model/Sig.lean (ideal primitives, the code's own decision logic as
  regenerated into Gen/Verify.lean).  Unforgeability enters as a *hypothesis about the tape*
  (`Unforged`): every well-formed signature under the writer's key that occurs on the tape is
  over a message the writer signed.  No axiom is added.
-/
import Stfs.Model.Sig
namespace Stfs.C08
open Stfs Stfs.Sig Stfs.Gen

/-- (0) What the translator found in the source, decided by the kernel on this run's table:
    `VerifyHeader` requires both records, returns `VerifyString`'s error and replaces the outer
    header by the embedded one; `VerifyString` rejects every malformed class in both formats. -/
theorem verify_skeleton : verifyRequiresEmbedded = true ∧ verifyRequiresSignature = true ∧
    verifyPropagatesError = true ∧ verifyReplacesOuter = true ∧ verifyHeaderGuards = 6 := by decide

theorem malformed_rejected (f : SFmt) (s : SigVal) : acceptsMalformed f s = false := by
  cases f <;> cases s <;> first | rfl | decide

/-- (1) Whatever `VerifyHeader` accepts carries a well-formed signature by the expected key
    over exactly the embedded header that replaces the outer one. -/
theorem accepted_header_was_signed (f : SFmt) (rk : Nat) (o : Outer) (e : Name)
    (h : verifyHeader f rk o = some e) : o.embedded = some e ∧ o.sig = some (.valid rk e) := by
  unfold verifyHeader at h
  have s0 := verify_skeleton
  simp only [s0.1, s0.2.1, s0.2.2.1, Bool.true_and, Bool.not_true, Bool.or_false, if_true] at h
  split at h
  · cases h
  · split at h
    · cases h
    · rename_i e' he
      split at h
      · cases h
      · rename_i s hs
        split at h
        · rename_i hv
          simp only [Option.some.injEq] at h
          subst h
          refine ⟨he, ?_⟩
          cases s with
          | valid k m =>
            simp only [verifyString, Bool.and_eq_true, beq_iff_eq] at hv
            rw [hs, hv.1, hv.2]
          | undecodable => simp [verifyString, malformed_rejected] at hv
          | notPacket => simp [verifyString, malformed_rejected] at hv
          | notSignature => simp [verifyString, malformed_rejected] at hv
        · cases h

/-- unforgeability, as a property of a tape: signatures under the writer's key only exist
    over messages the writer signed -/
def Unforged (rk : Nat) (signed : List Name) (t : List Outer) : Prop :=
  ∀ o ∈ t, ∀ m, o.sig = some (.valid rk m) → m ∈ signed

/-- (2) Every header an index rebuild accepts from any tape — altered bytes, spliced foreign
    records, swapped signatures, records signed by another key, unsigned records — is identical
    to one the legitimate writer signed. -/
theorem rebuild_accepts_only_signed (f : SFmt) (rk : Nat) (signed : List Name) (t : List Outer)
    (hu : Unforged rk signed t) : ∀ e ∈ (acceptAll f rk t).1, e ∈ signed := by
  induction t with
  | nil => intro e he; simp [acceptAll] at he
  | cons o rest ih =>
    intro e he
    unfold acceptAll at he
    cases hv : verifyHeader f rk o with
    | none => rw [hv] at he; simp at he
    | some e' =>
      rw [hv] at he
      simp only [List.mem_cons] at he
      rcases he with rfl | he
      · have := accepted_header_was_signed f rk o _ hv
        exact hu o List.mem_cons_self _ this.2
      · exact ih (fun o' ho' => hu o' (List.mem_cons_of_mem _ ho')) e he

/-- … in particular records with no signature, a malformed signature or a signature by
    another key are rejected -/
theorem unsigned_malformed_foreign_rejected (f : SFmt) (rk : Nat) (e : Name) :
    verifyHeader f rk { embedded := some e, sig := none } = none ∧
    verifyHeader f rk { embedded := none, sig := some (.valid rk e) } = none ∧
    verifyHeader f rk { hasPax := false } = none ∧
    (∀ s, (∀ k m, s ≠ .valid k m) → verifyHeader f rk { embedded := some e, sig := some s } = none) ∧
    (∀ k, k ≠ rk → verifyHeader f rk { embedded := some e, sig := some (.valid k e) } = none) ∧
    (∀ m, m ≠ e → verifyHeader f rk { embedded := some e, sig := some (.valid rk m) } = none) := by
  have s0 := verify_skeleton
  refine ⟨?_, ?_, ?_, ?_, ?_, ?_⟩
  · simp [verifyHeader, s0.1, s0.2.1]
  · simp [verifyHeader, s0.1]
  · simp [verifyHeader, s0.1]
  · intro s hs
    cases s with
    | valid k m => exact absurd rfl (hs k m)
    | undecodable => simp [verifyHeader, s0.1, s0.2.1, s0.2.2.1, verifyString, malformed_rejected]
    | notPacket => simp [verifyHeader, s0.1, s0.2.1, s0.2.2.1, verifyString, malformed_rejected]
    | notSignature => simp [verifyHeader, s0.1, s0.2.1, s0.2.2.1, verifyString, malformed_rejected]
  · intro k hk
    simp [verifyHeader, s0.1, s0.2.1, s0.2.2.1, verifyString, hk]
  · intro m hm
    simp [verifyHeader, s0.1, s0.2.1, s0.2.2.1, verifyString, hm]

/-- (2′) Completeness: a tape the legitimate writer produced (every record carries the signature
    by the writer's key over its own embedded header) is accepted in full, in order. -/
theorem legitimate_tape_accepted (f : SFmt) (rk : Nat) (msgs : List Name) :
    acceptAll f rk (msgs.map (fun m => ({ embedded := some m, sig := some (.valid rk m) } : Outer))) = (msgs, true) := by
  have s0 := verify_skeleton
  induction msgs with
  | nil => rfl
  | cons m rest ih =>
    have hv : verifyHeader f rk { embedded := some m, sig := some (.valid rk m) } = some m := by
      simp [verifyHeader, s0.1, s0.2.1, s0.2.2.1, verifyString]
    simp only [List.map_cons, acceptAll, hv, ih]

/-- (3) Every restored content of a regular entry is the content signed under its (accepted)
    header, or the restore fails. -/
theorem restored_content_was_signed (f : SFmt) (rk : Nat) (h : Inner) (hr : h.regular = true) (c out : Name)
    (hres : restore f rk h c = some out) : out = c ∧ h.contentSig = .valid rk c := by
  unfold restore at hres
  simp only [hr, Bool.not_true, Bool.false_eq_true, if_false] at hres
  split at hres
  · rename_i k m hk
    split at hres
    · rename_i hv
      simp only [Bool.and_eq_true, beq_iff_eq] at hv
      simp only [Option.some.injEq] at hres
      exact ⟨hres.symm, by rw [hk, hv.1, hv.2]⟩
    · cases hres
  · cases hres

/-- (4) Who verifies: every rebuild (the filesystem's open and `stfs recovery index`) passes the
    real verifier with the read side's recipient; the write operations, which index what they
    have just signed themselves, pass the constant nil; Fetch and Query verify directly; Fetch
    copies without content verification exactly the entries that are not regular files. -/
theorem verifier_sites :
    indexCallers = [((n!"pkg/fs/filesystem.go"), .real (n!"f.readOps.GetCrypto().Recipient")),
                    ((n!"pkg/operations/archive.go"), .constNil), ((n!"pkg/operations/update.go"), .constNil),
                    ((n!"pkg/operations/delete.go"), .constNil), ((n!"pkg/operations/move.go"), .constNil),
                    ((n!"cmd/stfs/cmd/recovery_index.go"), .real (n!"recipient"))] ∧
    fetchVerifiesHeader = 1 ∧ queryVerifiesHeader = 2 ∧ fetchVerifiesContent = 1 ∧
    fetchRawCopyCond = (n!"!hdr.FileInfo().Mode().IsRegular()") := by decide

/-- non-vacuity: a legitimately signed record is accepted, its forgeries are not -/
example : verifyHeader .pgp 1 { embedded := some (n!"{hdr}"), sig := some (.valid 1 (n!"{hdr}")) } = some (n!"{hdr}") ∧
    verifyHeader .pgp 1 { embedded := some (n!"{hdR}"), sig := some (.valid 1 (n!"{hdr}")) } = none ∧
    verifyHeader .pgp 1 { embedded := some (n!"{hdr}"), sig := some .notPacket } = none ∧
    verifyHeader .minisign 1 { embedded := some (n!"{hdr}"), sig := some (.valid 2 (n!"{hdr}")) } = none := by decide

end Stfs.C08
