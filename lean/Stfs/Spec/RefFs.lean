/-
  The reference hierarchical filesystem: a finite map from absolute clean paths to
  directories, files and symlinks with the ordinary POSIX/afero rules.  Short enough to read
  in minutes; it knows nothing about tapes, records, tombstones or caches.

  Deliberate simplifications (stated in DESIGN.md): a handle buffers its writes until
  `Sync`/`Close` (like any buffered writer); timestamps change only through creation and
  `Chtimes` (no clock-driven updates on write).
-/
import Stfs.Model.Path
namespace Stfs.RefFs
open Stfs

abbrev Bytes := List Nat

structure Attr where
  perm : Int := 0
  uid : Int := 0
  gid : Int := 0
  mtime : Int := 0
deriving DecidableEq, Repr, Inhabited

inductive Node
  | dir (a : Attr)
  | file (a : Attr) (data : Bytes)
  | symlink (target : Name)
deriving DecidableEq, Repr, Inhabited

def Node.isDir : Node → Bool
  | .dir _ => true
  | _ => false

/-- result classes shared with the model of the implementation -/
inductive Res
  | ok | notExist | exist | invalid | isDirectory | isFile | notEmpty | permission
deriving DecidableEq, Repr, Inhabited

structure State where
  /-- absolute clean paths; at most one entry per path -/
  entries : List (Name × Node) := []
deriving DecidableEq, Repr, Inhabited

def rootPath : Name := [slash]

def State.init : State := {}

def State.get (s : State) (p : Name) : Option Node := (s.entries.find? (·.1 == p)).map (·.2)

def State.set (s : State) (p : Name) (n : Node) : State :=
  if s.entries.any (·.1 == p) then { entries := s.entries.map (fun e => if e.1 == p then (p, n) else e) }
  else { entries := s.entries ++ [(p, n)] }

def State.erase (s : State) (p : Name) : State := { entries := s.entries.filter (·.1 != p) }

/-- `p` is `d` itself or lies beneath it -/
def within (d p : Name) : Bool := p == d || hasPrefix p (if d == rootPath then d else d ++ [slash])

def strictlyWithin (d p : Name) : Bool := p != d && within d p

def State.children (s : State) (d : Name) : List (Name × Node) :=
  s.entries.filter (fun e => e.1 != d && dir e.1 == d)

/-- absolute clean spelling of a caller path -/
def norm (p : Name) : Name := clean (slash :: p)

/-- follow one level of symlink (targets are stored normalised) -/
def State.resolve (s : State) (p : Name) : Name :=
  match s.get p with
  | some (.symlink t) => t
  | _ => p

def parentOk (s : State) (p : Name) : Bool :=
  match s.get (dir p) with
  | some (.dir _) => true
  | _ => false

def initFs (s : State) (perm : Int) (uid gid now : Int) : State :=
  if (s.get rootPath).isSome then s else s.set rootPath (.dir { perm := perm % 512, uid := uid, gid := gid, mtime := now })

def mkdir (s : State) (p : Name) (perm uid gid now : Int) : State × Res :=
  let p := norm p
  if !parentOk s p then (s, .notExist) else
  if (s.get p).isSome then (s, .exist) else
  (s.set p (.dir { perm := perm % 512, uid := uid, gid := gid, mtime := now }), .ok)

/-- ancestors of `p` from the top (excluding the root), then `p` itself -/
def prefixesAux : List Name → Name → List Name
  | [], _ => []
  | c :: cs, acc => let q := if acc == rootPath then acc ++ c else acc ++ slash :: c; q :: prefixesAux cs q

def prefixes (p : Name) : List Name := prefixesAux ((splitOn slash p).filter (· != [])) rootPath

def mkdirAllLoop (perm uid gid now : Int) : State → List Name → State × Res
  | s, [] => (s, .ok)
  | s, q :: qs =>
    match s.get (s.resolve q) with
    | some (.dir _) => mkdirAllLoop perm uid gid now s qs
    | some _ => (s, .isFile)
    | none => mkdirAllLoop perm uid gid now (s.set q (.dir { perm := perm % 512, uid := uid, gid := gid, mtime := now })) qs

def mkdirAll (s : State) (p : Name) (perm uid gid now : Int) : State × Res :=
  mkdirAllLoop perm uid gid now s (prefixes (norm p))

def remove (s : State) (p : Name) : State × Res :=
  let p := norm p
  match s.get p with
  | none => (s, .notExist)
  | some (.dir _) => if p == rootPath then (s, .invalid) else if (s.children p).isEmpty then (s.erase p, .ok) else (s, .notEmpty)
  | some _ => (s.erase p, .ok)

def removeAll (s : State) (p : Name) : State × Res :=
  let p := norm p
  ({ entries := s.entries.filter (fun e => !within p e.1) }, .ok)

def rename (s : State) (a b : Name) : State × Res :=
  if a == [] || b == [] then (s, .invalid) else
  let a := norm a
  let b := norm b
  if a == rootPath then (s, .invalid) else
  match s.get a with
  | none => (s, .notExist)
  | some src =>
    if !parentOk s b then (s, .notExist) else
    if a == b then (s, .ok) else
    if strictlyWithin a b then (s, .invalid) else
    let moveAll (s : State) : State :=
      { entries := s.entries.map (fun e => if within a e.1 then (b ++ e.1.drop a.length, e.2) else e) }
    match s.get b with
    | none => (moveAll s, .ok)
    | some dst =>
      if src.isDir != dst.isDir then (s, .exist) else
      if dst.isDir && !(s.children b).isEmpty then (s, .notEmpty) else
      (moveAll (s.erase b), .ok)

def updAttr (s : State) (p : Name) (f : Attr → Attr) : State × Res :=
  if p == [] then (s, .invalid) else
  let p := s.resolve (norm p)
  match s.get p with
  | some (.dir a) => (s.set p (.dir (f a)), .ok)
  | some (.file a d) => (s.set p (.file (f a) d), .ok)
  | _ => (s, .notExist)

def chmod (s : State) (p : Name) (mode : Int) := updAttr s p (fun a => { a with perm := mode % 512 })
def chown (s : State) (p : Name) (uid gid : Int) := updAttr s p (fun a => { a with uid := uid, gid := gid })
def chtimes (s : State) (p : Name) (mtime : Int) := updAttr s p (fun a => { a with mtime := mtime })

def symlink (s : State) (target linkPath : Name) : State × Res :=
  if target == [] || linkPath == [] then (s, .invalid) else
  let l := norm linkPath
  if !parentOk s l then (s, .notExist) else
  if (s.get l).isSome then (s, .exist) else
  (s.set l (.symlink (norm target)), .ok)

/-- create-or-truncate decision of `OpenFile`; returns the path of the file the handle is on -/
def openFile (s : State) (p : Name) (create excl : Bool) (writable : Bool) (perm uid gid now : Int) : State × Res × Name :=
  if p == [] then (s, .invalid, []) else
  let p := s.resolve (norm p)
  match s.get p with
  | some (.dir _) => if writable then (s, .isDirectory, p) else (s, .ok, p)
  | some _ => if create && excl then (s, .exist, p) else (s, .ok, p)
  | none =>
    if !create then (s, .notExist, p) else
    if !parentOk s p then (s, .notExist, p) else
    (s.set p (.file { perm := perm % 512, uid := uid, gid := gid, mtime := now } []), .ok, p)

/-- what a flush of a handle's buffer does -/
def flush (s : State) (p : Name) (data : Bytes) : State :=
  match s.get p with
  | some (.file a _) => s.set p (.file a data)
  | _ => s

def content (s : State) (p : Name) : Option Bytes :=
  match s.get (s.resolve (norm p)) with
  | some (.file _ d) => some d
  | _ => none

end Stfs.RefFs
