/-
  The reference for an open file: a byte array with a cursor (what `afero.MemMapFs` / an
  `os.File` does).  Buffered until `Sync`/`Close` like the handles of `RefFs`.
-/
import Stfs.Model.Path
namespace Stfs.ByteFile
open Stfs

abbrev Bytes := List Nat

structure BF where
  data : Bytes := []
  pos : Nat := 0
  canRead : Bool := true
  canWrite : Bool := false
  append : Bool := false
  dirty : Bool := false
deriving Repr, Inhabited

inductive R
  | ok | permission | invalid
deriving DecidableEq, Repr

/-- read up to `n` bytes at the cursor -/
def read (b : BF) (n : Nat) : BF × R × Bytes :=
  if !b.canRead then (b, .permission, []) else
  let out := (b.data.drop b.pos).take n
  ({ b with pos := b.pos + out.length }, .ok, out)

def seek (b : BF) (off : Int) (whence : Int) : BF × R × Int :=
  let base : Option Int := if whence == 0 then some 0 else if whence == 1 then some b.pos else if whence == 2 then some b.data.length else none
  match base with
  | none => (b, .invalid, 0)
  | some s => if s + off < 0 then (b, .invalid, 0) else ({ b with pos := (s + off).toNat }, .ok, s + off)

def writeBytes (data : Bytes) (pos : Nat) (p : Bytes) : Bytes :=
  if p == [] then data else
  let padded := if data.length < pos then data ++ List.replicate (pos - data.length) 0 else data
  padded.take pos ++ p ++ padded.drop (pos + p.length)

def write (b : BF) (p : Bytes) : BF × R × Nat :=
  if !b.canWrite then (b, .permission, 0) else
  let at_ := if b.append then b.data.length else b.pos
  ({ b with data := writeBytes b.data at_ p, pos := at_ + p.length, dirty := true }, .ok, p.length)

def readAt (b : BF) (n : Nat) (off : Int) : BF × R × Bytes :=
  if !b.canRead then (b, .permission, []) else
  if off < 0 then (b, .invalid, []) else
  (b, .ok, (b.data.drop off.toNat).take n)

def writeAt (b : BF) (p : Bytes) (off : Int) : BF × R × Nat :=
  if !b.canWrite then (b, .permission, 0) else
  if off < 0 then (b, .invalid, 0) else
  ({ b with data := writeBytes b.data off.toNat p, dirty := true }, .ok, p.length)

def truncate (b : BF) (size : Int) : BF × R :=
  if !b.canWrite then (b, .permission) else
  if size < 0 then (b, .invalid) else
  let n := size.toNat
  ({ b with data := if n ≤ b.data.length then b.data.take n else b.data ++ List.replicate (n - b.data.length) 0, dirty := true }, .ok)

end Stfs.ByteFile
