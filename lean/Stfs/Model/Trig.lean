/-
  Triggers: decidable predicates over (model state, call) that delimit the regions in which
  the code is known to violate a property (the known findings of `/verif/known-findings.jsonl`).
  Each `…_partial` theorem assumes that no trigger relevant to it fires along the history; the
  driver reports the triggers that fire so that a violation observed on the implementation can
  be classified.  Triggers are evaluated on the state *before* the call.
-/
import Stfs.Model.Sys
namespace Stfs
namespace Trig

/-- read-only lookup of the live row a caller path designates (root cache writes discarded) -/
def liveRow (w : World) (name : Name) : Option Row :=
  match (stat name false w).2 with
  | .ok _ => (match (w.idx.getHeader name).2 with
      | .ok r => some r
      | .error _ => (match (w.idx.getHeader (trimSuffix name [slash] ++ [slash])).2 with
          | .ok r => some r
          | .error _ => none))
  | .error _ => none

def existsPlain (w : World) (name : Name) : Bool := (liveRow w name).isSome

def isDirAt (w : World) (name : Name) : Bool :=
  match liveRow w name with
  | some r => r.hdr.typeflag == tfDir
  | none => false

/-- the parent of `name` exists but is not a directory -/
def parentNotDir (w : World) (name : Name) : Bool :=
  existsPlain w (dir name) && !isDirAt w (dir name)

/-- the rows `Delete`/`Move` would emit records for -/
def affectedRows (w : World) (name : Name) (dirOnlyWhenNoLink : Bool) : Option (List Row) :=
  match (lookupForWrite w.idx name).2 with
  | .error _ => none
  | .ok r =>
    let kids := if r.hdr.typeflag == tfDir && (!dirOnlyWhenNoLink || r.linkname == [])
      then (w.idx.getHeaderChildren name).2 else []
    some (r :: kids)

/-- live rows that are textually beneath `d` (what a subtree operation *should* touch) -/
def trueDescendants (w : World) (d : Name) : List Row :=
  let (_, sd) := w.idx.sanitize d
  let pre := trimSuffix sd [slash] ++ [slash]
  w.idx.rows.filter (fun r => r.live && hasPrefix r.name pre && r.name != pre && r.name != sd)

/-- the `LIKE` query of `GetHeaderChildren` returns something other than the true descendants -/
def likeDeviates (w : World) (d : Name) : Bool :=
  ((w.idx.getHeaderChildren d).2.map (fun r => (r.name, r.linkname))) != ((trueDescendants w d).map (fun r => (r.name, r.linkname)))

/-- the direct-children query returns something other than the live rows whose parent is `d` -/
def listingDeviates (w : World) (d : Name) : Bool :=
  match (w.idx.getHeaderDirectChildren d (-1)).2 with
  | .error _ => true
  | .ok rows =>
    let (_, sd) := w.idx.sanitize d
    let want := w.idx.rows.filter (fun r => r.live && r.linkname == [] && !isRoot r.name false &&
      clean (slash :: Stfs.dir (trimSuffix r.name [slash])) == clean (slash :: sd) && r.name != sd)
    rows.map (·.name) != want.map (·.name)

def anySymlinkRow (w : World) : Bool := w.idx.rows.any (fun r => r.linkname != [])

/-- some ancestor of `p` (excluding `p` itself and the root) has no live row -/
def missingAncestor (w : World) (p : Name) : Bool :=
  let comps := (splitOn slash p).filter (· != [])
  let rec go : List Name → Name → Bool
    | [], _ => false
    | [_], _ => false
    | c :: rest, acc =>
      let q := if acc == [slash] then acc ++ c else acc ++ slash :: c
      !existsPlain w q || go rest q
  go comps [slash]

/-- a Move would collide with a key that is already in the table (live or tombstone) -/
def moveCollides (w : World) (old new : Name) : Bool :=
  match affectedRows w old false with
  | none => false
  | some rows =>
    rows.any (fun r =>
      let target := pjoin [moveTarget r.name new, trimPrefix (trimPrefix r.name [slash]) (trimPrefix old [slash])]
      let (_, st) := w.idx.sanitize target
      Idx.hasKey w.idx.rows st r.linkname)

/-- triggers that are properties of a state (evaluated on the state a call leaves behind):
    some directory's listing deviates from its true children -/
def anyListingDeviates (w : World) : Bool :=
  w.idx.rows.any (fun r => r.live && r.hdr.typeflag == tfDir && r.linkname == [] && listingDeviates w r.name)

def evalPost (f : FsCfg) (s : Sys) : List String :=
  let w := s.w
  -- the same question on the index a from-scratch rebuild of the tape produces (names are
  -- stored relative to the root there, so a prefix recurs more easily: `ab/ab/a`)
  let rebuilt := (rebuildOp f { w with idx := {} }).1
  (if w.tape.any (fun it => match it with
      | .recd h _ _ _ => (h.pax.get Gen.recSTFSRecordReplacesName).isSome
      | .trailer => false) then ["tapeHasMoveRecord"] else []) ++
  (if f.c.emptyRestoreFails && w.idx.rows.any (fun r => r.live && r.hdr.isRegular && r.hdr.size == 0 &&
        (r.hdr.pax.get Gen.recSTFSRecordUncompressedSize).isNone) then ["only:emptyFileUnderCodec"] else []) ++
  (if anyListingDeviates w then ["listingDeviates"] else []) ++
  (if anyListingDeviates rebuilt then ["listingDeviatesAfterRebuild"] else [])

/-- triggers of a call in a state -/
def eval (f : FsCfg) (s : Sys) (c : Call) : List String :=
  let w := s.w
  let t (b : Bool) (n : String) : List String := if b then [n] else []
  let base : List String := t (anySymlinkRow w) "symlinkPresent" ++ t w.stuck "alreadyStuck" ++
    t (s.blockedBy c.handleId) "partialRead"
  let spec : List String :=
    match c with
    | .mkdir n _ => t (parentNotDir w (clean n)) "parentNotDir"
    | .mkdirAll n _ =>
      let p := clean n
      t (missingAncestor w p) "mkdirAllMultiLevel" ++ t (parentNotDir w p) "parentNotDir" ++
      t ((splitOn slash p).any (fun c => (splitOn 58 c).length > 1)) "colonInPath"
    | .create _ n => t (parentNotDir w (clean n)) "parentNotDir" ++
        t (match liveRow w (clean n) with
           | some r => r.hdr.size != 0 && r.hdr.typeflag == tfReg
           | none => false) "truncOpenExisting"
    | .openFile _ n flag _ =>
      t (hasFlag flag O_CREATE && parentNotDir w (clean n)) "parentNotDir" ++
      t (hasFlag flag O_EXCL) "exclFlag" ++
      t (hasFlag flag O_APPEND) "appendFlag" ++
      t (hasFlag flag O_TRUNC && (match liveRow w (clean n) with
           | some r => r.hdr.size != 0 && r.hdr.typeflag == tfReg
           | none => false)) "truncOpenExisting"
    | .removeAll n =>
      t ((affectedRows w (clean n) true).isNone) "removeAllMissing" ++ t (likeDeviates w (clean n)) "likeDeviates" ++
      t (isRoot (clean n) false || clean n == w.idx.root) "removeRoot"
    | .remove n => t (isDirAt w (clean n) && listingDeviates w (clean n)) "listingDeviates" ++
      t (isDirAt w (clean n) && likeDeviates w (clean n)) "likeDeviates" ++
      t (isRoot (clean n) false || clean n == w.idx.root) "removeRoot"
    | .rename a b =>
      let a := clean a
      let b := clean b
      t (existsPlain w b) "renameOntoExisting" ++
      -- the caller may spell either name without its leading slash
      t (hasPrefix (trimPrefix b [slash]) (trimPrefix a [slash] ++ [slash])) "renameIntoSelf" ++
      t (parentNotDir w b) "parentNotDir" ++
      t (isDirAt w a && likeDeviates w a) "likeDeviates" ++
      t (existsPlain w a && !existsPlain w b && moveCollides w a b) "moveOntoUsedKey"
    | .open_ _ n => t (n == []) "emptyName"
    | .cat n => t (f.c.emptyDecodeFails && (match liveRow w (clean n) with
        | some r => (match fetchAt f.c w.tape r.recd r.blk with
            | some (h, _) => h.size == 0 && (h.pax.get Gen.recSTFSRecordUncompressedSize).isNone
            | none => false)
        | none => false)) "emptyReadUnderCodec"
    | .symlink _ _ => ["symlinkCall"]
    | .hwriteString id _ => t (match s.getHandle id with
        | some h => h.bufClosed
        | none => false) "useAfterSync"
    | .hwrite id _ => t (match s.getHandle id with
        | some h => h.bufClosed
        | none => false) "useAfterSync"
    | .hsync id => t (match s.getHandle id with
        | some h => h.bufClosed || (h.wbuf.isSome && !existsPlain w h.path)
        | none => false) "flushAfterRemoveOrSync"
    | .hclose id => t (match s.getHandle id with
        | some h => h.bufClosed || (h.wbuf.isSome && !existsPlain w h.path)
        | none => false) "flushAfterRemoveOrSync" ++
      t (match s.getHandle id with
        | some h => h.wbuf.isSome && (match liveRow w h.path with
            | some r => r.hdr.attrs.uid != 0 || r.hdr.attrs.gid != 0
            | none => false)
        | none => false) "ownerResetOnFlush"
    | .hreaddir id _ => t (match s.getHandle id with
        | some h => h.info.isDir && listingDeviates w h.path
        | none => false) "listingDeviates"
    | _ => []
  base ++ spec

end Trig
end Stfs
