/-
  Basic vocabulary of the STFS model: names, headers, index rows, positions.

  Names are lists of Unicode code points (`List Nat`): equality is kernel-friendly,
  Go's byte-wise `strings.*`/`path.*` and SQLite's character-wise `length`/`LIKE` agree on
  valid UTF-8, and the `n!"…"` macro keeps witnesses readable.
-/
namespace Stfs

abbrev Name := List Nat

/-- `n!"/a_/x"` expands at elaboration time to the numeral list of code points, so that
    concrete witness theorems never have to reduce `String` functions in the kernel. -/
syntax "n!" str : term
macro_rules
  | `(n! $s:str) => do
      let cs := s.getString.toList.map (fun c => Lean.Syntax.mkNumLit (toString c.toNat))
      `(([$(cs.toArray),*] : List Nat))

def slash : Nat := 47
def dotc : Nat := 46

/-- tar typeflags used by STFS (`'0'`, `'5'`, `'2'`). -/
def tfReg : Nat := 48
def tfDir : Nat := 53
def tfSym : Nat := 50

/-- The attributes of a header the index stores but no index logic inspects. -/
structure Meta where
  mode : Int := 0
  uid : Int := 0
  gid : Int := 0
  uname : Name := []
  gname : Name := []
  mtime : Int := 0
  atime : Int := 0
  ctime : Int := 0
  devmajor : Int := 0
  devminor : Int := 0
  format : Int := 0
deriving DecidableEq, Repr, Inhabited

/-- PAX records as a key-sorted association list (Go marshals the map with sorted keys). -/
abbrev Pax := List (Name × Name)

def Pax.get (p : Pax) (k : Name) : Option Name := (p.find? (fun kv => kv.1 == k)).map (·.2)

/-- lexicographic `<` on names (byte order on ASCII, code point order otherwise). -/
def nameLt : Name → Name → Bool
  | [], [] => false
  | [], _ :: _ => true
  | _ :: _, [] => false
  | a :: as, b :: bs => if a < b then true else if b < a then false else nameLt as bs

def Pax.set (p : Pax) (k v : Name) : Pax :=
  match p with
  | [] => [(k, v)]
  | (k', v') :: rest =>
    if k' == k then (k, v) :: rest
    else if nameLt k k' then (k, v) :: (k', v') :: rest
    else (k', v') :: Pax.set rest k v

/-- A tar header as STFS sees it. -/
structure Hdr where
  typeflag : Nat := tfReg
  name : Name := []
  linkname : Name := []
  size : Int := 0
  attrs : Meta := {}
  pax : Pax := []
deriving DecidableEq, Repr, Inhabited

/-- A position on the tape: record number and block within the record. -/
structure Pos where
  recd : Int
  blk : Int
deriving DecidableEq, Repr, Inhabited

/-- One row of the `headers` table. -/
structure Row where
  hdr : Hdr
  recd : Int
  blk : Int
  lkRecd : Int
  lkBlk : Int
  deleted : Bool
deriving DecidableEq, Repr, Inhabited

abbrev Row.name (r : Row) : Name := r.hdr.name
abbrev Row.linkname (r : Row) : Name := r.hdr.linkname
abbrev Row.live (r : Row) : Bool := !r.deleted

/-- Error classes the model distinguishes (errors are mapped to this enum on both sides). -/
inductive Err
  | noRows            -- sql.ErrNoRows
  | unique            -- UNIQUE constraint failed
  | headerMissing     -- config.ErrTarHeaderMissing
  | actionUnsupported
  | versionUnsupported
  | badSize           -- strconv.Atoi failed
  | unexpectedEOF
  | noRoot            -- config.ErrNoRootDirectory
  | notExist | exist | permission | invalid | isDirectory | isFile | notEmpty
  | notImplemented
  | closed            -- write cache already closed by a flush
  | stuck             -- the call never returns (drive lock leaked earlier)
  | crash             -- the process panics
  | other
deriving DecidableEq, Repr, Inhabited

end Stfs
