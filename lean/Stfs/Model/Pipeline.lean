/-
  The content pipeline (pkg/operations/archive.go:91-253, update.go:77-241, pkg/recovery/fetch.go:105-145)
  over abstract codecs.

  A stage is a pair of functions; the only thing assumed about a real compressor or cipher is
  the round-trip law, stated as an explicit hypothesis (`Lawful`) on the theorems, and that the
  encoder is a function of its input *as far as the length is concerned* (the two-pass write
  relies on it: pass one counts, pass two writes).  The correspondence exercises the real
  encoders on every configuration; nothing about them is proved.
-/
import Stfs.Model.Tape
namespace Stfs.Pipeline
open Stfs

structure Codec where
  enc : Bytes → Bytes
  dec : Bytes → Option Bytes

def Codec.Lawful (c : Codec) : Prop := ∀ x, c.dec (c.enc x) = some x

/-- the identity stage (format "none") -/
def Codec.id : Codec := { enc := fun x => x, dec := fun x => some x }

/-- a signature over the plain content, carried in the header; verification after the last byte -/
structure Signer where
  sign : Bytes → Bytes
  verify : Bytes → Bytes → Bool

def Signer.Lawful (s : Signer) : Prop := ∀ x, s.verify x (s.sign x) = true

structure Pipe where
  compress : Codec
  encrypt : Codec
  signer : Signer

/-- what a write puts on the tape for content `x` -/
structure Written where
  stored : Bytes          -- the record's content: encrypt (compress x)
  storedSize : Nat        -- the tar header's size, learnt by the counting first pass
  uncompressedSize : Nat  -- STFS.UncompressedSize: the size the index reports
  signature : Bytes

/-- the two-pass write: pass one pipes the content through sign → compress → encrypt into a
    counter, pass two re-reads the source and writes it -/
def write (p : Pipe) (x : Bytes) : Written :=
  let pass1 := (p.encrypt.enc (p.compress.enc x)).length
  let pass2 := p.encrypt.enc (p.compress.enc x)
  { stored := pass2, storedSize := pass1, uncompressedSize := x.length, signature := p.signer.sign x }

/-- the read pipeline: decrypt → decompress → verify (after the last byte) -/
def read (p : Pipe) (w : Written) : Option Bytes :=
  match p.encrypt.dec w.stored with
  | none => none
  | some c =>
    match p.compress.dec c with
    | none => none
    | some x => if p.signer.verify x w.signature then some x else none

end Stfs.Pipeline
