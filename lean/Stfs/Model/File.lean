/-
  The byte-level methods of `pkg/fs/file.go`: Read, ReadAt, Seek, WriteAt, Truncate, Stat,
  Name, on top of the write-cache / streaming-reader state of `Handle`.  The write cache is the
  file-backed cache (`os.File` semantics); the memory cache (`mattetti/filebuffer`) is modelled
  only where it behaves like a file (see `memOverwrite`).
-/
import Stfs.Model.Handle
namespace Stfs

def SEEK_SET : Int := 0
def SEEK_CUR : Int := 1
def SEEK_END : Int := 2

/-- `(bytes, eof)` of reading up to `n` bytes at `pos` -/
def takeAt (data : Bytes) (pos n : Nat) : Bytes × Bool :=
  let avail := data.length - pos
  if avail ≥ n then ((data.drop pos).take n, false) else (data.drop pos, true)

/-! ### the pure cores (what the theorems of C14 are about) -/

/-- `Read` on the write cache: bytes, new cursor, EOF (only when nothing is left) -/
def cacheRead (buf : Bytes) (cur n : Nat) : Bytes × Nat × Bool :=
  if cur ≥ buf.length then ([], cur, true)
  else ((buf.drop cur).take n, cur + ((buf.drop cur).take n).length, false)

/-- `Seek` on the write cache: new cursor and returned offset; `none` = EINVAL -/
def cacheSeek (buf : Bytes) (cur : Nat) (offset whence : Int) : Option (Nat × Int) :=
  let abs : Option Int :=
    if whence == SEEK_SET then some offset
    else if whence == SEEK_CUR then some (cur + offset)
    else if whence == SEEK_END then some (buf.length + offset)
    else none
  match abs with
  | none => none
  | some a => if a < 0 then none else some (a.toNat, a)

/-- `Truncate` on the write cache as `File.Truncate` drives it: growing first empties the cache
    and then writes `size` zero bytes at the unchanged cursor; `none` = EINVAL -/
def cacheTruncate (buf : Bytes) (cur : Nat) (size : Int) : Option (Bytes × Nat) :=
  if size > buf.length then some (List.replicate (cur + size.toNat) 0, cur + size.toNat)
  else if size < 0 then none
  else some (buf.take size.toNat, cur)

/-- `Read` on the stream: bytes, new position, EOF (whenever fewer than requested remain) -/
def streamRead (data : Bytes) (pos n : Nat) : Bytes × Nat × Bool :=
  ((takeAt data pos n).1, pos + (takeAt data pos n).1.length, (takeAt data pos n).2)

/-- `Seek` on the stream, given the target `dst` (`want = dst - pos > 0`): new position and the
    value returned — the distance skipped, or, when the stream ends first, a whence-dependent value -/
def streamSkip (data : Bytes) (pos : Nat) (want : Int) (atEOF : Int) : Nat × Int :=
  if want ≤ 0 then (pos, 0)
  else if (data.length - pos : Int) ≥ want then (pos + want.toNat, want)
  else (data.length, atEOF)

/-- start (or restart) the streaming read: `Restore` runs in a goroutine that hands any error
    other than a closed pipe to the reading side -/
def startReader (f : FsCfg) (h : Handle) : M Handle := do
  match ← M.attempt (restoreContent f h.path) with
  | .ok data =>
    match ← fetchedHeader f h.path with
    | some hd =>
      if hd.typeflag == tfDir then M.wedge .stuck
      else if f.c.emptyDecodeFails && hd.size == 0 && (hd.pax.get Gen.recSTFSRecordUncompressedSize).isNone then M.fail f.c.emptyReadErr
      else pure { h with reader := some (data, 0) }
    | none => pure { h with reader := some (data, 0) }
  | .error .stuck => M.fail .stuck
  | .error _ => M.fail .other

/-- `File.Read(p)` with `len(p) = n`: bytes, and whether `io.EOF` came with them -/
def hRead (f : FsCfg) (h : Handle) (n : Nat) : M (Handle × Bytes × Bool) := do
  if !h.flags.read then M.fail .permission else
  if n == 0 then pure (h, [], false) else
  if h.info.isDir then M.fail .isDirectory else
  match h.wbuf with
  | some (buf, cur) =>
    if h.bufClosed then M.fail .closed else
    let r := cacheRead buf cur n
    pure ({ h with wbuf := some (buf, r.2.1) }, r.1, r.2.2)
  | none =>
    let h ← (match h.reader with
      | some _ => pure h
      | none => startReader f h)
    match h.reader with
    | none => M.fail .other
    | some (data, pos) =>
      let r := streamRead data pos n
      pure ({ h with reader := some (data, r.2.1) }, r.1, r.2.2)

/-- the (re)start of the stream inside `Seek`.  A `Restore` that fails is noticed only when bytes
    are asked for: the goroutine hands its error to the pipe, and `io.CopyN` with a non-positive
    count (`lazyOk`) never reads from it. -/
def seekStart (f : FsCfg) (h : Handle) (lazyOk : Bool) : M Handle := do
  match ← M.attempt (startReader f { h with reader := none }) with
  | .ok h' => pure h'
  | .error .stuck => M.fail .stuck
  | .error e => if lazyOk then pure { h with reader := none } else M.fail e

/-- `seekWithoutLocking`: note the return value in streaming mode — the number of bytes
    skipped, not the new offset — and `SeekEnd` subtracting the offset (finding F23) -/
def hSeekNoLock (f : FsCfg) (h : Handle) (offset : Int) (whence : Int) : M (Handle × Int) := do
  if h.info.isDir then pure (h, 0) else
  match h.wbuf with
  | some (buf, cur) =>
    if h.bufClosed then M.fail .closed else
    match cacheSeek buf cur offset whence with
    | none => M.fail .other        -- EINVAL from the cache file
    | some (c, a) => pure ({ h with wbuf := some (buf, c) }, a)
  | none =>
    let cur : Int := match h.reader with
      | some (_, pos) => pos
      | none => 0
    if !(whence == SEEK_SET || whence == SEEK_CUR || whence == SEEK_END) then M.fail .notImplemented else
    let dst : Int := if whence == SEEK_SET then offset else if whence == SEEK_CUR then cur + offset else h.info.size - offset
    let h ← (if h.reader.isNone || dst < cur then seekStart f h (decide (dst ≤ 0)) else pure h)
    match h.reader with
    | none => if dst ≤ 0 then pure (h, 0) else M.fail .other
    | some (data, pos) =>
      -- `io.CopyN` with a non-positive count copies nothing; on EOF while skipping the whole stream
      -- is consumed and the value returned depends on whence
      let r := streamSkip data pos (dst - pos)
        (if whence == SEEK_SET then offset else if whence == SEEK_CUR then data.length + offset else h.info.size - offset)
      pure ({ h with reader := some (data, r.1) }, r.2)

/-- `File.ReadAt` = `Seek(off, SeekStart)` then `Read` -/
def hReadAt (f : FsCfg) (h : Handle) (n : Nat) (off : Int) : M (Handle × Bytes × Bool) := do
  if !h.flags.read then M.fail .permission else
  if n == 0 then pure (h, [], false) else
  if h.info.isDir then M.fail .isDirectory else
  let (h, _) ← hSeekNoLock f h off SEEK_SET
  hRead f h n

/-- the part of `WriteAt` after `enterWriteMode` (the handle keeps its write cache when this fails) -/
def hWriteAtCore (f : FsCfg) (h : Handle) (p : Bytes) (off : Int) : M (Handle × Nat) := do
  let (h, _) ← hSeekNoLock f h off SEEK_SET
  if h.bufClosed then M.fail .closed else
  match h.wbuf with
  | none => M.fail .other
  | some (buf, cur) => pure ({ h with wbuf := some (writeAt buf cur p, cur + p.length) }, p.length)

def hWriteAt (f : FsCfg) (h : Handle) (p : Bytes) (off : Int) : M (Handle × Nat) := do
  if h.info.isDir then M.fail .isDirectory else
  if !h.flags.write then M.fail .permission else
  let h ← enterWriteMode f h
  hWriteAtCore f h p off

/-- the part of `Truncate` after `enterWriteMode` -/
def hTruncateCore (h : Handle) (size : Int) : M Handle := do
  if h.bufClosed then M.fail .closed else
  match h.wbuf with
  | none => M.fail .other
  | some (buf, cur) =>
    match cacheTruncate buf cur size with
    | none => M.fail .other
    | some (b, c) => pure { h with wbuf := some (b, c) }

/-- `File.Truncate`: growing replaces the content by zeros written at the (unchanged) cursor -/
def hTruncate (f : FsCfg) (h : Handle) (size : Int) : M Handle := do
  if h.info.isDir then M.fail .isDirectory else
  if !h.flags.write then M.fail .permission else
  let h ← enterWriteMode f h
  hTruncateCore h size

/-- the guards every write-side method starts with -/
def writeGuard (h : Handle) : Option Err :=
  if h.info.isDir then some .isDirectory else if !h.flags.write then some .permission else none

/-- `File.Stat`: the size follows the write cache; a handle reached through a symlink reports
    the link's base name -/
def hStat (h : Handle) : M (Handle × Info) := do
  if h.bufClosed then M.fail .closed else
  let info := match h.wbuf with
    | some (buf, _) => { h.info with size := buf.length }
    | none => h.info
  let h := { h with info := info }
  pure (h, if h.link != [] then { info with name := base h.link } else info)

def hName (h : Handle) : Name :=
  if h.link != [] then (if isRoot h.link false then [] else h.link)
  else if isRoot h.path false then [] else h.path

end Stfs
