/-
  Torn tapes: what `recovery.Index` makes of a tape that ends at an arbitrary byte, under the
  tar-reader contract (R1–R4 of DESIGN.md): a cut inside a header or a trailer ends the scan
  silently; a cut inside a record's content surfaces as `unexpected EOF` *after* the header was
  applied; a cut inside the padding after complete content goes unnoticed.
-/
import Stfs.Model.Indexer
import Stfs.Proofs.Scan
namespace Stfs

inductive Torn
  | clean                 -- the cut falls on an item boundary (or beyond the end)
  | header                -- inside the header blocks of a record, or inside a trailer
  | content (h : Hdr)     -- header complete, content cut short
  | padding (h : Hdr)     -- content complete, padding cut short
deriving Repr, Inhabited

/-- items completely before byte `c` (the tape starting at byte `s`), and what the cut did to
    the next item -/
def cutAt : Tape → (s c : Nat) → Tape × Torn
  | [], _, _ => ([], .clean)
  | it :: rest, s, c =>
    if s + it.blocks * 512 ≤ c then
      let (pre, t) := cutAt rest (s + it.blocks * 512) c
      (it :: pre, t)
    else if c ≤ s then ([], .clean)
    else match it with
      | .trailer => ([], .header)
      | .recd h hb stored _ =>
        if c < s + hb * 512 then ([], .header)
        else if c < s + hb * 512 + stored then ([], .content h)
        else ([], .padding h)

/-- a from-scratch rebuild (`overwrite`, real decrypt/verify callbacks) of the tape cut at byte `c` -/
def rebuildCut (cfg : Cfg) (t : Tape) (c : Nat) : Idx × Option Err :=
  let (pre, torn) := cutAt t 0 c
  match indexLoopIdeal cfg false 0 .tape {} 0 0 pre with
  | (p, some e) => (p, some e)
  | (p, none) =>
    match torn with
    | .clean => (p, none)
    | .header => (p, none)
    | .content h =>
      (match applyRec cfg p (posOfBlock cfg.rs (tapeBlocks pre)) h false with
       | (p', some e) => (p', some e)
       | (p', none) => (p', some .unexpectedEOF))
    | .padding h => applyRec cfg p (posOfBlock cfg.rs (tapeBlocks pre)) h false

end Stfs
