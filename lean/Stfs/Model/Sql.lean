/-
  The fragments of SQLite semantics the eleven queries of `metadata.go` rely on:
  `LIKE` (with `%`, `_`, ASCII case folding, no escape), `replace(x, y, '')`, `length`.
  Structurally recursive throughout.
-/
import Stfs.Model.Path
namespace Stfs

def percent : Nat := 37
def underscore : Nat := 95

def asciiFold (c : Nat) : Nat := if 65 ≤ c && c ≤ 90 then c + 32 else c

def suffixes : Name → List Name
  | [] => [[]]
  | c :: cs => (c :: cs) :: suffixes cs

/-- SQLite's default `s LIKE pat`. -/
def like : (pat s : Name) → Bool
  | [], s => s == []
  | p :: ps, s =>
    if p == percent then (suffixes s).any (fun t => like ps t)
    else match s with
      | [] => false
      | c :: cs => (p == underscore || asciiFold p == asciiFold c) && like ps cs

/-- `replace(x, y, '')`: remove every non-overlapping occurrence of `y`, left to right.
    `skip` counts the remaining characters of the occurrence being removed. -/
def sqlRemoveAux (y : Name) : Name → Nat → Name
  | [], _ => []
  | c :: cs, skip + 1 => sqlRemoveAux y cs skip
  | c :: cs, 0 => if hasPrefix (c :: cs) y then sqlRemoveAux y cs (y.length - 1) else c :: sqlRemoveAux y cs 0

def sqlRemove (x y : Name) : Name := if y == [] then x else sqlRemoveAux y x 0

/-- the `depth` column of `GetHeaderDirectChildren`:
    `length(replace(k, p, '')) - length(replace(replace(k, p, ''), '/', ''))` -/
def sqlDepth (k p : Name) : Nat := countSlash (sqlRemove k p)

end Stfs
