/-
  Key generation and parsing (pkg/utility/keygen.go, pkg/keys/identity.go) as a symbolic model.

  Key material is an opaque number (the pair's identity); a private half is stored either in
  clear or wrapped under a password.  Which of the two happens, per format, when the pair is
  generated and when it is parsed is *read from the source* on every run (Gen/KeyWrap.lean).
  The cryptographic primitives are ideal: unwrapping succeeds exactly under the wrapping
  password, decryption exactly with the private half of the pair that was encrypted to, a
  signature verifies exactly under the public half of the signing pair.
-/
import Stfs.Model.Basic
import Stfs.Gen.KeyWrap
namespace Stfs.Keys
open Stfs Stfs.Gen

inductive KFmt | age | pgp | minisign
deriving DecidableEq, Repr

/-- the stored private half -/
inductive Blob
  | plain (k : Nat)
  | wrapped (pw : Name) (k : Nat)
deriving DecidableEq, Repr

/-- what parsing returns: usable secret material, or (pgp) a key ring whose secret parts are
    still locked -/
inductive Ident
  | usable (k : Nat)
  | locked (k : Nat)
deriving DecidableEq, Repr

def applies (r : WrapRule) (pw : Name) : Bool :=
  match r with
  | .always => true
  | .iffNonEmpty => pw != []
  | .never => false

def keygenRule : KFmt → WrapRule
  | .age => ageKeygenWrap
  | .pgp => pgpKeygenWrap
  | .minisign => minisignKeygenWrap

def parseRule : KFmt → WrapRule
  | .age => ageParseUnwrap
  | .pgp => pgpParseUnwrap
  | .minisign => minisignParseUnwrap

/-- `utility.Keygen`: the private half of pair `k` as written to disk -/
def keygen (f : KFmt) (pw : Name) (k : Nat) : Blob :=
  if applies (keygenRule f) pw then .wrapped pw k else .plain k

/-- `keys.ParseIdentity` / `keys.ParseSignerIdentity` -/
def parse (f : KFmt) (b : Blob) (pw : Name) : Option Ident :=
  if applies (parseRule f) pw then
    match b with
    | .wrapped pw' k => if pw == pw' then some (.usable k) else none
    | .plain k =>
      -- unwrapping what is not wrapped: age and minisign reject the file; a pgp key that is
      -- not encrypted "decrypts" trivially
      match f with
      | .pgp => some (.usable k)
      | _ => none
  else
    match b with
    | .plain k => some (.usable k)
    | .wrapped _ k =>
      match f with
      | .pgp => some (.locked k)     -- the key ring parses; nothing was decrypted
      | _ => none                    -- not a textual identity

/-- decrypting data encrypted to pair `k` / verifying under pair `k` what this identity signed -/
def works (i : Ident) (k : Nat) : Bool :=
  match i with
  | .usable k' => k' == k
  | .locked _ => false

/-- the pgp-with-empty-password region (finding F26) -/
def pgpEmptyPassword (f : KFmt) (genPw parsePw : Name) : Bool := f == .pgp && (genPw == [] || parsePw == [])

end Stfs.Keys
