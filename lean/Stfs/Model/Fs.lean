/-
  `pkg/fs/filesystem.go` and `pkg/inventory`: one function per exported method of `*STFS`,
  mirroring the order of the `inventory.Stat` probes and the error each maps to.
  State changes made before an error (the persister's root cache, a leaked drive lock, an
  already appended record) persist: `M` is a state monad whose errors do not roll back.
-/
import Stfs.Model.Ops
namespace Stfs
open Gen

/-- instance-level configuration of `STFS` -/
structure FsCfg where
  c : Cfg := {}
  readOnly : Bool := false
  writePermImpliesReadPerm : Bool := true
  uid : Int := 0
  gid : Int := 0
  uname : Name := []
  gname : Name := []
  hasWriteOps : Bool := true
deriving Repr, Inhabited

/-- per-call oracle inputs: `time.Now()` and the per-record layout inputs -/
structure Env where
  now : Int := 0
  recs : EnvRecs := []
deriving Repr, Inhabited

def M (α : Type) := World → World × Except Err α

instance : Monad M where
  pure a := fun w => (w, .ok a)
  bind m f := fun w => match m w with
    | (w, .ok a) => f a w
    | (w, .error e) => (w, .error e)

def M.fail {α} (e : Err) : M α := fun w => (w, .error e)
def M.get : M World := fun w => (w, .ok w)
/-- fail while leaving the drive locked (an error return between `GetWriter` and `CloseWriter`) -/
def M.wedge {α} (e : Err) : M α := fun w => ({ w with stuck := true }, .error e)
/-- run a persister method that threads the index -/
def M.idx {α} (f : Idx → Idx × Except Err α) : M α := fun w =>
  let (p, r) := f w.idx
  ({ w with idx := p }, r)
def M.idx' {α} (f : Idx → Idx × α) : M α := fun w =>
  let (p, r) := f w.idx
  ({ w with idx := p }, .ok r)
/-- run an operation that returns `Option Err` -/
def M.op (f : World → World × Option Err) : M Unit := fun w =>
  match f w with
  | (w, none) => (w, .ok ())
  | (w, some e) => (w, .error e)
/-- `try`: never fails, returns the outcome -/
def M.attempt {α} (m : M α) : M (Except Err α) := fun w =>
  let (w, r) := m w
  (w, .ok r)

/-- `inventory.Stat`.  Returns the header the row converts to (name/linkname swapped for
    symlink lookups) -/
def stat (name : Name) (symlink : Bool) : M Hdr := do
  let (name, linkname) ← (if symlink then do
      let link ← (do
        match ← M.attempt (M.idx (·.getHeaderByLinkname name)) with
        | .ok l => pure l
        | .error .noRows => M.idx (·.getHeaderByLinkname (trimSuffix name [slash] ++ [slash]))
        | .error e => M.fail e)
      pure (link.name, link.linkname)
    else pure (name, name))
  let row ← (do
    match ← M.attempt (M.idx (·.getHeader name)) with
    | .ok r => pure r
    | .error .noRows => M.idx (·.getHeader (trimSuffix name [slash] ++ [slash]))
    | .error e => M.fail e)
  if !symlink && row.linkname != [] then M.fail .noRows else
  if symlink then pure { row.hdr with name := linkname, linkname := name }
  else pure row.hdr

/-- `inventory.List` -/
def list (name : Name) (limit : Int) : M (List Hdr) := do
  let rows ← M.idx (·.getHeaderDirectChildren name limit)
  pure (rows.map (·.hdr))

/-- map `sql.ErrNoRows` of a probe to `os.ErrNotExist` -/
def notExistIfNoRows {α} (m : M α) : M α := fun w =>
  match m w with
  | (w, .error .noRows) => (w, .error .notExist)
  | r => r

def permBits (perm : Int) : Int := perm % 512

/-- `mknodWithoutLocking` -/
def mknod (f : FsCfg) (env : Env) (isDir : Bool) (name : Name) (perm : Int) (overwrite : Bool)
    (linkname : Name) (initializing : Bool) : M Unit := do
  if f.readOnly then M.fail .permission else
  let typeflag := if isDir then tfDir else if linkname != [] then tfSym else tfReg
  let src : Src :=
    { path := name, link := linkname, typeflag := typeflag, size := 0
      attrs := { mode := permBits perm, uid := f.uid, gid := f.gid, uname := f.uname, gname := f.gname, mtime := env.now } }
  M.op (fun w => archive f.c w [src] overwrite initializing env.recs)

/-- the `mkdirRoot` closure of `Initialize` -/
def mkdirRoot (f : FsCfg) (env : Env) (rootProposal : Name) (rootPerm : Int) : M Name := do
  if f.readOnly then M.fail .permission else
  mknod f env true rootProposal rootPerm true [] true
  M.idx (·.getRootPath)

/-- the rebuild inside `Initialize`: `recovery.Index(0, 0, overwrite, not initializing, 0)` with
    the real decrypt/verify callbacks -/
def rebuildOp (f : FsCfg) (w : World) : World × Option Err :=
  ({ w with idx := (index f.c w.idx w.tape ⟨0, 0⟩ true false 0 .tape).1 },
   (index f.c w.idx w.tape ⟨0, 0⟩ true false 0 .tape).2)

/-- `STFS.Initialize`: an existing root is returned as is; otherwise the index is rebuilt from
    the tape; only when there is no readable tape, or the rebuild fails, a root is created with
    overwrite semantics (`mkdirRoot`).  Written as an explicit state transformer. -/
def initFs (f : FsCfg) (env : Env) (rootProposal : Name) (rootPerm : Int) : M Name := fun w =>
  match w.idx.getRootPath with
  | (q, .ok root) => ({ w with idx := q }, .ok root)
  | (q, .error .noRoot) =>
    if w.stuck then ({ w with idx := q }, .error .stuck)
    else if w.tape == [] then mkdirRoot f env rootProposal rootPerm { w with idx := q }     -- no readable tape
    else match rebuildOp f { w with idx := q } with
      | (w2, none) => ({ w2 with idx := (w2.idx.getRootPath).1 }, (w2.idx.getRootPath).2)
      | (w2, some _) => mkdirRoot f env rootProposal rootPerm w2
  | (q, .error e) => ({ w with idx := q }, .error e)

/-- the precondition part of `Mkdir`: read-only probes, returns the cleaned name -/
def mkdirGuard (f : FsCfg) (name : Name) : M Name := do
  if f.readOnly then M.fail .permission else
  let name := clean name
  let _ ← notExistIfNoRows (stat (dir name) false)
  if (← M.attempt (stat name false)).toBool then M.fail .exist else
  if (← M.attempt (stat name true)).toBool then M.fail .exist else
  pure name

def mkdir (f : FsCfg) (env : Env) (name : Name) (perm : Int) : M Unit :=
  mkdirGuard f name >>= fun name => mknod f env true name perm false [] false

/-- the loop body of `MkdirAll` for one element of `filepath.SplitList` -/
def mkdirAllStep (f : FsCfg) (env : Env) (perm : Int) (currentPath : Name) : M Unit := do
  match ← M.attempt (stat currentPath false) with
  | .ok h => if h.typeflag != tfDir then M.fail .isFile else pure ()
  | .error .noRows =>
    match ← M.attempt (stat currentPath true) with
    | .ok h => if h.typeflag != tfDir then M.fail .isFile else pure ()
    | .error .noRows => mknod f env true currentPath perm false [] false
    | .error e => M.fail e
  | .error e => M.fail e

def mkdirAllLoop (f : FsCfg) (env : Env) (perm : Int) : Name → List Name → M Unit
  | _, [] => pure ()
  | cur, part :: rest => do
    let cur := if cur == [] then part else pjoin [cur, part]
    mkdirAllStep f env perm cur
    mkdirAllLoop f env perm cur rest

def mkdirAll (f : FsCfg) (env : Env) (path : Name) (perm : Int) : M Unit := do
  if f.readOnly then M.fail .permission else
  mkdirAllLoop f env perm [] (splitList (clean path))

/-- the precondition part of `removeWithoutLocking`: exists, and is empty when a directory -/
def removeGuard (f : FsCfg) (name : Name) : M Unit := do
  if f.readOnly then M.fail .permission else
  let h ← (do
    match ← M.attempt (stat name false) with
    | .ok h => pure h
    | .error .noRows => notExistIfNoRows (stat name true)
    | .error e => M.fail e)
  if h.typeflag == tfDir && h.linkname == [] then
    let hs ← list name (-1)
    if hs.length > 0 then M.fail .notEmpty else pure ()
  else pure ()

/-- `removeWithoutLocking` -/
def removeNoLock (f : FsCfg) (env : Env) (name : Name) : M Unit :=
  removeGuard f name >>= fun _ => M.op (fun w => delete f.c w name env.recs)

def remove (f : FsCfg) (env : Env) (name : Name) : M Unit :=
  if f.readOnly then M.fail .permission else
  removeNoLock f env (clean name)

def removeAll (f : FsCfg) (env : Env) (path : Name) : M Unit := do
  if f.readOnly then M.fail .permission else
  match ← M.attempt (M.op (fun w => delete f.c w (clean path) env.recs)) with
  | .ok _ => pure ()
  | .error .noRows => pure ()
  | .error e => M.fail e

/-- the precondition part of `Rename`: cleaned names and whether the target exists -/
def renameGuard (f : FsCfg) (oldname newname : Name) : M (Name × Name × Bool) := do
  if f.readOnly then M.fail .permission else
  if oldname == [] || newname == [] then M.fail .invalid else
  let oldname := clean oldname
  let newname := clean newname
  match ← M.attempt (M.idx (·.getRootPath)) with
  | .error _ => M.fail .invalid
  | .ok root =>
  if root == oldname then M.fail .invalid else
  let source ← (do
    match ← M.attempt (stat oldname false) with
    | .ok h => pure h
    | .error .noRows => notExistIfNoRows (stat oldname true)
    | .error e => M.fail e)
  let _ ← notExistIfNoRows (stat (dir newname) false)
  match ← M.attempt (stat newname false) with
  | .ok target =>
    if target.typeflag != source.typeflag then M.fail .exist else pure (oldname, newname, true)
  | .error _ => pure (oldname, newname, false)

def rename (f : FsCfg) (env : Env) (oldname newname : Name) : M Unit :=
  renameGuard f oldname newname >>= fun (oldname, newname, targetExists) =>
    if targetExists then removeNoLock f env newname      -- and then returns without moving
    else M.op (fun w => move f.c w oldname newname env.recs)

/-- the lookup shared by `Stat`, and the `name → symlink → target` chain of `Chmod/Chown/Chtimes` -/
def statOrLink (name : Name) : M Hdr := do
  match ← M.attempt (stat name false) with
  | .ok h => pure h
  | .error .noRows => notExistIfNoRows (stat name true)
  | .error e => M.fail e

def fsStat (name : Name) : M Hdr := statOrLink (clean name)

def statForUpdate (name : Name) : M Hdr := do
  match ← M.attempt (stat name false) with
  | .ok h => pure h
  | .error .noRows =>
    let l ← notExistIfNoRows (stat name true)
    notExistIfNoRows (stat l.linkname false)
  | .error e => M.fail e

/-- `updateMetadata`: the header goes through `hdr.FileInfo()` and `tar.FileInfoHeader` -/
def updateMetadata (f : FsCfg) (env : Env) (h : Hdr) : M Unit := do
  if f.readOnly then M.fail .permission else
  let src : Src :=
    { path := h.name, link := h.linkname, typeflag := h.typeflag, size := h.size
      attrs := { h.attrs with mode := permBits h.attrs.mode }, pax := h.pax }
  M.op (fun w => update f.c w [src] false false env.recs)

/-- the precondition part of `Chmod`/`Chown`/`Chtimes`: the header to update -/
def attrGuard (f : FsCfg) (name : Name) : M Hdr := do
  if f.readOnly then M.fail .permission else
  if name == [] then M.fail .invalid else
  statForUpdate (clean name)

def chmod (f : FsCfg) (env : Env) (name : Name) (mode : Int) : M Unit :=
  attrGuard f name >>= fun h => updateMetadata f env { h with attrs := { h.attrs with mode := mode } }

def chown (f : FsCfg) (env : Env) (name : Name) (uid gid : Int) : M Unit :=
  attrGuard f name >>= fun h => updateMetadata f env { h with attrs := { h.attrs with uid := uid, gid := gid } }

def chtimes (f : FsCfg) (env : Env) (name : Name) (atime mtime : Int) : M Unit :=
  attrGuard f name >>= fun h => updateMetadata f env { h with attrs := { h.attrs with atime := atime, mtime := mtime } }

/-- `lstatIfPossibleWithoutLocking`: header and `path.Base(hdr.Linkname)` -/
def lstatNoLock (name : Name) : M (Hdr × Name) := do
  let h ← notExistIfNoRows (stat name true)
  pure (h, base h.linkname)

def lstat (name : Name) : M Hdr := do
  if name == [] then M.fail .invalid else
  let (h, _) ← lstatNoLock (clean name)
  pure h

def readlink (name : Name) : M Name := do
  if name == [] then M.fail .invalid else
  let (_, l) ← lstatNoLock (clean name)
  pure l

def resolveCleanName (name : Name) : M Name := do
  if isRoot name true then
    let r ← M.idx (·.getRootPath)
    pure (clean r)
  else pure (clean name)

/-- the precondition part of `SymlinkIfPossible`: resolved names -/
def symlinkGuard (f : FsCfg) (oldname newname : Name) : M (Name × Name) := do
  if f.readOnly then M.fail .permission else
  if oldname == [] || newname == [] then M.fail .invalid else
  let rawOld := oldname
  let oldname ← resolveCleanName oldname
  let rawNew := newname
  let newname ← resolveCleanName newname
  let _ ← notExistIfNoRows (stat (dir newname) false)
  if isRoot rawNew false && isRoot rawOld false then M.fail .exist else
  if !isRoot rawNew true && (← M.attempt (stat newname false)).toBool then M.fail .exist else
  pure (oldname, newname)

def symlink (f : FsCfg) (env : Env) (oldname newname : Name) : M Unit :=
  symlinkGuard f oldname newname >>= fun (oldname, newname) => mknod f env false oldname 511 false newname false

/-! ### OpenFile -/

def O_WRONLY : Nat := 1
def O_RDWR : Nat := 2
def O_CREATE : Nat := 64
def O_EXCL : Nat := 128
def O_TRUNC : Nat := 512
def O_APPEND : Nat := 1024

structure FileFlags where
  read : Bool := false
  write : Bool := false
  append : Bool := false
  truncate : Bool := false
deriving DecidableEq, Repr, Inhabited

def hasFlag (flag bit : Nat) : Bool := flag / bit % 2 == 1

def openFlags (f : FsCfg) (flag : Nat) : FileFlags :=
  let acc := flag % 4
  if f.readOnly then { read := acc == 0 || acc == O_RDWR }
  else
    { read := acc == 0 || acc == O_RDWR || (acc == O_WRONLY && f.writePermImpliesReadPerm)
      write := acc == O_WRONLY || acc == O_RDWR
      append := hasFlag flag O_APPEND
      truncate := hasFlag flag O_TRUNC }

/-- what `OpenFile` hands to `NewFile` -/
structure Opened where
  path : Name
  link : Name
  flags : FileFlags
  hdr : Hdr
deriving Repr, Inhabited

def openFile (f : FsCfg) (env : Env) (name : Name) (flag : Nat) (perm : Int) : M Opened := do
  if name == [] then M.fail .invalid else
  let name := clean name
  let flags := openFlags f flag
  let mayCreate := !f.readOnly && hasFlag flag O_CREATE && !hasFlag flag O_EXCL
  let createFile : M Hdr := do
    if mayCreate then
      let _ ← notExistIfNoRows (stat (dir name) false)
      match ← M.attempt (stat name true) with
      | .ok target => if target.typeflag == tfDir then M.fail .isDirectory else pure ()
      | .error _ => pure ()
      mknod f env false name perm false [] false
      notExistIfNoRows (stat name false)
    else M.fail .notExist
  let hdr ← (do
    match ← M.attempt (stat name false) with
    | .ok h => pure h
    | .error .noRows =>
      match ← M.attempt (stat name true) with
      | .error .noRows => createFile
      | .error e => M.fail e
      | .ok l =>
        let linkname := l.name
        let r1 ← M.attempt (stat l.linkname false)
        let r2 ← (match r1 with
          | .ok h1 => if mayCreate then M.attempt (stat h1.linkname true) else pure (.ok h1)
          | .error e => pure (.error e))
        let h ← (match r2 with
          | .ok h => pure h
          | .error .noRows => createFile
          | .error e => M.fail e)
        pure { h with linkname := linkname }
    | .error e => M.fail e)
  if hdr.typeflag == tfDir && (flags.write || flags.append || flags.truncate) then M.fail .isDirectory else
  pure { path := hdr.name, link := hdr.linkname, flags := flags, hdr := hdr }

def create (f : FsCfg) (env : Env) (name : Name) : M Opened := do
  if f.readOnly then M.fail .permission else
  if name == [] then M.fail .invalid else
  let name := clean name
  let _ ← notExistIfNoRows (stat (dir name) false)
  openFile f env name (O_RDWR + O_CREATE + O_TRUNC) 438

def fsOpen (f : FsCfg) (env : Env) (name : Name) : M Opened := openFile f env (clean name) 0 0

end Stfs
