/-
  Go's `strings.{HasPrefix,HasSuffix,TrimPrefix,TrimSuffix}`, `path.{Clean,Dir,Base,Join}`
  (= `filepath.*` on Linux), `filepath.SplitList` and `pathext.IsRoot`, over `Name`.
  Everything is structurally recursive so that `decide` can evaluate witnesses.
-/
import Stfs.Model.Basic
namespace Stfs

def hasPrefix : Name → Name → Bool
  | _, [] => true
  | [], _ :: _ => false
  | a :: as, p :: ps => a == p && hasPrefix as ps

def trimPrefix (s p : Name) : Name := if hasPrefix s p then s.drop p.length else s

def hasSuffix (s p : Name) : Bool := hasPrefix s.reverse p.reverse

def trimSuffix (s p : Name) : Name := if hasSuffix s p then s.take (s.length - p.length) else s

/-- split on a separator; always returns at least one (possibly empty) component -/
def splitOnAux (sep : Nat) : Name → Name → List Name
  | [], cur => [cur.reverse]
  | c :: cs, cur => if c == sep then cur.reverse :: splitOnAux sep cs [] else splitOnAux sep cs (c :: cur)

def splitOn (sep : Nat) (s : Name) : List Name := splitOnAux sep s []

def joinWith (sep : Nat) : List Name → Name
  | [] => []
  | [x] => x
  | x :: xs => x ++ sep :: joinWith sep xs

def dotdot : Name := [dotc, dotc]

/-- one step of the component machine of `path.Clean`; the stack is kept reversed -/
def cleanStep (rooted : Bool) (stack : List Name) (c : Name) : List Name :=
  if c == [] || c == [dotc] then stack
  else if c == dotdot then
    match stack with
    | [] => if rooted then [] else [dotdot]
    | top :: rest => if top == dotdot then dotdot :: top :: rest else rest
  else c :: stack

/-- Go `path.Clean` (Plan 9 lexical algorithm), component-wise. -/
def clean (p : Name) : Name :=
  if p == [] then [dotc] else
  let rooted := p.head? == some slash
  let stack := (splitOn slash p).foldl (cleanStep rooted) []
  let body := joinWith slash stack.reverse
  if rooted then slash :: body else if body == [] then [dotc] else body

/-- index one past the last slash: `p.take (lastSlashEnd p)` is Go's `Split` directory part -/
def dirPart (p : Name) : Name :=
  (p.reverse.dropWhile (· != slash)).reverse

/-- Go `path.Dir` / `filepath.Dir`. -/
def dir (p : Name) : Name := clean (dirPart p)

/-- Go `path.Base`. -/
def base (p : Name) : Name :=
  if p == [] then [dotc] else
  let q := (p.reverse.dropWhile (· == slash)).reverse      -- strip trailing slashes
  if q == [] then [slash] else
  (q.reverse.takeWhile (· != slash)).reverse

/-- the concatenation phase of Go `path.Join`: leading empty elements are skipped, after
    the first non-empty one every element is appended behind a slash -/
def joinBuf : Name → List Name → Name
  | buf, [] => buf
  | buf, e :: es =>
    if buf != [] then joinBuf (buf ++ slash :: e) es
    else if e != [] then joinBuf e es
    else joinBuf buf es

/-- Go `path.Join`. -/
def pjoin (elems : List Name) : Name :=
  if elems.all (· == []) then [] else clean (joinBuf [] elems)

/-- `filepath.SplitList` on Unix: split on `:`; the empty string gives no elements. -/
def splitList (p : Name) : List Name := if p == [] then [] else splitOn 58 p

def isSpace (c : Nat) : Bool :=
  c == 32 || (9 ≤ c && c ≤ 13) || c == 0x85 || c == 0xA0 || c == 0x1680 ||
  (0x2000 ≤ c && c ≤ 0x200a) || c == 0x2028 || c == 0x2029 || c == 0x202f || c == 0x205f || c == 0x3000

/-- `pathext.IsRoot`. -/
def isRoot (p : Name) (trim : Bool) : Bool :=
  (trim && p.all isSpace) || p == [] || p == [dotc] || p == [slash] || p == [dotc, slash]

def isAbs (p : Name) : Bool := p.head? == some slash

def countSlash (p : Name) : Nat := p.count slash

end Stfs
