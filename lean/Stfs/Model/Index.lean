/-
  The index: table `headers` (rows in rowid order) plus the two cached fields of
  `persisters.MetadataPersister`.  One function per method of `pkg/persisters/metadata.go`,
  written to mirror the Go line by line (including its cache writes).
-/
import Stfs.Model.Sql
namespace Stfs

structure Idx where
  rows : List Row := []
  root : Name := []
  rootIsEmpty : Bool := false
deriving DecidableEq, Repr, Inhabited

namespace Idx

/-- rows with a given name, in primary-key (autoindex) order: ascending linkname.
    Insertion sort keeps this structurally recursive. -/
def insertByLink (r : Row) : List Row → List Row
  | [] => [r]
  | x :: xs => if nameLt r.linkname x.linkname then r :: x :: xs else x :: insertByLink r xs

def byName (rows : List Row) (n : Name) : List Row :=
  (rows.filter (fun r => r.name == n)).foldr insertByLink []

/-- `where name = ? and deleted != 1 limit 1` -/
def findLive (rows : List Row) (n : Name) : Option Row := (byName rows n).find? (·.live)

/-- `where linkname = ? and deleted != 1 limit 1` (table scan, rowid order) -/
def findLiveByLink (rows : List Row) (l : Name) : Option Row :=
  rows.find? (fun r => r.linkname == l && r.live)

def headerExistsExact (p : Idx) (n : Name) : Bool := (p.rows.any (fun r => r.name == n && r.live))

/-- `getSanitizedPath`, with its two cache writes. -/
def sanitize (p : Idx) (name : Name) : Idx × Name :=
  if isRoot name false || name == p.root then (p, p.root) else
  -- root not set, absolute incoming path, no header named "" known yet
  let probe : Idx × Option Name :=
    if p.root == [] && hasPrefix name [slash] && !p.rootIsEmpty then
      if !headerExistsExact p [] then ({ p with root := name }, some name)
      else ({ p with rootIsEmpty := true }, none)
    else (p, none)
  match probe with
  | (p, some r) => (p, r)
  | (p, none) =>
    if hasPrefix p.root [slash] && hasPrefix name [slash] then (p, name) else
    if p.root == [] then (p, pjoin [[], trimPrefix name [slash]])
    else if p.root == [dotc] then (p, pjoin [[dotc], trimPrefix name [slash]])
    else if p.root == [dotc, slash] then
      (p, [dotc, slash] ++ trimPrefix (trimPrefix name [dotc, slash]) [slash])
    else if p.root == [slash] then (p, pjoin [[slash], trimPrefix name [slash]])
    else if !(hasPrefix p.root [slash] || hasPrefix p.root [dotc, slash]) then (p, name)
    else (p, [dotc, slash] ++ clean (trimPrefix name [slash]))

/-- first live row attaining the minimum slash count (bare column with `min()`) -/
def minDepthRow : List Row → Option Row
  | [] => none
  | r :: rs =>
    if r.live then
      match minDepthRow rs with
      | none => some r
      | some m => if countSlash m.name < countSlash r.name then some m else some r
    else minDepthRow rs

def getRootPath (p : Idx) : Idx × Except Err Name :=
  if p.root != [] then (p, .ok p.root) else
  match minDepthRow p.rows with
  | none => (p, .error .noRoot)
  | some r => ({ p with root := r.name }, .ok r.name)

def hasKey (rows : List Row) (n l : Name) : Bool := rows.any (fun r => r.name == n && r.linkname == l)

/-- overwrite every non-key column of the row with key `(n, l)` -/
def setByKey (rows : List Row) (new : Row) : List Row :=
  rows.map (fun r => if r.name == new.name && r.linkname == new.linkname then new else r)

def mkRow (h : Hdr) (recd blk lkRecd lkBlk : Int) : Row :=
  { hdr := h, recd := recd, blk := blk, lkRecd := lkRecd, lkBlk := lkBlk, deleted := false }

/-- `UpsertHeader`: insert when the key is absent (ignoring `deleted`), then update all columns. -/
def upsertHeader (p : Idx) (r : Row) (initializing : Bool) : Idx :=
  let (p, n) := if initializing then (p, r.name) else sanitize p r.name
  let r := { r with hdr := { r.hdr with name := n } }
  if hasKey p.rows n r.linkname then { p with rows := setByKey p.rows r }
  else { p with rows := p.rows ++ [r] }

/-- `UpdateHeaderMetadata`: update by primary key; zero affected rows is not an error. -/
def updateHeaderMetadata (p : Idx) (r : Row) : Idx :=
  let (p, n) := sanitize p r.name
  let r := { r with hdr := { r.hdr with name := n } }
  { p with rows := setByKey p.rows r }

/-- `MoveHeader`: `update … set name = new, lastknown… where name = old`; UNIQUE aborts it. -/
def moveHeader (p : Idx) (old new : Name) (lkRecd lkBlk : Int) : Idx × Except Err Unit :=
  let (p, new) := sanitize p new
  let (p, old) := sanitize p old
  let affected := p.rows.filter (fun r => r.name == old)
  let conflict := old != new && affected.any (fun a => hasKey p.rows new a.linkname)
  if conflict then (p, .error .unique) else
  ({ p with rows := p.rows.map (fun r =>
      if r.name == old then { r with hdr := { r.hdr with name := new }, lkRecd := lkRecd, lkBlk := lkBlk } else r) },
   .ok ())

def getHeaders (p : Idx) : List Row := p.rows.filter (·.live)

def getHeader (p : Idx) (name : Name) : Idx × Except Err Row :=
  let (p, n) := sanitize p name
  match findLive p.rows n with
  | some r => (p, .ok r)
  | none => (p, .error .noRows)

def getHeaderByLinkname (p : Idx) (l : Name) : Idx × Except Err Row :=
  let (p, l) := sanitize p l
  match findLiveByLink p.rows l with
  | some r => (p, .ok r)
  | none => (p, .error .noRows)

/-- the Go post-filter shared by both children queries -/
def notSelf (name : Name) (r : Row) : Bool :=
  let prefix_ := trimSuffix r.name [slash]
  name != prefix_ && name != prefix_ ++ [slash]

def getHeaderChildren (p : Idx) (name : Name) : Idx × List Row :=
  let (p, name) := sanitize p name
  let pat := trimSuffix name [slash] ++ [slash, percent]
  let hs := p.rows.filter (fun r => like pat r.name && r.live)
  (p, hs.filter (notSelf name))

def minDepth (rows : List Row) : Option Nat :=
  (rows.filter (·.live)).foldl (fun acc r =>
    match acc with
    | none => some (countSlash r.name)
    | some m => some (min m (countSlash r.name))) none

def rootSpellings : List Name := [[], [dotc], [slash], [dotc, slash]]

/-- the SQL of `getHeaders(prefix, useLinkname)` inside `GetHeaderDirectChildren`;
    the result rows carry only the selected key column (the other one reads as `""`). -/
def directQuery (rows : List Row) (prefix_ : Name) (useLink : Bool) (rootDepth : Nat) (limit : Int) : List Row :=
  let sel := rows.filter (fun r =>
    let pk := if useLink then r.linkname else r.name
    let d := sqlDepth pk prefix_
    like (prefix_ ++ [percent]) pk
      && (d == rootDepth || (like [percent, slash] pk && d == rootDepth + 1))
      && r.live
      && (useLink || r.linkname == [])
      && !(rootSpellings.contains pk))
  let sel := if limit > 0 then sel.take (limit + 1).toNat else sel
  sel.map (fun r => if useLink then { r with hdr := { r.hdr with name := [] } }
                    else { r with hdr := { r.hdr with linkname := [] } })

/-- the re-targeting loop over link rows; stops at the first lookup error other than no-rows
    (the model's lookups have no other errors) -/
def retargetLinks (p : Idx) : List Row → Idx × List Row
  | [] => (p, [])
  | link :: rest =>
    let name := link.name
    let linkname := link.linkname
    let (p, res) := getHeader p name
    let out : Row := match res with
      | .ok target => { target with hdr := { target.hdr with name := linkname, linkname := name } }
      | .error _ => { link with hdr := { link.hdr with name := linkname, linkname := name } }
    let (p, outs) := retargetLinks p rest
    (p, out :: outs)

/-- the tail of `GetHeaderDirectChildren`: `limit` is the already incremented limit -/
def applyLimit (limit : Int) (outs : List Row) : List Row :=
  if limit ≤ 0 || (outs.length : Int) < limit || outs.length == 0 then outs else outs.take (limit - 1).toNat

def getHeaderDirectChildren (p : Idx) (name : Name) (limit : Int) : Idx × Except Err (List Row) :=
  let (p, name) := sanitize p name
  let limit := if limit > 0 then limit + 1 else limit
  let isR := isRoot name false
  let prefix_ := if isR then [] else trimSuffix name [slash] ++ [slash]
  match (if isR then minDepth p.rows else some 0) with
  | none => (p, .error .other)   -- `min()` over no live rows is NULL: Bind fails
  | some rootDepth =>
    let nameHeaders := directQuery p.rows prefix_ false rootDepth limit
    let rawLinks := directQuery p.rows prefix_ true rootDepth limit
    let (p, linkHeaders) := retargetLinks p rawLinks
    let outs := (nameHeaders ++ linkHeaders).filter (notSelf name)
    (p, .ok (applyLimit limit outs))

def deleteHeader (p : Idx) (name : Name) (lkRecd lkBlk : Int) : Idx × Except Err Row :=
  let (p, n) := sanitize p name
  match findLive p.rows n with
  | none => (p, .error .noRows)
  | some r =>
    let r' := { r with deleted := true, lkRecd := lkRecd, lkBlk := lkBlk }
    ({ p with rows := setByKey p.rows r' }, .ok r')

/-- `GetLastIndexedRecordAndBlock`: the `(lastknownrecord, lastknownblock)` of the row with
    the largest `lastknownrecord * recordSize + lastknownblock`, tombstones included. -/
def lastIndexed (p : Idx) (rs : Int) : Int × Int :=
  p.rows.foldl (fun (best : Int × Int) r =>
    if r.lkRecd * rs + r.lkBlk > best.1 * rs + best.2 then (r.lkRecd, r.lkBlk) else best) (0, 0)

def purge (p : Idx) : Idx := { rows := [], root := [], rootIsEmpty := false }

end Idx
end Stfs
