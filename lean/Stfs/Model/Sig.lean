/-
  Signatures (pkg/signature/verify.go, pkg/recovery/fetch.go) as a symbolic model.

  A signature value is either a well-formed signature made with some key over some message, or
  one of the malformed classes the code distinguishes.  What `VerifyString` does on each
  malformed class, per format, what `VerifyHeader` requires, and which verifier every caller
  of the indexer passes, are *read from the source* on every run (Gen/Verify.lean).  The
  primitives are ideal: a well-formed signature verifies exactly under the public half of the
  key that made it and exactly over the message it was made over.
-/
import Stfs.Model.Basic
import Stfs.Gen.Verify
namespace Stfs.Sig
open Stfs Stfs.Gen

inductive SFmt | minisign | pgp
deriving DecidableEq, Repr

inductive SigVal
  | valid (key : Nat) (msg : Name)
  | undecodable      -- not base64
  | notPacket        -- base64 of something that is not an OpenPGP packet / not a minisign signature
  | notSignature     -- an OpenPGP packet that is not a signature
deriving DecidableEq, Repr

/-- does the format's case of `VerifyString` return nil on this malformed class?  (indices
    into the generated list of the case's return statements, in source order) -/
def acceptsMalformed : SFmt → SigVal → Bool
  | _, .valid _ _ => false
  | .minisign, .undecodable => verifyStringReturns_minisign[2]?.getD true
  | .minisign, _ => false                      -- minisign.Verify is the verdict on any decoded bytes
  | .pgp, .undecodable => verifyStringReturns_pgp[2]?.getD true
  | .pgp, .notPacket => verifyStringReturns_pgp[3]?.getD true
  | .pgp, .notSignature => verifyStringReturns_pgp[4]?.getD true

/-- `VerifyString` for a recipient that is the public half of key `rk` -/
def verifyString (f : SFmt) (rk : Nat) (msg : Name) (s : SigVal) : Bool :=
  match s with
  | .valid k m => k == rk && m == msg
  | other => acceptsMalformed f other

/-- the two records of a signed header as found on the tape -/
structure Outer where
  hasPax : Bool := true
  embedded : Option Name := none
  sig : Option SigVal := none
deriving DecidableEq, Repr

/-- `VerifyHeader`: the embedded header that replaces the outer one, or rejection -/
def verifyHeader (f : SFmt) (rk : Nat) (o : Outer) : Option Name :=
  if verifyRequiresEmbedded && !o.hasPax then none else
  match o.embedded with
  | none => if verifyRequiresEmbedded then none else some []
  | some e =>
    match o.sig with
    | none => if verifyRequiresSignature then none else some e
    | some s => if verifyString f rk e s || !verifyPropagatesError then some e else none

/-- the indexer with the real verifier: the embedded headers it accepts, in tape order, up to
    the first rejection (which aborts the rebuild) -/
def acceptAll (f : SFmt) (rk : Nat) : List Outer → List Name × Bool
  | [] => ([], true)
  | o :: rest =>
    match verifyHeader f rk o with
    | none => ([], false)
    | some e => let (es, ok) := acceptAll f rk rest; (e :: es, ok)

/-- `recovery.Fetch` for an accepted (inner) header: regular entries are streamed through the
    content verifier and the verdict is returned after the last byte; other entries are copied -/
structure Inner where
  regular : Bool
  contentSig : SigVal
deriving DecidableEq, Repr

def restore (f : SFmt) (rk : Nat) (h : Inner) (content : Name) : Option Name :=
  if !h.regular then some content else
  match h.contentSig with
  | .valid k m => if k == rk && m == content then some content else none
  | _ => none      -- signature.Verify returns an error for every malformed class, in both formats

end Stfs.Sig
