/-
  Histories: the calls a client can make on one STFS instance (filesystem methods and the
  methods of the handles it obtained), and the transition function `Sys.step` that the
  theorems quantify over (`run`) and that the line-protocol driver executes.
-/
import Stfs.Model.File
namespace Stfs

inductive Call
  | init (root : Name) (perm : Int)
  | mkdir (name : Name) (perm : Int)
  | mkdirAll (name : Name) (perm : Int)
  | remove (name : Name)
  | removeAll (name : Name)
  | rename (old new : Name)
  | chmod (name : Name) (mode : Int)
  | chown (name : Name) (uid gid : Int)
  | chtimes (name : Name) (atime mtime : Int)
  | symlink (old new : Name)
  | stat (name : Name)
  | lstat (name : Name)
  | readlink (name : Name)
  | cat (name : Name)
  | create (id : Nat) (name : Name)
  | openFile (id : Nat) (name : Name) (flag : Nat) (perm : Int)
  | open_ (id : Nat) (name : Name)
  | hwrite (id : Nat) (data : Bytes)
  | hwriteString (id : Nat) (data : Bytes)
  | hread (id : Nat) (n : Nat)
  | hreadAt (id : Nat) (n : Nat) (off : Int)
  | hseek (id : Nat) (off : Int) (whence : Int)
  | hwriteAt (id : Nat) (data : Bytes) (off : Int)
  | htruncate (id : Nat) (size : Int)
  | hstat (id : Nat)
  | hname (id : Nat)
  | hsync (id : Nat)
  | hclose (id : Nat)
  | hreaddir (id : Nat) (count : Int)
deriving Repr, Inhabited

/-- values a call can return -/
inductive Val
  | unit
  | name (n : Name)
  | info (i : Info)
  | infos (is : List Info)
  | bytes (b : Bytes)
  | count (n : Nat)
  | read (b : Bytes) (eof : Bool)
  | offset (i : Int)
  | badHandle
deriving Repr, Inhabited

structure Sys where
  w : World := {}
  handles : List (Nat × Handle) := []
deriving Repr, Inhabited

def Sys.getHandle (s : Sys) (id : Nat) : Option Handle := (s.handles.find? (·.1 == id)).map (·.2)
def Sys.setHandle (s : Sys) (id : Nat) (h : Handle) : Sys :=
  { s with handles := (id, h) :: s.handles.filter (·.1 != id) }
def Sys.dropHandle (s : Sys) (id : Nat) : Sys := { s with handles := s.handles.filter (·.1 != id) }

/-- run a filesystem-level program and keep its value -/
def Sys.run {α} (s : Sys) (m : M α) (v : α → Val) : Sys × Except Err Val :=
  match m s.w with
  | (w, .ok a) => ({ s with w := w }, .ok (v a))
  | (w, .error e) => ({ s with w := w }, .error e)

/-- another handle's streaming read has not been drained: its goroutine still holds the read
    operations' lock and the drive (finding F22) -/
def Sys.blockedBy (s : Sys) (self : Option Nat) : Bool :=
  s.handles.any (fun x => x.2.pending && some x.1 != self)

def Call.handleId : Call → Option Nat
  | .hwrite id _ | .hwriteString id _ | .hread id _ | .hreadAt id _ _ | .hseek id _ _ | .hwriteAt id _ _
  | .htruncate id _ | .hstat id | .hname id | .hsync id | .hclose id | .hreaddir id _ => some id
  | _ => none

def Sys.step0 (f : FsCfg) (s : Sys) (env : Env) : Call → Sys × Except Err Val
  | .init r p => s.run (initFs f env r p) .name
  | .mkdir n p => s.run (mkdir f env n p) (fun _ => .unit)
  | .mkdirAll n p => s.run (mkdirAll f env n p) (fun _ => .unit)
  | .remove n => s.run (remove f env n) (fun _ => .unit)
  | .removeAll n => s.run (removeAll f env n) (fun _ => .unit)
  | .rename a b => s.run (rename f env a b) (fun _ => .unit)
  | .chmod n m => s.run (chmod f env n m) (fun _ => .unit)
  | .chown n u g => s.run (chown f env n u g) (fun _ => .unit)
  | .chtimes n a m => s.run (chtimes f env n a m) (fun _ => .unit)
  | .symlink a b => s.run (symlink f env a b) (fun _ => .unit)
  | .stat n => s.run (fsStat n) (fun h => .info (Info.ofHdr h))
  | .lstat n => s.run (lstat n) (fun h => .info (Info.ofHdr h))
  | .readlink n => s.run (readlink n) .name
  | .cat n => s.run (cat f env n) .bytes
  | .create id n =>
    match create f env n s.w with
    | (w, .ok o) => (({ s with w := w } : Sys).setHandle id (Handle.ofOpened o), .ok .unit)
    | (w, .error e) => ({ s with w := w }, .error e)
  | .openFile id n flag perm =>
    match openFile f env n flag perm s.w with
    | (w, .ok o) => (({ s with w := w } : Sys).setHandle id (Handle.ofOpened o), .ok .unit)
    | (w, .error e) => ({ s with w := w }, .error e)
  | .open_ id n =>
    match fsOpen f env n s.w with
    | (w, .ok o) => (({ s with w := w } : Sys).setHandle id (Handle.ofOpened o), .ok .unit)
    | (w, .error e) => ({ s with w := w }, .error e)
  | .hwrite id data =>
    match s.getHandle id with
    | none => (s, .ok .badHandle)
    | some h =>
      match hWrite f h data s.w with
      | (w, .ok (h, n)) => (({ s with w := w } : Sys).setHandle id h, .ok (.count n))
      | (w, .error e) => ({ s with w := w }, .error e)
  | .hwriteString id data =>
    -- `WriteString` is `Write` on the bytes of the string
    match s.getHandle id with
    | none => (s, .ok .badHandle)
    | some h =>
      match hWrite f h data s.w with
      | (w, .ok (h, n)) => (({ s with w := w } : Sys).setHandle id h, .ok (.count n))
      | (w, .error e) => ({ s with w := w }, .error e)
  | .hread id n =>
    match s.getHandle id with
    | none => (s, .ok .badHandle)
    | some h =>
      match hRead f h n s.w with
      | (w, .ok (h, b, eof)) => (({ s with w := w } : Sys).setHandle id h, .ok (.read b eof))
      | (w, .error e) => ({ s with w := w }, .error e)
  | .hreadAt id n off =>
    match s.getHandle id with
    | none => (s, .ok .badHandle)
    | some h =>
      match hReadAt f h n off s.w with
      | (w, .ok (h, b, eof)) => (({ s with w := w } : Sys).setHandle id h, .ok (.read b eof))
      | (w, .error e) => ({ s with w := w }, .error e)
  | .hseek id off whence =>
    match s.getHandle id with
    | none => (s, .ok .badHandle)
    | some h =>
      match hSeekNoLock f h off whence s.w with
      | (w, .ok (h, r)) => (({ s with w := w } : Sys).setHandle id h, .ok (.offset r))
      | (w, .error e) => ({ s with w := w }, .error e)
  | .hwriteAt id data off =>
    match s.getHandle id with
    | none => (s, .ok .badHandle)
    | some h =>
      match writeGuard h with
      | some e => (s, .error e)
      | none =>
        -- the handle object keeps the write cache `enterWriteMode` set up even when the rest fails
        match enterWriteMode f h s.w with
        | (w, .error e) => ({ s with w := w }, .error e)
        | (w, .ok h1) =>
          match hWriteAtCore f h1 data off w with
          | (w, .ok (h2, n)) => (({ s with w := w } : Sys).setHandle id h2, .ok (.count n))
          | (w, .error e) => (({ s with w := w } : Sys).setHandle id h1, .error e)
  | .htruncate id size =>
    match s.getHandle id with
    | none => (s, .ok .badHandle)
    | some h =>
      match writeGuard h with
      | some e => (s, .error e)
      | none =>
        match enterWriteMode f h s.w with
        | (w, .error e) => ({ s with w := w }, .error e)
        | (w, .ok h1) =>
          match hTruncateCore h1 size w with
          | (w, .ok h2) => (({ s with w := w } : Sys).setHandle id h2, .ok .unit)
          | (w, .error e) => (({ s with w := w } : Sys).setHandle id h1, .error e)
  | .hstat id =>
    match s.getHandle id with
    | none => (s, .ok .badHandle)
    | some h =>
      match hStat h s.w with
      | (w, .ok (h, i)) => (({ s with w := w } : Sys).setHandle id h, .ok (.info i))
      | (w, .error e) => ({ s with w := w }, .error e)
  | .hname id =>
    match s.getHandle id with
    | none => (s, .ok .badHandle)
    | some h => (s, .ok (.name (hName h)))
  | .hsync id =>
    match s.getHandle id with
    | none => (s, .ok .badHandle)
    | some h =>
      match hSyncNoLock f env h s.w with
      | (w, .ok h) => (({ s with w := w } : Sys).setHandle id h, .ok .unit)
      | (w, .error e) => ({ s with w := w }, .error e)
  | .hclose id =>
    match s.getHandle id with
    | none => (s, .ok .badHandle)
    | some h =>
      match hClose f env h s.w with
      | (w, .ok _) => (({ s with w := w } : Sys).dropHandle id, .ok .unit)
      | (w, .error e) => ({ s with w := w }, .error e)
  | .hreaddir id n =>
    match s.getHandle id with
    | none => (s, .ok .badHandle)
    | some h => s.run (hReaddir h n) .infos

/-- One call.  While another handle's streaming read is pending, a call that needs the drive
    blocks forever holding the filesystem lock (everything is stuck from then on); a call that
    does not need the drive is unaffected. -/
def Sys.step (f : FsCfg) (s : Sys) (env : Env) (c : Call) : Sys × Except Err Val :=
  if s.blockedBy c.handleId && !s.w.stuck then
    match Sys.step0 f { s with w := { s.w with stuck := true } } env c with
    | (s', .error .stuck) => (s', .error .stuck)
    | (s', r) => ({ s' with w := { s'.w with stuck := false } }, r)
  else Sys.step0 f s env c

/-- the state after a history (calls paired with their oracle inputs) -/
def Sys.runAll (f : FsCfg) (s : Sys) : List (Env × Call) → Sys
  | [] => s
  | (env, c) :: rest => ((s.step f env c).1).runAll f rest

end Stfs
