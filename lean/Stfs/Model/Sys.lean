/-
  Histories: the calls a client can make on one STFS instance (filesystem methods and the
  methods of the handles it obtained), and the transition function `Sys.step` that the
  theorems quantify over (`run`) and that the line-protocol driver executes.
-/
import Stfs.Model.Handle
namespace Stfs

inductive Call
  | init (root : Name) (perm : Int)
  | mkdir (name : Name) (perm : Int)
  | mkdirAll (name : Name) (perm : Int)
  | remove (name : Name)
  | removeAll (name : Name)
  | rename (old new : Name)
  | chmod (name : Name) (mode : Int)
  | chown (name : Name) (uid gid : Int)
  | chtimes (name : Name) (atime mtime : Int)
  | symlink (old new : Name)
  | stat (name : Name)
  | lstat (name : Name)
  | readlink (name : Name)
  | cat (name : Name)
  | create (id : Nat) (name : Name)
  | openFile (id : Nat) (name : Name) (flag : Nat) (perm : Int)
  | open_ (id : Nat) (name : Name)
  | hwrite (id : Nat) (data : Bytes)
  | hwriteString (id : Nat) (data : Bytes)
  | hsync (id : Nat)
  | hclose (id : Nat)
  | hreaddir (id : Nat) (count : Int)
deriving Repr, Inhabited

/-- values a call can return -/
inductive Val
  | unit
  | name (n : Name)
  | info (i : Info)
  | infos (is : List Info)
  | bytes (b : Bytes)
  | count (n : Nat)
  | badHandle
deriving Repr, Inhabited

structure Sys where
  w : World := {}
  handles : List (Nat × Handle) := []
deriving Repr, Inhabited

def Sys.getHandle (s : Sys) (id : Nat) : Option Handle := (s.handles.find? (·.1 == id)).map (·.2)
def Sys.setHandle (s : Sys) (id : Nat) (h : Handle) : Sys :=
  { s with handles := (id, h) :: s.handles.filter (·.1 != id) }
def Sys.dropHandle (s : Sys) (id : Nat) : Sys := { s with handles := s.handles.filter (·.1 != id) }

/-- run a filesystem-level program and keep its value -/
def Sys.run {α} (s : Sys) (m : M α) (v : α → Val) : Sys × Except Err Val :=
  match m s.w with
  | (w, .ok a) => ({ s with w := w }, .ok (v a))
  | (w, .error e) => ({ s with w := w }, .error e)

def Sys.step (f : FsCfg) (s : Sys) (env : Env) : Call → Sys × Except Err Val
  | .init r p => s.run (initFs f env r p) .name
  | .mkdir n p => s.run (mkdir f env n p) (fun _ => .unit)
  | .mkdirAll n p => s.run (mkdirAll f env n p) (fun _ => .unit)
  | .remove n => s.run (remove f env n) (fun _ => .unit)
  | .removeAll n => s.run (removeAll f env n) (fun _ => .unit)
  | .rename a b => s.run (rename f env a b) (fun _ => .unit)
  | .chmod n m => s.run (chmod f env n m) (fun _ => .unit)
  | .chown n u g => s.run (chown f env n u g) (fun _ => .unit)
  | .chtimes n a m => s.run (chtimes f env n a m) (fun _ => .unit)
  | .symlink a b => s.run (symlink f env a b) (fun _ => .unit)
  | .stat n => s.run (fsStat n) (fun h => .info (Info.ofHdr h))
  | .lstat n => s.run (lstat n) (fun h => .info (Info.ofHdr h))
  | .readlink n => s.run (readlink n) .name
  | .cat n => s.run (cat f env n) .bytes
  | .create id n =>
    match create f env n s.w with
    | (w, .ok o) => (({ s with w := w } : Sys).setHandle id (Handle.ofOpened o), .ok .unit)
    | (w, .error e) => ({ s with w := w }, .error e)
  | .openFile id n flag perm =>
    match openFile f env n flag perm s.w with
    | (w, .ok o) => (({ s with w := w } : Sys).setHandle id (Handle.ofOpened o), .ok .unit)
    | (w, .error e) => ({ s with w := w }, .error e)
  | .open_ id n =>
    match fsOpen f env n s.w with
    | (w, .ok o) => (({ s with w := w } : Sys).setHandle id (Handle.ofOpened o), .ok .unit)
    | (w, .error e) => ({ s with w := w }, .error e)
  | .hwrite id data =>
    match s.getHandle id with
    | none => (s, .ok .badHandle)
    | some h =>
      match hWrite f h data s.w with
      | (w, .ok (h, n)) => (({ s with w := w } : Sys).setHandle id h, .ok (.count n))
      | (w, .error e) => ({ s with w := w }, .error e)
  | .hwriteString id data =>
    -- `WriteString` is `Write` on the bytes of the string
    match s.getHandle id with
    | none => (s, .ok .badHandle)
    | some h =>
      match hWrite f h data s.w with
      | (w, .ok (h, n)) => (({ s with w := w } : Sys).setHandle id h, .ok (.count n))
      | (w, .error e) => ({ s with w := w }, .error e)
  | .hsync id =>
    match s.getHandle id with
    | none => (s, .ok .badHandle)
    | some h =>
      match hSyncNoLock f env h s.w with
      | (w, .ok h) => (({ s with w := w } : Sys).setHandle id h, .ok .unit)
      | (w, .error e) => ({ s with w := w }, .error e)
  | .hclose id =>
    match s.getHandle id with
    | none => (s, .ok .badHandle)
    | some h =>
      match hClose f env h s.w with
      | (w, .ok _) => (({ s with w := w } : Sys).dropHandle id, .ok .unit)
      | (w, .error e) => ({ s with w := w }, .error e)
  | .hreaddir id n =>
    match s.getHandle id with
    | none => (s, .ok .badHandle)
    | some h => s.run (hReaddir h n) .infos

/-- the state after a history (calls paired with their oracle inputs) -/
def Sys.runAll (f : FsCfg) (s : Sys) : List (Env × Call) → Sys
  | [] => s
  | (env, c) :: rest => ((s.step f env c).1).runAll f rest

end Stfs
