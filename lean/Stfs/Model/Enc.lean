/-
  What an observer of the tape sees (C09), as a symbolic model.

  A record on the tape is a tree of terms: clear bytes, sizes, fixed constants, and
  ciphertexts.  `visible` collects the clear leaves that are not under a ciphertext; the
  primitives are ideal: a ciphertext reveals nothing but its length and opens only with the
  private half of the key it was made for.  How the write operations build a record — which
  calls run, in which order, on which variable, with which format and key — is *read from the
  source* on every run (Gen/WritePaths.lean).
-/
import Stfs.Model.Basic
import Stfs.Gen.WritePaths
namespace Stfs.Enc
open Stfs Stfs.Gen

inductive Term
  | clear (bytes : Name)              -- appears on the tape as is
  | const (c : Name)                  -- part of the fixed wrapper (the same for every record)
  | size (n : Nat)                    -- a record length
  | enc (key : Nat) (inner : List Term)
deriving Repr

mutual
def visible : Term → List Name
  | .clear b => [b]
  | .const _ => []
  | .size _ => []
  | .enc _ _ => []
def visibleAll : List Term → List Name
  | [] => []
  | t :: ts => visible t ++ visibleAll ts
end

/-- the sensitive parts of a header: names, link target, owners, times, STFS action records -/
structure Secret where
  fields : List Name
  content : Name

/-- `EncryptHeader` as the source has it: a new header with the PAX format marker, the size and
    one PAX record holding the encrypted JSON of the old header, replacing the old one -/
def encryptHeader (on : Bool) (rk : Nat) (stored : Nat) (s : Secret) : List Term :=
  if on then [.const (n!"PAX"), .size stored, .const (n!"STFS.EmbeddedHeader"), .enc rk (s.fields.map .clear)]
  else .size stored :: s.fields.map .clear

/-- one record as a write operation puts it on the tape: at a site where EncryptHeader runs
    directly before WriteHeader on the same header the wrapped header is written, elsewhere the
    header goes out as it is; content goes through `encryption.Encrypt(tw, …)` -/
def writeRecord (site : WriteSite) (contentEncrypted : Bool) (on : Bool) (rk : Nat) (stored : Nat) (s : Secret) : List Term :=
  (if site.encryptedBefore then encryptHeader on rk stored s else .size stored :: s.fields.map .clear) ++
  [if contentEncrypted && on then .enc rk [.clear s.content] else .clear s.content]

/-- the only destination-of-content use of the tar writer is `encryption.Encrypt(tw, …)` -/
def contentGoesThroughEncrypt : Bool :=
  tarWriterUses.all (· == (n!"encryption.Encrypt(arg 0)")) && !tarWriterUses.isEmpty

/-- opening a ciphertext -/
def decrypt (k : Nat) : Term → Option (List Term)
  | .enc k' inner => if k == k' then some inner else none
  | _ => none

/-- the indexer over an encrypted tape with private key `k`: it stops with an error at the
    first header it cannot open when decryptHeader's error is returned at every call site -/
def rebuildOpens (strict : Bool) (k : Nat) : List Term → Bool
  | [] => true
  | t :: ts => match decrypt k t with
    | some _ => rebuildOpens strict k ts
    | none => if strict then false else rebuildOpens strict k ts

end Stfs.Enc
