/-
  The tape: a list of items with a byte-exact layout, and the suffix tables.

  `hb` (how many 512-byte blocks Go's PAX writer used for a header) and `stored` (encoded
  content length in bytes; `data` is the plaintext content) are inputs to the model, observed from the implementation; every
  theorem quantifies over all values with `hb ≥ 1`.
-/
import Stfs.Model.Index
import Stfs.Gen.PosArith
import Stfs.Gen.Consts
namespace Stfs

abbrev Bytes := List Nat

inductive Item
  | recd (h : Hdr) (hb : Nat) (stored : Nat) (data : Bytes)
  | trailer
deriving DecidableEq, Repr, Inhabited

abbrev Tape := List Item

def blocksOf (bytes : Nat) : Nat := (bytes + 511) / 512

/-- number of 512-byte blocks an item occupies -/
def Item.blocks : Item → Nat
  | .recd _ hb stored _ => hb + blocksOf stored
  | .trailer => 2

def tapeBlocks (t : Tape) : Nat := (t.map Item.blocks).sum

/-- items starting exactly at block offset `b` (counted from block `cur`);
    `none` when `b` falls inside an item, `some []` at or beyond the end. -/
def itemsFromAux : Tape → (cur b : Nat) → Option Tape
  | [], _, _ => some []
  | it :: rest, cur, b =>
    if b == cur then some (it :: rest)
    else if b < cur + it.blocks then none
    else itemsFromAux rest (cur + it.blocks) b

def itemsFrom (t : Tape) (b : Nat) : Option Tape := itemsFromAux t 0 b

/-- records of a tape with their block offsets (trailers dropped) -/
def recordStartsAux : Tape → Nat → List (Nat × Hdr)
  | [], _ => []
  | .recd h hb st _ :: rest, cur => (cur, h) :: recordStartsAux rest (cur + hb + blocksOf st)
  | .trailer :: rest, cur => recordStartsAux rest (cur + 2)

def recordStarts (t : Tape) : List (Nat × Hdr) := recordStartsAux t 0

/-- pipeline/record-size configuration of an instance -/
structure Cfg where
  rs : Int := 20
  compression : Name := []
  encryption : Name := []
  signature : Name := []
deriving DecidableEq, Repr, Inhabited

/-- some stage of the content pipeline is not the identity -/
def Cfg.hasCodec (c : Cfg) : Bool := c.compression != [] || c.encryption != [] || c.signature != []

/-- What reading a record *without content* (a file that was created but never written) does
    under a pipeline.  The read side runs decrypt → decompress → verify on the empty stream;
    the first stage that rejects it decides: age rejects it with a proper error; OpenPGP
    decryption, the gzip readers and OpenPGP signature verification fail with exactly `io.EOF`,
    which a handle's `Read` takes for the end of the file (so `Open`+`Read` returns empty
    content) while `Restore`/`Fetch` return it as an error; bzip2 fails with another error;
    minisign rejects the missing signature; lz4 reads the empty stream but its `Close` reports
    `io.EOF`.  (Per-format table, validated on every configuration by the round-trip matrix.) -/
inductive EmptyRead | ok | eofOnly | fails
deriving DecidableEq, Repr

def Cfg.emptyRead (c : Cfg) : EmptyRead :=
  if c.encryption == n!"age" then .fails
  else if c.encryption == n!"pgp" then .eofOnly
  else if c.signature == n!"pgp" then .eofOnly
  else if c.compression == n!"gzip" || c.compression == n!"parallelgzip" then .eofOnly
  else if c.compression == n!"bzip2" || c.compression == n!"parallelbzip2" then .fails
  else if c.signature == n!"minisign" then .fails
  else if c.compression == n!"lz4" then .eofOnly
  else .ok

/-- reading such a record through a handle returns an error -/
def Cfg.emptyDecodeFails (c : Cfg) : Bool := c.emptyRead == .fails

/-- … and which error: bzip2's reader reports `io.ErrUnexpectedEOF`, everything else an error of
    no particular class -/
def Cfg.emptyReadErr (c : Cfg) : Err :=
  if c.encryption == [] && c.compression == n!"bzip2" then .unexpectedEOF else .other

/-- restoring it through the archive interface returns an error -/
def Cfg.emptyRestoreFails (c : Cfg) : Bool := c.emptyRead != .ok

def lookupTable (tab : List (Name × Name)) (k : Name) : Option Name :=
  (tab.find? (fun kv => kv.1 == k)).map (·.2)

/-- `suffix.AddSuffix` over the generated tables (`none` = unsupported format error). -/
def addSuffix (name compression encryption : Name) : Option Name :=
  let (k1, k2) := if Gen.addSuffixFirstIsCompression then (compression, encryption) else (encryption, compression)
  match lookupTable Gen.addSuffixFirst k1, lookupTable Gen.addSuffixSecond k2 with
  | some s1, some s2 => some (name ++ s1 ++ s2)
  | _, _ => none

/-- `suffix.RemoveSuffix` over the generated tables. -/
def removeSuffix (name compression encryption : Name) : Option Name :=
  let (k1, k2) := if Gen.removeSuffixFirstIsEncryption then (encryption, compression) else (compression, encryption)
  match lookupTable Gen.removeSuffixFirst k1, lookupTable Gen.removeSuffixSecond k2 with
  | some s1, some s2 => some (trimSuffix (trimSuffix name s1) s2)
  | _, _ => none

end Stfs
