/-
  `recovery.indexHeader` and the regular-file branch of `recovery.Index`.
  The position computations are the *generated* definitions of `Gen/PosArith.lean`.
-/
import Stfs.Model.Tape
namespace Stfs
open Gen

def isDigit (c : Nat) : Bool := 48 ≤ c && c ≤ 57

def parseNatAux : Name → Nat → Option Nat
  | [], acc => some acc
  | c :: cs, acc => if isDigit c then parseNatAux cs (acc * 10 + (c - 48)) else none

/-- `strconv.Atoi` (decimal, optional sign) -/
def atoi (s : Name) : Option Int :=
  match s with
  | [] => none
  | 45 :: rest => if rest == [] then none else (parseNatAux rest 0).map (fun n => -(n : Int))
  | 43 :: rest => if rest == [] then none else (parseNatAux rest 0).map (fun n => (n : Int))
  | _ => (parseNatAux s 0).map (fun n => (n : Int))

def natDigits : Nat → Nat → List Nat
  | 0, _ => []
  | fuel + 1, n => if n < 10 then [48 + n] else natDigits fuel (n / 10) ++ [48 + n % 10]

/-- `strconv.Itoa` -/
def itoa (i : Int) : Name :=
  if i < 0 then 45 :: natDigits (i.natAbs + 1) i.natAbs else natDigits (i.toNat + 1) i.toNat

def Hdr.isRegular (h : Hdr) : Bool := h.typeflag == tfReg || h.typeflag == 0

/-- `indexHeader` (index.go:243–363). -/
def applyRec (c : Cfg) (p : Idx) (pos : Pos) (h : Hdr) (initializing : Bool) : Idx × Option Err :=
  -- UncompressedSize override
  match (match h.pax.get recSTFSRecordUncompressedSize with
         | none => some h
         | some s => (atoi s).map (fun n => { h with size := n })) with
  | none => (p, some .badSize)
  | some h =>
  -- unconditional suffix stripping for regular files
  match (if h.isRegular then (removeSuffix h.name c.compression c.encryption).map (fun n => { h with name := n })
         else some h) with
  | none => (p, some .other)
  | some h =>
  let version := (h.pax.get recSTFSRecordVersion).getD recSTFSRecordVersion1
  if version != recSTFSRecordVersion1 then (p, some .versionUnsupported) else
  let action := (h.pax.get recSTFSRecordAction).getD recSTFSRecordActionCreate
  if action == recSTFSRecordActionCreate then
    (p.upsertHeader (Idx.mkRow h pos.recd pos.blk pos.recd pos.blk) initializing, none)
  else if action == recSTFSRecordActionDelete then
    match p.deleteHeader h.name pos.recd pos.blk with
    | (p, .ok _) => (p, none)
    | (p, .error e) => (p, some e)
  else if action == recSTFSRecordActionUpdate then
    let (moveAfter, oldName) := match h.pax.get recSTFSRecordReplacesName with
      | some o => (true, o)
      | none => (false, h.name)
    let p :=
      if h.pax.get recSTFSRecordReplacesContent == some recSTFSRecordReplacesContentTrue then
        -- content & metadata update: new record & block
        p.updateHeaderMetadata (Idx.mkRow h pos.recd pos.blk pos.recd pos.blk)
      else
        -- metadata-only update: old record & block; a missing header is ignored
        match p.getHeader oldName with
        | (p, .ok old) =>
          -- the content stays in place: without the size record the old size is kept
          let h' := if (h.pax.get recSTFSRecordUncompressedSize).isNone then { h with size := old.hdr.size } else h
          p.updateHeaderMetadata (Idx.mkRow h' old.recd old.blk pos.recd pos.blk)
        | (p, .error _) => p
    if moveAfter then
      match p.moveHeader oldName h.name pos.recd pos.blk with
      | (p, .ok _) => (p, none)
      | (p, .error e) => (p, some e)
    else (p, none)
  else (p, some .actionUnsupported)

/-- How the `decryptHeader` callback treats the i-th header: a rebuild decrypts what is on
    the tape (identity on the model's plaintext headers); a write operation substitutes its
    in-memory headers positionally. -/
inductive Subst
  | tape
  | mem (hs : List Hdr)
deriving Repr

def Subst.header (s : Subst) (onTape : Hdr) (i : Nat) : Except Err Hdr :=
  match s with
  | .tape => .ok onTape
  | .mem hs => match hs[i]? with
    | some h => .ok h
    | none => .error .headerMissing

/-- The loop of `recovery.Index` over the items that follow the start position.
    `off` is the byte offset of the next item (layout truth); `pos` is what the code computed.
    A trailer makes the code re-seek to `indexSeek1 pos`; when that is not where the next item
    starts the model answers `desync` (never on code for which `pos_spec` holds). -/
def indexLoop (c : Cfg) (initializing : Bool) (offset : Nat) (s : Subst) :
    Idx → Pos → (off : Int) → (i : Nat) → Tape → Idx × Option Err
  | p, _, _, _, [] => (p, none)
  | p, pos, off, i, .trailer :: rest =>
    let curr := off + 2 * blockSize
    let (r, b) := indexPos1 c.rs curr curr
    if indexSeek1 c.rs r b != curr then (p, some .other) else
    indexLoop c initializing offset s p ⟨r, b⟩ curr i rest
  | p, pos, off, i, .recd onTape hb stored _ :: rest =>
    let step : Idx × Option Err :=
      if i ≥ offset then
        match s.header onTape (i - offset) with
        | .error e => (p, some e)
        | .ok h => applyRec c p pos h initializing
      else (p, none)
    match step with
    | (p, some e) => (p, some e)
    | (p, none) =>
      let curr := off + (hb : Int) * blockSize
      let cas := curr + (stored : Int)
      let (r, b) := indexPos0 c.rs curr cas
      let next := off + ((hb + blocksOf stored : Nat) : Int) * blockSize
      indexLoop c initializing offset s p ⟨r, b⟩ next (i + 1) rest

/-- `recovery.Index` on a regular file. -/
def index (c : Cfg) (p : Idx) (t : Tape) (start : Pos) (overwrite initializing : Bool)
    (offset : Nat) (s : Subst) : Idx × Option Err :=
  let p := if overwrite then p.purge else p
  let off := indexSeek0 c.rs start.recd start.blk
  if off < 0 || off % blockSize != 0 then (p, some .other) else
  match itemsFrom t (off / blockSize).toNat with
  | none => (p, some .other)     -- start inside an item: outside the model
  | some items => indexLoop c initializing offset s p start off 0 items

end Stfs
