/-
  `pkg/operations`: Archive, Update, Delete, Move (write side) and Restore (read side).
  Every write operation is: take the writer, read `lastIndexed`, emit records, append them
  (plus a trailer when something was written), close the writer, re-index from
  `lastIndexed` skipping one header, substituting the in-memory headers positionally.

  An error return between `GetWriter` and `CloseWriter` leaves the drive locked: the model
  records that as `stuck` (every later call that needs the drive never returns).
-/
import Stfs.Model.Indexer
namespace Stfs
open Gen

/-- the persistent state of one STFS instance -/
structure World where
  tape : Tape := []
  idx : Idx := {}
  stuck : Bool := false
deriving Repr, Inhabited

/-- what a write operation is given for one entry (`config.FileConfig`) -/
structure Src where
  path : Name
  link : Name := []
  typeflag : Nat := tfReg
  size : Int := 0
  attrs : Meta := {}
  pax : Pax := []
  data : Bytes := []
deriving Repr, Inhabited

/-- per-record oracle inputs observed from the implementation: header blocks, stored length -/
abbrev EnvRecs := List (Nat × Nat)

def envAt (e : EnvRecs) (i : Nat) (dflt : Nat) : Nat × Nat := (e[i]?).getD (3, dflt)

/-- `tar.FileInfoHeader` + `hdr.Name = file.Path; hdr.Format = tar.FormatPAX` -/
def Src.baseHdr (s : Src) : Hdr :=
  { typeflag := s.typeflag
    name := s.path
    linkname := if s.typeflag == tfSym then s.link else []
    size := if s.typeflag == tfReg then s.size else 0
    attrs := { s.attrs with format := 4 }
    pax := s.pax }

def paxV1 (p : Pax) (action : Name) : Pax :=
  (p.set recSTFSRecordVersion recSTFSRecordVersion1).set recSTFSRecordAction action

/-- the record `Archive` emits for one source -/
def archiveItem (c : Cfg) (s : Src) (env : Nat × Nat) : Option (Hdr × Item) :=
  let h := s.baseHdr
  if h.isRegular && s.size > 0 then
    match addSuffix h.name c.compression c.encryption with
    | none => none
    | some n =>
      let h := { h with pax := h.pax.set recSTFSRecordUncompressedSize (itoa h.size), size := (env.2 : Int), name := n }
      some (h, .recd h env.1 env.2 s.data)
  else some (h, .recd h env.1 0 [])

/-- the record `Update` emits for one source -/
def updateItem (c : Cfg) (s : Src) (replace skipSizeCheck : Bool) (env : Nat × Nat) : Option (Hdr × Item) :=
  let h := s.baseHdr
  let h := { h with pax := paxV1 h.pax recSTFSRecordActionUpdate }
  if replace then
    if h.isRegular && (s.size > 0 || skipSizeCheck) then
      match addSuffix h.name c.compression c.encryption with
      | none => none
      | some n =>
        let h := { h with pax := (h.pax.set recSTFSRecordUncompressedSize (itoa h.size)), size := (env.2 : Int), name := n }
        let h := { h with pax := h.pax.set recSTFSRecordReplacesContent recSTFSRecordReplacesContentTrue }
        some (h, .recd h env.1 env.2 s.data)
    else
      let h := { h with pax := h.pax.set recSTFSRecordReplacesContent recSTFSRecordReplacesContentTrue }
      some (h, .recd h env.1 0 [])
  else
    let h := { h with pax := h.pax.set recSTFSRecordReplacesContent recSTFSRecordReplacesContentFalse, size := 0 }
    some (h, .recd h env.1 0 [])

def emitAll (f : Src → (Nat × Nat) → Option (Hdr × Item)) : List Src → EnvRecs → Nat → Option (List Hdr × Tape)
  | [], _, _ => some ([], [])
  | s :: ss, env, i =>
    match f s (envAt env i s.data.length), emitAll f ss env (i + 1) with
    | some (h, it), some (hs, its) => some (h :: hs, it :: its)
    | _, _ => none

/-- append the emitted records; the trailer is written only when something was written -/
def appendItems (t : Tape) (its : Tape) : Tape := if its == [] then t else t ++ its ++ [.trailer]

/-- close the writer, re-open the reader, index what was appended -/
def reindex (c : Cfg) (w : World) (t : Tape) (start : Int × Int) (overwrite initializing : Bool)
    (hdrs : List Hdr) : World × Option Err :=
  let (idx, e) := index c w.idx t ⟨start.1, start.2⟩ overwrite initializing (if overwrite then 0 else 1) (.mem hdrs)
  ({ w with tape := t, idx := idx }, e)

def archive (c : Cfg) (w : World) (srcs : List Src) (overwrite initializing : Bool) (env : EnvRecs) :
    World × Option Err :=
  if w.stuck then (w, some .stuck) else
  let start := if overwrite then (0, 0) else w.idx.lastIndexed c.rs
  match emitAll (archiveItem c) srcs env 0 with
  | none => ({ w with stuck := true }, some .other)
  | some (hdrs, its) => reindex c w (appendItems w.tape its) start overwrite initializing hdrs

def update (c : Cfg) (w : World) (srcs : List Src) (replace skipSizeCheck : Bool) (env : EnvRecs) :
    World × Option Err :=
  if w.stuck then (w, some .stuck) else
  let start := w.idx.lastIndexed c.rs
  match emitAll (fun s e => updateItem c s replace skipSizeCheck e) srcs env 0 with
  | none => ({ w with stuck := true }, some .other)
  | some (hdrs, its) => reindex c w (appendItems w.tape its) start false false hdrs

/-- the header `Delete`/`Move` rebuild from a stored row (`DBHeaderToTarHeader`) -/
def Row.toHdr (r : Row) : Hdr := r.hdr

def lookupForWrite (p : Idx) (name : Name) : Idx × Except Err Row :=
  match p.getHeader name with
  | (p, .ok r) => (p, .ok r)
  | (p, .error _) => p.getHeaderByLinkname name

def deleteItems (rows : List Row) (env : EnvRecs) : List Hdr × Tape :=
  let hs := rows.map (fun r => { r.toHdr with size := 0, pax := paxV1 r.hdr.pax recSTFSRecordActionDelete })
  (hs, hs.zipIdx.map (fun (h, i) => Item.recd h (envAt env i 0).1 0 []))

def delete (c : Cfg) (w : World) (name : Name) (env : EnvRecs) : World × Option Err :=
  if w.stuck then (w, some .stuck) else
  let start := w.idx.lastIndexed c.rs
  match lookupForWrite w.idx name with
  | (p, .error e) => ({ w with idx := p, stuck := true }, some e)   -- returns with the writer open
  | (p, .ok r) =>
    let (p, children) :=
      if r.hdr.typeflag == tfDir && r.linkname == [] then p.getHeaderChildren name else (p, [])
    let (hdrs, its) := deleteItems (r :: children) env
    reindex c { w with idx := p } (appendItems w.tape its) start false false hdrs

def moveItems (from_ to : Name) (rows : List Row) (env : EnvRecs) : List Hdr × Tape :=
  let hs := rows.map (fun r =>
    { r.toHdr with
      size := 0
      name := pjoin [to, trimPrefix (trimPrefix r.name [slash]) (trimPrefix from_ [slash])]
      pax := (paxV1 r.hdr.pax recSTFSRecordActionUpdate).set recSTFSRecordReplacesName r.name })
  (hs, hs.zipIdx.map (fun (h, i) => Item.recd h (envAt env i 0).1 0 []))

/-- "prevent moving from relative to absolute path" -/
def moveTarget (rowName to : Name) : Name :=
  if isAbs to && !isAbs rowName then trimPrefix to [slash] else to

def move (c : Cfg) (w : World) (from_ to : Name) (env : EnvRecs) : World × Option Err :=
  if from_ == to then (w, none) else       -- ignored before any lock is taken
  if w.stuck then (w, some .stuck) else
  let start := w.idx.lastIndexed c.rs
  match lookupForWrite w.idx from_ with
  | (p, .error e) => ({ w with idx := p, stuck := true }, some e)
  | (p, .ok r) =>
    let to := moveTarget r.name to
    if from_ == to then ({ w with idx := p, stuck := true }, none) else   -- returns nil with the writer open
    let (p, children) := if r.hdr.typeflag == tfDir then p.getHeaderChildren from_ else (p, [])
    let (hdrs, its) := moveItems from_ to (r :: children) env
    reindex c { w with idx := p } (appendItems w.tape its) start false false hdrs

/-- content stored at a tape position (`recovery.Fetch` without codecs): the record that
    starts at block `rs * record + block` -/
def fetchAt (c : Cfg) (t : Tape) (recd blk : Int) : Option (Hdr × Bytes) :=
  let off := fetchSeek0 c.rs recd blk
  if off < 0 || off % blockSize != 0 then none else
  match itemsFrom t (off / blockSize).toNat with
  | some (.recd h _ _ data :: _) => some (h, data)
  | _ => none

end Stfs
