/-
  The part of `pkg/fs/file.go` the filesystem-level correspondence needs: a handle with a
  write cache that is flushed as one content-replacing UPDATE on `Sync`/`Close`, whole-file
  reads through `Operations.Restore`, and `Readdir`.  (The byte-level cursor semantics of
  every `afero.File` method are in `File.lean`.)
-/
import Stfs.Model.Fs
namespace Stfs
open Gen

/-- the `FileInfo` a handle carries (from `NewFileInfoFromTarHeader` or rebuilt by a flush) -/
structure Info where
  name : Name := []
  size : Int := 0
  perm : Int := 0
  isDir : Bool := false
  isSymlink : Bool := false
  mtime : Int := 0
  atime : Int := 0
  ctime : Int := 0
  uid : Int := 0
  gid : Int := 0
deriving DecidableEq, Repr, Inhabited

/-- `tar.Header.FileInfo().Name()` -/
def hdrInfoName (h : Hdr) : Name := if h.typeflag == tfDir then base (clean h.name) else base h.name

def Info.ofHdr (h : Hdr) : Info :=
  { name := hdrInfoName h, size := h.size, perm := permBits h.attrs.mode
    isDir := h.typeflag == tfDir, isSymlink := h.typeflag == tfSym
    mtime := h.attrs.mtime, atime := h.attrs.atime, ctime := h.attrs.ctime
    uid := h.attrs.uid, gid := h.attrs.gid }

structure Handle where
  path : Name
  link : Name
  flags : FileFlags
  info : Info
  /-- write cache: content and cursor (file-backed cache semantics) -/
  wbuf : Option (Bytes × Nat) := none
  /-- the cache was closed by a flush (`Update` closes the source it was given) -/
  bufClosed : Bool := false
  /-- streaming read in progress: the content being piped and the bytes consumed so far -/
  reader : Option (Bytes × Nat) := none
deriving Repr, Inhabited

/-- a streaming read that has not consumed all of its content keeps the drive (finding F22) -/
def Handle.pending (h : Handle) : Bool :=
  match h.reader with
  | some (data, pos) => pos < data.length
  | none => false

def Handle.ofOpened (o : Opened) : Handle :=
  { path := o.path, link := o.link, flags := o.flags, info := Info.ofHdr o.hdr }

/-- `Operations.Restore(from, "", flatten)` for a single regular entry: the content stored at
    the position the index records for it -/
def restoreContent (f : FsCfg) (path : Name) : M Bytes := do
  let src := trimSuffix path [slash]
  let row ← (do
    match ← M.attempt (M.idx (·.getHeader src)) with
    | .ok r => pure r
    | .error .noRows => M.idx (·.getHeader (src ++ [slash]))
    | .error e => M.fail e)
  let w ← M.get
  if w.stuck then M.fail .stuck else
  match fetchAt f.c w.tape row.recd row.blk with
  | some (_, data) => pure data
  | none => M.fail .other

def writeAt (buf : Bytes) (pos : Nat) (p : Bytes) : Bytes :=
  if p == [] then buf else
  let padded := if buf.length < pos then buf ++ List.replicate (pos - buf.length) 0 else buf
  padded.take pos ++ p ++ padded.drop (pos + p.length)

/-- `enterWriteMode` -/
def enterWriteModeCore (f : FsCfg) (h : Handle) : M Handle := do
  match h.wbuf with
  | some _ => pure h
  | none =>
    let existing ← M.attempt (stat h.path false)
    let exists_ ← (match existing with
      | .ok e => pure (e.size != 0)
      | .error .noRows => pure false
      | .error e => M.fail e)
    let buf ← (if exists_ then restoreContent f h.path else pure [])
    -- `Restore` leaves the cache's cursor behind what it wrote; `Truncate(0)` does not move it
    let cur := if h.flags.append then buf.length else 0
    let buf := if h.flags.truncate then [] else buf
    pure { h with wbuf := some (buf, cur) }

/-- `enterWriteMode`: a streaming read is closed first (`closeWithoutLocking`: the pipe is
    closed and its goroutine ends), then the write cache is set up -/
def enterWriteMode (f : FsCfg) (h : Handle) : M Handle := enterWriteModeCore f { h with reader := none }

def hWrite (f : FsCfg) (h : Handle) (p : Bytes) : M (Handle × Nat) := do
  if h.info.isDir then M.fail .isDirectory else
  if !h.flags.write then M.fail .permission else
  let h ← enterWriteMode f h
  if h.bufClosed then M.fail .closed else
  match h.wbuf with
  | none => M.fail .other
  | some (buf, cur) =>
    pure ({ h with wbuf := some (writeAt buf cur p, cur + p.length) }, p.length)

/-- `syncWithoutLocking`: flush the cache as a content-replacing UPDATE -/
def hSyncNoLock (f : FsCfg) (env : Env) (h : Handle) : M Handle := do
  if h.info.isDir then M.fail .isDirectory else
  match h.wbuf with
  | none => pure h
  | some (buf, cur) =>
    if h.bufClosed then
      -- `writeBuf.Size()` / `Seek` fail inside `Update`, which returns with the writer open
      M.wedge .closed
    else
    let info := { h.info with size := buf.length }
    let src : Src :=
      { path := h.path, link := h.link
        typeflag := if info.isDir then tfDir else if info.isSymlink then tfSym else tfReg
        size := buf.length
        attrs := { mode := info.perm, mtime := info.mtime }
        data := buf }
    M.op (fun w => update f.c w [src] true true env.recs)
    pure { h with info := info, wbuf := some (buf, cur), bufClosed := true }

def hCloseCore (f : FsCfg) (env : Env) (h : Handle) : M Handle := do
  match h.wbuf with
  | none => pure h
  | some _ =>
    let h ← hSyncNoLock f env h
    pure { h with wbuf := none, bufClosed := false }

/-- `closeWithoutLocking`: close a streaming read, flush and drop the write cache -/
def hClose (f : FsCfg) (env : Env) (h : Handle) : M Handle := hCloseCore f env { h with reader := none }

def hReaddir (h : Handle) (count : Int) : M (List Info) := do
  if !h.info.isDir then M.fail .isFile else
  let hs ← list h.path count
  pure (hs.map Info.ofHdr)

/-- the header of the record a path's row points at -/
def fetchedHeader (f : FsCfg) (path : Name) : M (Option Hdr) := do
  let src := trimSuffix path [slash]
  match ← M.attempt (M.idx (·.getHeader src)) with
  | .ok row =>
    let w ← M.get
    pure ((fetchAt f.c w.tape row.recd row.blk).map (·.1))
  | .error _ => pure none

/-- `Open; ReadAll; Close` on a path.  When the row's position designates a *directory* record
    (only possible once positions are wrong, finding F20) `Fetch` returns without closing the
    pipe: the read never ends while holding the filesystem lock. -/
def cat (f : FsCfg) (env : Env) (name : Name) : M Bytes := do
  let o ← fsOpen f env name
  if !o.flags.read then M.fail .permission else
  if o.hdr.typeflag == tfDir then M.fail .isDirectory else
  match ← fetchedHeader f o.path with
  | some h =>
    if h.typeflag == tfDir then M.wedge .stuck
    else if f.c.emptyDecodeFails && h.size == 0 && (h.pax.get Gen.recSTFSRecordUncompressedSize).isNone then
      -- a record without content under a codec: decoding the empty stream fails and the read
      -- returns that error (finding F30)
      M.fail f.c.emptyReadErr
    else restoreContent f o.path
  | none => restoreContent f o.path

end Stfs
