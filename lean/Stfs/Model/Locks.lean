/-
  Lock discipline over the *generated* lock skeletons (`Gen/Locks.lean`): a forward pass that
  computes, for every exit of a function, whether the drive and every mutex taken inside the
  function are released again there (deferred releases run at every exit).

  Events inside `if` blocks other than exits are treated as unconditional and loop bodies as
  executed once; both are sound for the property checked because `loopsNeutral` /
  `branchesNeutral` (decided on the generated table) say that no lock or drive event sits in a
  loop body, so the balance at an exit does not depend on the iteration count.
-/
import Stfs.Gen.Locks
namespace Stfs.Locks
open Stfs.Gen

abbrev LName := List Nat

structure St where
  drive : Nat := 0            -- outstanding GetWriter/GetReader
  deferDrive : Nat := 0       -- deferred CloseReader/CloseWriter
  locks : List LName := []    -- mutexes held (multiset)
  deferLocks : List LName := []
deriving DecidableEq, Repr

/-- what is still held after the deferred releases have run -/
def St.afterDefers (s : St) : Nat × List LName :=
  (s.drive - s.deferDrive, s.deferLocks.foldl (fun ls l => ls.erase l) s.locks)

def St.balanced (s : St) : Bool := s.afterDefers.1 == 0 && s.afterDefers.2.isEmpty

def step (s : St) : LEv → St
  | .lock l => { s with locks := l :: s.locks }
  | .unlock l => { s with locks := s.locks.erase l }
  | .deferUnlock l => { s with deferLocks := l :: s.deferLocks }
  | .acquire => { s with drive := s.drive + 1 }
  | .release => { s with drive := s.drive - 1 }
  | .deferRelease => { s with deferDrive := s.deferDrive + 1 }
  | _ => s

/-- a site: the callee whose failure the exit handles and its ordinal; `ret` is `([], 0)` -/
abbrev Site := LName × Nat

/-- the state at every exit of the function, in source order -/
def scan : List LEv → St → List (Site × St)
  | [], _ => []
  | .exit c n :: rest, s => ((c, n), s) :: scan rest s
  | .ret :: rest, s => (([], 0), s) :: scan rest s
  | e :: rest, s => scan rest (step s e)

/-- one execution: at each exit the next choice decides whether the function returns there -/
def run : List LEv → St → List Bool → Option (Site × St)
  | [], _, _ => none
  | .exit c n :: rest, s, ch :: chs => if ch then some ((c, n), s) else run rest s chs
  | .exit _ _ :: rest, s, [] => run rest s []
  | .ret :: _, s, _ => some (([], 0), s)
  | e :: rest, s, chs => run rest (step s e) chs

/-- every execution ends at one of the scanned exits, in the scanned state -/
theorem run_mem_scan (evs : List LEv) : ∀ (s : St) (chs : List Bool) (r : Site × St),
    run evs s chs = some r → r ∈ scan evs s := by
  induction evs with
  | nil => intro s chs r h; simp [run] at h
  | cons e rest ih =>
    intro s chs r h
    cases e with
    | exit c n =>
      cases chs with
      | nil => simp only [run] at h; simp only [scan]; exact List.mem_cons_of_mem _ (ih s [] r h)
      | cons ch chs =>
        simp only [run] at h
        simp only [scan]
        split at h
        · injection h with h; subst h; exact List.mem_cons_self
        · exact List.mem_cons_of_mem _ (ih s chs r h)
    | ret => simp only [run] at h; injection h with h; subst h; simp [scan]
    | lock l => simp only [run, scan] at h ⊢; exact ih _ chs r h
    | unlock l => simp only [run, scan] at h ⊢; exact ih _ chs r h
    | deferUnlock l => simp only [run, scan] at h ⊢; exact ih _ chs r h
    | acquire => simp only [run, scan] at h ⊢; exact ih _ chs r h
    | release => simp only [run, scan] at h ⊢; exact ih _ chs r h
    | deferRelease => simp only [run, scan] at h ⊢; exact ih _ chs r h
    | loopStart => simp only [run, scan] at h ⊢; exact ih _ chs r h
    | loopEnd => simp only [run, scan] at h ⊢; exact ih _ chs r h
    | callLocal f => simp only [run, scan] at h ⊢; exact ih _ chs r h
    | spawn => simp only [run, scan] at h ⊢; exact ih _ chs r h
    | panic => simp only [run, scan] at h ⊢; exact ih _ chs r h

/-- exits at which something is still held -/
def leakSites (evs : List LEv) (s0 : St := {}) : List Site :=
  ((scan evs s0).filter (fun x => !x.2.balanced)).map (·.1)

/-- soundness: when an execution returns at a site that is not a leak site, everything the
    function took is released -/
theorem no_leak_sound (evs : List LEv) (s0 : St) (chs : List Bool) (site : Site) (s : St)
    (h : run evs s0 chs = some (site, s)) (hn : site ∉ leakSites evs s0) : s.balanced = true := by
  have hm := run_mem_scan evs s0 chs _ h
  cases hb : s.balanced with
  | true => rfl
  | false =>
    exfalso; apply hn
    unfold leakSites
    rw [List.mem_map]
    exact ⟨(site, s), List.mem_filter.mpr ⟨hm, by simp [hb]⟩, rfl⟩

/-- no lock or drive event inside a loop body -/
def loopsNeutralAux : List LEv → Nat → Bool
  | [], _ => true
  | .loopStart :: rest, d => loopsNeutralAux rest (d + 1)
  | .loopEnd :: rest, d => loopsNeutralAux rest (d - 1)
  | .exit _ _ :: rest, d => loopsNeutralAux rest d
  | .ret :: rest, d => loopsNeutralAux rest d
  | .callLocal _ :: rest, d => loopsNeutralAux rest d
  | .spawn :: rest, d => loopsNeutralAux rest d
  | .panic :: rest, d => loopsNeutralAux rest d
  | _ :: rest, d => d == 0 && loopsNeutralAux rest d

def loopsNeutral (evs : List LEv) : Bool := loopsNeutralAux evs 0

def skeleton (name : LName) : List LEv := ((lockSkeletons.find? (·.1 == name)).map (·.2)).getD []

/-- inline local closures (one level): their exits become exits of the caller, their final
    `ret` falls through -/
def expand (evs : List LEv) : List LEv :=
  evs.flatMap (fun e => match e with
    | .callLocal f => (skeleton f).filter (fun x => x != .ret)
    | e => [e])

end Stfs.Locks
