/-
  Line-protocol driver: reads calls (and the oracle inputs the model cannot know) and prints
  the model's observations in the same canonical text the Go harness prints for the
  implementation.  Core-only imports, so it links as a `lean_exe`.

  Fields are separated by tabs.  Names are code points in hex separated by `.`, the empty
  name is `-`.
-/
import Stfs.Model.Sys
import Stfs.Model.Trig
import Stfs.Model.Keys
import Stfs.Model.Sig
import Stfs.Model.Cut
import Stfs.Spec.RefFs
import Stfs.Spec.ByteFile
namespace Stfs.Driver
open Stfs

def hexDigit (n : Nat) : Char := if n < 10 then Char.ofNat (48 + n) else Char.ofNat (87 + n)

def hexOf (n : Nat) : String :=
  if n < 16 then String.singleton (hexDigit n) else hexOf (n / 16) ++ String.singleton (hexDigit (n % 16))

def encName (n : Name) : String :=
  if n == [] then "-" else ".".intercalate (n.map hexOf)

def hexVal (c : Char) : Option Nat :=
  if '0' ≤ c && c ≤ '9' then some (c.toNat - 48)
  else if 'a' ≤ c && c ≤ 'f' then some (c.toNat - 87)
  else none

def parseHex (s : String) : Option Nat :=
  if s.isEmpty then none else
  s.toList.foldl (fun acc c => match acc, hexVal c with
    | some a, some v => some (a * 16 + v)
    | _, _ => none) (some 0)

def decName (s : String) : Option Name :=
  if s == "-" then some [] else (s.splitOn ".").mapM parseHex

def encPax (p : Pax) : String :=
  if p == [] then "-" else ",".intercalate (p.map (fun kv => encName kv.1 ++ "=" ++ encName kv.2))

def encErr : Err → String
  | .noRows => "norows" | .unique => "unique" | .headerMissing => "hdrmissing"
  | .actionUnsupported => "badaction" | .versionUnsupported => "badversion" | .badSize => "badsize"
  | .unexpectedEOF => "ueof" | .noRoot => "noroot" | .notExist => "notexist" | .exist => "exist"
  | .permission => "permission" | .invalid => "invalid" | .isDirectory => "isdir" | .isFile => "isfile"
  | .notEmpty => "notempty" | .notImplemented => "notimpl" | .closed => "closed" | .stuck => "stuck"
  | .crash => "crash" | .other => "other"

/-- only the `STFS.*` keys are compared (a tape parse adds the standard PAX keys) -/
def stfsPax (p : Pax) : Pax := p.filter (fun kv => hasPrefix kv.1 Gen.recSTFSPrefix &&
  kv.1 != Gen.recSTFSRecordSignature && kv.1 != Gen.recSTFSRecordEmbeddedHeader)

def encRow (r : Row) : String :=
  "\t".intercalate ["row", encName r.name, encName r.linkname, toString r.hdr.typeflag, toString r.hdr.size,
    toString r.recd, toString r.blk, toString r.lkRecd, toString r.lkBlk, (if r.deleted then "1" else "0"),
    toString r.hdr.attrs.mode, toString r.hdr.attrs.uid, toString r.hdr.attrs.gid,
    encName r.hdr.attrs.uname, encName r.hdr.attrs.gname,
    toString r.hdr.attrs.mtime, toString r.hdr.attrs.atime, toString r.hdr.attrs.ctime,
    encPax (stfsPax r.hdr.pax)]

def encItems : Tape → Nat → List String
  | [], _ => []
  | .trailer :: rest, b => ("trl\t" ++ toString b) :: encItems rest (b + 2)
  | .recd h hb st _ :: rest, b =>
    ("\t".intercalate ["rec", toString b, toString hb, toString (blocksOf st), toString h.typeflag,
      encName h.name, encName h.linkname, toString h.size, encPax (stfsPax h.pax)]) :: encItems rest (b + hb + blocksOf st)

def encInfo (i : Info) : String :=
  " ".intercalate [encName i.name, toString i.size, toString i.perm, (if i.isDir then "d" else if i.isSymlink then "l" else "f"),
    toString i.mtime, toString i.uid, toString i.gid]

def polyHash (b : Bytes) : Nat := b.foldl (fun acc x => (acc * 257 + x + 1) % 1000000007) 0

/-- the byte generator shared with the harness: `len` bytes from `seed` -/
def genBytesAux (kind : Nat) : Nat → Nat → Bytes
  | 0, _ => []
  | n + 1, s =>
    let s' := (s * 1103515245 + 12345) % 2147483648
    (if kind == 2 then 0 else if kind == 1 then 97 + s' / 65536 % 4 else s' / 65536 % 256) :: genBytesAux kind n s'

/-- the content generator shared with the harness: the seed selects the distribution (random
    bytes below 2^20, low-entropy text from 2^20, zeros from 2^21) -/
def genBytes (n seed : Nat) : Bytes :=
  genBytesAux (if seed ≥ 2097152 then 2 else if seed ≥ 1048576 then 1 else 0) n seed

/-- a handle of the reference filesystem: path, may write, pending buffer -/
structure RefHandle where
  path : Name
  isDir : Bool := false
  bf : ByteFile.BF := {}
deriving Inhabited

structure DState where
  fs : FsCfg := {}
  w : World := {}
  env : Env := {}
  handles : List (Nat × Handle) := []
  ref : RefFs.State := RefFs.State.init
  refHandles : List (Nat × RefHandle) := []
  snapshot : List Row := []
  /-- what a `@cuttape` left at the end of the drive (not part of `World`: histories with torn
      tails are outside the theorems, the driver only predicts what opening over them does) -/
  tail : Torn := .clean
  /-- the model has given up on this history (a write after a torn, unaligned tail) -/
  unmodelled : Bool := false
  /-- items of a foreign archive announced by `item` lines, consumed by `@foreign` -/
  items : Tape := []
  /-- the announced archive contains a lone zero block (record padding of odd length), which
      the model's tape cannot represent -/
  itemsOdd : Bool := false
deriving Inhabited

def kvs (fields : List String) : List (String × String) :=
  fields.filterMap (fun f => match f.splitOn "=" with
    | [k, v] => some (k, v)
    | _ => none)

def kv (l : List (String × String)) (k : String) : Option String := (l.find? (·.1 == k)).map (·.2)
def kvNat (l : List (String × String)) (k : String) (d : Nat) : Nat := ((kv l k).bind String.toNat?).getD d
def kvInt (l : List (String × String)) (k : String) (d : Int) : Int := ((kv l k).bind String.toInt?).getD d
def kvName (l : List (String × String)) (k : String) : Name := ((kv l k).bind decName).getD []

def parseCfg (fields : List String) : FsCfg :=
  let l := kvs fields
  { c := { rs := kvInt l "rs" 20, compression := kvName l "comp", encryption := kvName l "enc", signature := kvName l "sig" }
    readOnly := kvNat l "ro" 0 == 1
    writePermImpliesReadPerm := kvNat l "wpirp" 1 == 1
    uid := kvInt l "uid" 0, gid := kvInt l "gid" 0, uname := kvName l "uname", gname := kvName l "gname" }

def parseRecs (s : String) : EnvRecs :=
  if s == "-" || s.isEmpty then [] else
  (s.splitOn ",").filterMap (fun p => match p.splitOn ":" with
    | [a, b] => match a.toNat?, b.toNat? with
      | some x, some y => some (x, y)
      | _, _ => none
    | _ => none)

def parseEnv (fields : List String) : Env :=
  let l := kvs fields
  { now := kvInt l "now" 0, recs := parseRecs ((kv l "recs").getD "-") }

def nameArg (args : List String) (i : Nat) : Name := ((args[i]?).bind decName).getD []
def natArg (args : List String) (i : Nat) : Nat := ((args[i]?).bind String.toNat?).getD 0
def intArg (args : List String) (i : Nat) : Int := ((args[i]?).bind String.toInt?).getD 0

/-- parse a protocol call -/
def parseCall (method : String) (args : List String) : Option Call :=
  match method with
  | "initialize" => some (.init (nameArg args 0) (intArg args 1))
  | "mkdir" => some (.mkdir (nameArg args 0) (intArg args 1))
  | "mkdirall" => some (.mkdirAll (nameArg args 0) (intArg args 1))
  | "remove" => some (.remove (nameArg args 0))
  | "removeall" => some (.removeAll (nameArg args 0))
  | "rename" => some (.rename (nameArg args 0) (nameArg args 1))
  | "chmod" => some (.chmod (nameArg args 0) (intArg args 1))
  | "chown" => some (.chown (nameArg args 0) (intArg args 1) (intArg args 2))
  | "chtimes" => some (.chtimes (nameArg args 0) (intArg args 1) (intArg args 2))
  | "symlink" => some (.symlink (nameArg args 0) (nameArg args 1))
  | "stat" => some (.stat (nameArg args 0))
  | "lstat" => some (.lstat (nameArg args 0))
  | "readlink" => some (.readlink (nameArg args 0))
  | "cat" => some (.cat (nameArg args 0))
  | "create" => some (.create (natArg args 0) (nameArg args 1))
  | "openfile" => some (.openFile (natArg args 0) (nameArg args 1) (natArg args 2) (intArg args 3))
  | "open" => some (.open_ (natArg args 0) (nameArg args 1))
  | "hwrite" => some (.hwrite (natArg args 0) (genBytes (natArg args 1) (natArg args 2)))
  | "hwritestr" => some (.hwriteString (natArg args 0) (genBytes (natArg args 1) (natArg args 2)))
  | "hread" => some (.hread (natArg args 0) (natArg args 1))
  | "hreadat" => some (.hreadAt (natArg args 0) (natArg args 1) (intArg args 2))
  | "hseek" => some (.hseek (natArg args 0) (intArg args 1) (intArg args 2))
  | "hwriteat" => some (.hwriteAt (natArg args 0) (genBytes (natArg args 1) (natArg args 2)) (intArg args 3))
  | "htruncate" => some (.htruncate (natArg args 0) (intArg args 1))
  | "hstat" => some (.hstat (natArg args 0))
  | "hname" => some (.hname (natArg args 0))
  | "hsync" => some (.hsync (natArg args 0))
  | "hclose" => some (.hclose (natArg args 0))
  | "hreaddir" => some (.hreaddir (natArg args 0) (intArg args 1))
  | _ => none

def encVal : Val → String
  | .unit => ""
  | .name n => encName n
  | .info i => encInfo i
  | .infos is => ";".intercalate (is.map encInfo)
  | .bytes b => toString b.length ++ " " ++ toString (polyHash b)
  | .count n => toString n
  | .read b eof => toString b.length ++ " " ++ toString (polyHash b) ++ " " ++ (if eof then "1" else "0")
  | .offset i => toString i
  | .badHandle => "badhandle"

/-- run one call on the model; returns the new state and the `res` line -/
def runCall (s : DState) (method : String) (args : List String) : DState × String :=
  match parseCall method args with
  | none => (s, "res\tbadcall")
  | some c =>
    let (sys, r) := (Sys.step s.fs { w := s.w, handles := s.handles } s.env c)
    let s := { s with w := sys.w, handles := sys.handles }
    match r with
    | .ok .badHandle => (s, "res\tbadhandle")
    | .ok v => (s, let t := encVal v; if t.isEmpty then "res\tok" else "res\tok\t" ++ t)
    | .error e => (s, "res\t" ++ encErr e)

/-- everything observable after a call -/
def observe (before : World) (s : DState) : List String :=
  let rows := s.w.idx.rows.map encRow
  let newItems := s.w.tape.drop before.tape.length
  let recs := encItems newItems (tapeBlocks (s.w.tape.take before.tape.length))
  rows ++ recs ++ ["root\t" ++ encName s.w.idx.root ++ "\t" ++ (if s.w.idx.rootIsEmpty then "1" else "0"),
                    "blocks\t" ++ toString (tapeBlocks s.w.tape)]

def encRes : RefFs.Res → String
  | .ok => "ok" | .notExist => "notexist" | .exist => "exist" | .invalid => "invalid"
  | .isDirectory => "isdir" | .isFile => "isfile" | .notEmpty => "notempty" | .permission => "permission"

def insertSorted (e : Name × RefFs.Node) : List (Name × RefFs.Node) → List (Name × RefFs.Node)
  | [] => [e]
  | x :: xs => if nameLt e.1 x.1 then e :: x :: xs else x :: insertSorted e xs

def encTree (st : RefFs.State) : List String :=
  (st.entries.foldr insertSorted []).map (fun (p, n) =>
    match n with
    | .dir a => "\t".intercalate ["tree", encName p, "d", "0", toString a.perm, toString a.uid, toString a.gid, toString a.mtime, "-", "0"]
    | .file a d => "\t".intercalate ["tree", encName p, "f", toString d.length, toString a.perm, toString a.uid, toString a.gid, toString a.mtime, "-", toString (polyHash d)]
    | .symlink t => "\t".intercalate ["tree", encName p, "l", "0", "0", "0", "0", "0", encName t, "0"])

/-- drive the reference filesystem with the same call -/
def refCall (s : DState) (method : String) (args : List String) : DState × String :=
  let st := s.ref
  let uid := s.fs.uid
  let gid := s.fs.gid
  let now := s.env.now
  let upd (r : RefFs.State × RefFs.Res) : DState × String := ({ s with ref := r.1 }, "refres\t" ++ encRes r.2)
  if s.fs.readOnly && ["mkdir", "mkdirall", "remove", "removeall", "rename", "chmod", "chown", "chtimes", "symlink", "create"].contains method then
    (s, "refres\tpermission") else
  match method with
  | "initialize" => ({ s with ref := RefFs.initFs st (intArg args 1) uid gid now }, "refres\tok")
  | "mkdir" => upd (RefFs.mkdir st (nameArg args 0) (intArg args 1) uid gid now)
  | "mkdirall" => upd (RefFs.mkdirAll st (nameArg args 0) (intArg args 1) uid gid now)
  | "remove" => upd (RefFs.remove st (nameArg args 0))
  | "removeall" => upd (RefFs.removeAll st (nameArg args 0))
  | "rename" => upd (RefFs.rename st (nameArg args 0) (nameArg args 1))
  | "chmod" => upd (RefFs.chmod st (nameArg args 0) (intArg args 1))
  | "chown" => upd (RefFs.chown st (nameArg args 0) (intArg args 1) (intArg args 2))
  | "chtimes" => upd (RefFs.chtimes st (nameArg args 0) (intArg args 2))
  | "symlink" => upd (RefFs.symlink st (nameArg args 0) (nameArg args 1))
  | "create" | "openfile" | "open" =>
    let id := natArg args 0
    let flag := match method with
      | "create" => O_RDWR + O_CREATE + O_TRUNC
      | "open" => 0
      | _ => natArg args 2
    let perm : Int := if method == "create" then 438 else intArg args 3
    let acc := flag % 4
    let writable := !s.fs.readOnly && (acc == O_WRONLY || acc == O_RDWR)
    let wantsWrite := writable || hasFlag flag O_APPEND || hasFlag flag O_TRUNC
    let (st', r, p) := RefFs.openFile st (nameArg args 1) (!s.fs.readOnly && hasFlag flag O_CREATE) (hasFlag flag O_EXCL)
      (!s.fs.readOnly && wantsWrite) perm uid gid now
    let s := { s with ref := st' }
    if r == .ok then
      let trunc := hasFlag flag O_TRUNC && writable
      let st'' := if trunc then RefFs.flush st' p [] else st'
      let isDir := (st''.get p).map (·.isDir) == some true
      let content := (RefFs.content st'' p).getD []
      let canRead := acc == 0 || acc == O_RDWR || (acc == O_WRONLY && s.fs.writePermImpliesReadPerm)
      let bf : ByteFile.BF := { data := content, pos := 0, canRead := canRead, canWrite := writable, append := hasFlag flag O_APPEND }
      ({ s with ref := st'', refHandles := (id, { path := p, isDir := isDir, bf := bf }) :: s.refHandles.filter (·.1 != id) },
       "refres\tok")
    else (s, "refres\t" ++ encRes r)
  | "hwrite" | "hwritestr" | "hread" | "hreadat" | "hseek" | "hwriteat" | "htruncate" | "hstat" | "hsync" | "hclose" =>
    let id := natArg args 0
    (match (s.refHandles.find? (·.1 == id)).map (·.2) with
     | none => (s, "refres\tbadhandle")
     | some h =>
       let setH (h' : RefHandle) : DState := { s with refHandles := (id, h') :: s.refHandles.filter (·.1 != id) }
       let encR : ByteFile.R → String
         | .ok => "ok" | .permission => "permission" | .invalid => "invalid"
       if h.isDir && method != "hclose" && method != "hstat" && method != "hseek" then (s, "refres\tisdir") else
       match method with
       | "hwrite" | "hwritestr" =>
         let (bf, r, n) := ByteFile.write h.bf (genBytes (natArg args 1) (natArg args 2))
         (setH { h with bf := bf }, "refres\t" ++ encR r ++ (if r == .ok then "\t" ++ toString n else ""))
       | "hwriteat" =>
         let (bf, r, n) := ByteFile.writeAt h.bf (genBytes (natArg args 1) (natArg args 2)) (intArg args 3)
         (setH { h with bf := bf }, "refres\t" ++ encR r ++ (if r == .ok then "\t" ++ toString n else ""))
       | "hread" =>
         let (bf, r, out) := ByteFile.read h.bf (natArg args 1)
         (setH { h with bf := bf }, "refres\t" ++ encR r ++ (if r == .ok then "\t" ++ toString out.length ++ " " ++ toString (polyHash out) else ""))
       | "hreadat" =>
         let (bf, r, out) := ByteFile.readAt h.bf (natArg args 1) (intArg args 2)
         (setH { h with bf := bf }, "refres\t" ++ encR r ++ (if r == .ok then "\t" ++ toString out.length ++ " " ++ toString (polyHash out) else ""))
       | "hseek" =>
         if h.isDir then (s, "refres\tok\t0") else
         let (bf, r, o) := ByteFile.seek h.bf (intArg args 1) (intArg args 2)
         (setH { h with bf := bf }, "refres\t" ++ encR r ++ (if r == .ok then "\t" ++ toString o else ""))
       | "htruncate" =>
         let (bf, r) := ByteFile.truncate h.bf (intArg args 1)
         (setH { h with bf := bf }, "refres\t" ++ encR r)
       | "hstat" => (s, "refres\tok\tsize=" ++ toString h.bf.data.length)
       | _ =>
         -- hsync / hclose: flush what was written
         let st' := if h.bf.dirty then RefFs.flush st h.path h.bf.data else st
         let hs := if method == "hclose" then s.refHandles.filter (·.1 != id) else (id, { h with bf := { h.bf with dirty := false } }) :: s.refHandles.filter (·.1 != id)
         ({ s with ref := st', refHandles := hs }, "refres\tok"))
  | _ => (s, "refres\t-")

def step (s : DState) (line : String) : DState × List String :=
  match line.splitOn "\t" with
  | "cfg" :: fields => ({ s with fs := parseCfg fields }, [])
  | "hist" :: id :: _ => ({ (default : DState) with fs := s.fs }, ["hist\t" ++ id])
  | "key" :: f :: g :: p :: _ =>
    -- C18: keygen under password g, parse with password p; pair 1 is the pair itself, pair 2 another one
    let fmt : Option Keys.KFmt := match f with
      | "age" => some .age | "pgp" => some .pgp | "minisign" => some .minisign | _ => none
    (match fmt, decName g, decName p with
     | some fmt, some g, some p =>
       let r := Keys.parse fmt (Keys.keygen fmt g 1) p
       let (ps, use, cross) := match r with
         | none => ("err", "-", "-")
         | some i => ("ok", (if Keys.works i 1 then "ok" else "fail"), (if Keys.works i 2 then "ok" else "fail"))
       let trig := if Keys.pgpEmptyPassword fmt g p then "pgpEmptyPassword" else ""
       (s, ["keyres\tparse=" ++ ps ++ "\tuse=" ++ use ++ "\tcross=" ++ cross ++ "\ttrig=" ++ trig])
     | _, _, _ => (s, ["keyres\tbad-line"]))
  | "sig" :: f :: cls :: _ =>
    -- C08: the verdict of VerifyHeader (recipient = public half of key 1) on a forged record
    let fmt : Option Sig.SFmt := match f with | "minisign" => some .minisign | "pgp" => some .pgp | _ => none
    let e : Name := [123, 125]
    let e' : Name := [123, 32, 125]
    let o : Option Sig.Outer := match cls with
      | "legit" | "outerExtras" | "outerSize" => some { embedded := some e, sig := some (.valid 1 e) }
      | "editedEmbedded" | "reencoded" => some { embedded := some e', sig := some (.valid 1 e) }
      | "swapped" => some { embedded := some e, sig := some (.valid 1 e') }
      | "otherKey" => some { embedded := some e, sig := some (.valid 2 e) }
      | "missingSig" => some { embedded := some e, sig := none }
      | "missingEmbedded" => some { embedded := none, sig := some (.valid 1 e) }
      | "forgedNotPacket" => some { embedded := some e', sig := some .notPacket }
      | "forgedUndecodable" => some { embedded := some e', sig := some .undecodable }
      | "undecodable" => some { embedded := some e, sig := some .undecodable }
      | "notPacket" => some { embedded := some e, sig := some .notPacket }
      | "notSignature" => some { embedded := some e, sig := some .notSignature }
      | "noPax" => some { hasPax := false }
      | _ => none
    (match fmt, o with
     | some fmt, some o => (s, ["sigres\t" ++ (if (Sig.verifyHeader fmt 1 o).isSome then "accept" else "reject")])
     | _, _ => (s, ["sigres\tbad-line"]))
  | "env" :: fields => ({ s with env := parseEnv fields }, [])
  | "item" :: "trl" :: _ => ({ s with items := s.items ++ [.trailer] }, [])
  | "item" :: "zero" :: _ => ({ s with itemsOdd := true }, [])
  | "item" :: "rec" :: f =>
    -- hb stored typeflag name linkname size mode uid gid uname gname mtime atime ctime len seed
    let h : Hdr := { typeflag := natArg f 2, name := nameArg f 3, linkname := nameArg f 4, size := intArg f 5,
                     attrs := { mode := intArg f 6, uid := intArg f 7, gid := intArg f 8, uname := nameArg f 9, gname := nameArg f 10,
                                mtime := intArg f 11, atime := intArg f 12, ctime := intArg f 13 } }
    ({ s with items := s.items ++ [.recd h (natArg f 0) (natArg f 1) (genBytes (natArg f 14) (natArg f 15))] }, [])
  | "call" :: "@foreign" :: args =>
    -- the drive is replaced by an archive written by a standard tar writer; no index, new process
    let s' := { s with w := { tape := s.items, idx := {}, stuck := false }, handles := [], refHandles := [], items := [],
                       tail := .clean, unmodelled := s.itemsOdd, itemsOdd := false }
    if s'.unmodelled then (s', ["call\t@foreign\t" ++ "\t".intercalate args, "unmodelled", "end"]) else
    (s', ["call\t@foreign\t" ++ "\t".intercalate args, "res\tok"] ++ observe s'.w s' ++ ["refres\t-"] ++ encTree s'.ref ++ ["end"])
  | "call" :: "@rebuildcut" :: c :: _ =>
    -- a from-scratch rebuild of the current tape cut at byte c (the running instance is untouched)
    let (idx, e) := rebuildCut s.fs.c s.w.tape (c.toNat?.getD 0)
    (s, ["call\t@rebuildcut\t" ++ c, (match e with | none => "res\tok" | some e => "res\t" ++ encErr e)] ++
        idx.rows.map encRow ++ ["refres\t-", "end"])
  | "call" :: "@cuttape" :: c :: _ =>
    -- the drive loses everything from byte c on (a crash); the process is gone too
    let (pre, torn) := cutAt s.w.tape 0 (c.toNat?.getD 0)
    let s' := { s with w := { s.w with tape := pre, stuck := false }, tail := torn, handles := [], refHandles := [] }
    (s', ["call\t@cuttape\t" ++ c, "res\tok"] ++ observe s'.w s' ++
      (match torn with | .clean => [] | _ => ["trig\ttornTail"]) ++ ["refres\t-"] ++ encTree s'.ref ++ ["end"])
  | "call" :: "@snapshot" :: _ =>
    let s' := { s with snapshot := s.w.idx.rows }
    (s', ["call\t@snapshot", "res\tok"] ++ observe s.w s' ++ ["refres\t-"] ++ encTree s'.ref ++ ["end"])
  | "call" :: "@reopen" :: args =>
    -- a fresh process over the same drive: new lock state, no handles, the persister re-opens
    let mode := (args.find? (·.startsWith "index=")).map (fun a => (a.drop 6).toString)
    let rows := match mode with
      | some "drop" => []
      | some "snap" => s.snapshot
      | _ => s.w.idx.rows
    let idx0 : Idx := { rows := rows }
    let idx := (idx0.getRootPath).1      -- `MetadataPersister.Open` caches the root when there is one
    let fs := { s.fs with readOnly := if args.contains "ro=1" then true else if args.contains "ro=0" then false else s.fs.readOnly }
    let s' := { s with fs := fs, w := { s.w with idx := idx, stuck := false }, handles := [], refHandles := [] }
    let stale := mode == some "snap" && s.snapshot != s.w.idx.rows
    (s', ["call\t@reopen\t" ++ "\t".intercalate args, "res\tok"] ++ observe s.w s' ++
      (if stale then ["trig\tstaleIndexOpened"] else []) ++ ["refres\t-"] ++ encTree s'.ref ++ ["end"])
  | "call" :: method :: args =>
    if s.unmodelled then (s, ["call\t" ++ method ++ "\t" ++ "\t".intercalate args, "unmodelled", "trig\tappendAfterTornTail", "end"]) else
    let tornTail := match s.tail with | .clean => false | _ => true
    let isWrite := ["mkdir", "mkdirall", "remove", "removeall", "rename", "chmod", "chown", "chtimes", "symlink", "create", "openfile", "hclose", "hsync"].contains method
    if tornTail && isWrite then
      ({ s with unmodelled := true }, ["call\t" ++ method ++ "\t" ++ "\t".intercalate args, "unmodelled", "trig\tappendAfterTornTail", "end"]) else
    if tornTail && method == "initialize" then
      -- `Initialize` over a torn tail: existing root → return it; else rebuild (contract R1–R4)
      (match (s.w.idx.getRootPath) with
       | (idx, .ok r) =>
         let s' := { s with w := { s.w with idx := idx } }
         (s', ["call\t" ++ method ++ "\t" ++ "\t".intercalate args, "res\tok\t" ++ encName r] ++ observe s.w s' ++ ["trig\ttornTail", "refres\t-"] ++ encTree s'.ref ++ ["end"])
       | (_, .error _) =>
         let full : Tape := s.w.tape
         let pos := posOfBlock s.fs.c.rs (tapeBlocks full)
         let (p0, e0) := indexLoopIdeal s.fs.c false 0 .tape {} 0 0 full
         let (p1, e1) : Idx × Option Err := match e0 with
           | some e => (p0, some e)
           | none => match s.tail with
             | .content h => (match applyRec s.fs.c p0 pos h false with
                 | (p', some e) => (p', some e)
                 | (p', none) => (p', some .unexpectedEOF))
             | .padding h => applyRec s.fs.c p0 pos h false
             | _ => (p0, none)
         match e1 with
         | none =>
           let (idx, r) := p1.getRootPath
           let s' := { s with w := { s.w with idx := idx } }
           (s', ["call\t" ++ method ++ "\t" ++ "\t".intercalate args,
                 (match r with | .ok n => "res\tok\t" ++ encName n | .error e => "res\t" ++ encErr e)] ++ observe s.w s' ++
                 ["trig\ttornTail", "refres\t-"] ++ encTree s'.ref ++ ["end"])
         | some _ =>
           -- the rebuild fails: `mkdirRoot` appends behind the torn tail — outside the model
           ({ s with unmodelled := true }, ["call\t" ++ method ++ "\t" ++ "\t".intercalate args, "unmodelled",
             "trig\trebuildFailsAtOpen\tappendAfterTornTail", "end"]))
    else
    let before := s.w
    let trigs := match parseCall method args with
      | some c => Trig.eval s.fs { w := s.w, handles := s.handles } c
      | none => []
    let trigs := trigs ++ (if method == "initialize" && (s.w.idx.getRootPath).2.toBool == false && s.w.tape != [] &&
        (rebuildOp s.fs s.w).2.isSome then ["rebuildFailsAtOpen"] else []) ++
      (if method == "@reopen" then [] else [])
    let (s', res) := runCall s method args
    let trigs := trigs ++ (Trig.evalPost s'.fs { w := s'.w, handles := s'.handles }).filter (fun t => !trigs.contains t)
    let (s', refres) := refCall s' method args
    -- byte-level handle calls: where the model's answer differs from the byte-array reference the
    -- deviation is a known one (finding F23); it stays known only while the implementation agrees
    -- with the model
    let payload (l : String) (pre : String) : List String := ((l.drop pre.length).toString.splitOn "\t").flatMap (·.splitOn " ")
    let agree : Bool :=
      if !["hread", "hreadat", "hseek", "hwrite", "hwritestr", "hwriteat", "htruncate"].contains method then true else
      let a := payload res "res\t"
      let b := payload refres "refres\t"
      if method == "hread" || method == "hreadat" then a.take 3 == b.take 3 else a == b
    -- … and the handle's state (content and cursor) against the reference's
    let stateAgree : Bool :=
      match (parseCall method args).bind Call.handleId with
      | none => true
      | some id =>
        match (s'.handles.find? (·.1 == id)).map (·.2), (s'.refHandles.find? (·.1 == id)).map (·.2) with
        | some mh, some rh =>
          if rh.isDir then true else
          (match mh.wbuf, mh.reader with
           | some (buf, cur), _ => buf == rh.bf.data && cur == rh.bf.pos
           | none, some (_, pos) => pos == rh.bf.pos
           | none, none => rh.bf.pos == 0 || !rh.bf.dirty)
        | _, _ => true
    let trigs := if agree && stateAgree then trigs else trigs ++ ["handleDeviates"]
    let s' := { s' with env := {} }
    (s', ["call\t" ++ method ++ "\t" ++ "\t".intercalate args, res] ++ observe before s' ++
      (if trigs.isEmpty then [] else ["trig\t" ++ "\t".intercalate trigs]) ++ [refres] ++ encTree s'.ref ++ ["end"])
  | _ => (s, [])

end Stfs.Driver
