/-
  C15 helpers: on an instance with `readOnly = true` no call changes the tape or the table;
  every mutating method answers `permission` before it looks at anything.
-/
import Stfs.Proofs.SysPres
namespace Stfs

theorem fail_bind {α β : Type} (e : Err) (k : α → M β) : (M.fail e >>= k) = M.fail e := by
  funext w; rfl

section
variable {f : FsCfg} (hro : f.readOnly = true) (env : Env)
include hro

theorem mkdirGuard_denied (n : Name) : mkdirGuard f n = M.fail .permission := by
  unfold mkdirGuard; simp [hro]

theorem mkdir_denied (n : Name) (p : Int) : mkdir f env n p = M.fail .permission := by
  unfold mkdir; rw [mkdirGuard_denied hro, fail_bind]

theorem mkdirAll_denied (n : Name) (p : Int) : mkdirAll f env n p = M.fail .permission := by
  unfold mkdirAll; simp [hro]

theorem remove_denied (n : Name) : remove f env n = M.fail .permission := by
  unfold remove; simp [hro]

theorem removeAll_denied (n : Name) : removeAll f env n = M.fail .permission := by
  unfold removeAll; simp [hro]

theorem renameGuard_denied (a b : Name) : renameGuard f a b = M.fail .permission := by
  unfold renameGuard; simp [hro]

theorem rename_denied (a b : Name) : rename f env a b = M.fail .permission := by
  unfold rename; rw [renameGuard_denied hro, fail_bind]

theorem attrGuard_denied (n : Name) : attrGuard f n = M.fail .permission := by
  unfold attrGuard; simp [hro]

theorem chmod_denied (n : Name) (m : Int) : chmod f env n m = M.fail .permission := by
  unfold chmod; rw [attrGuard_denied hro, fail_bind]

theorem chown_denied (n : Name) (u g : Int) : chown f env n u g = M.fail .permission := by
  unfold chown; rw [attrGuard_denied hro, fail_bind]

theorem chtimes_denied (n : Name) (a m : Int) : chtimes f env n a m = M.fail .permission := by
  unfold chtimes; rw [attrGuard_denied hro, fail_bind]

theorem symlinkGuard_denied (a b : Name) : symlinkGuard f a b = M.fail .permission := by
  unfold symlinkGuard; simp [hro]

theorem symlink_denied (a b : Name) : symlink f env a b = M.fail .permission := by
  unfold symlink; rw [symlinkGuard_denied hro, fail_bind]

theorem create_denied (n : Name) : create f env n = M.fail .permission := by
  unfold create; simp [hro]

theorem mknod_denied (a : Bool) (b : Name) (c : Int) (d : Bool) (e : Name) (g : Bool) :
    mknod f env a b c d e g = M.fail .permission := by
  unfold mknod; simp [hro]

theorem mkdirRoot_denied (r : Name) (p : Int) : mkdirRoot f env r p = M.fail .permission := by
  unfold mkdirRoot; simp [hro]

end

/-- same tape and same table as `w0` -/
def SameAs (w0 w : World) : Prop := w.tape = w0.tape ∧ w.idx.rows = w0.idx.rows

theorem sameAs_stable (w0 : World) : RowStable (SameAs w0) := by
  intro w p hp h
  exact ⟨h.1, by simp only; rw [hp]; exact h.2⟩

/-- values returned by a program satisfy `Q` -/
structure Post {α : Type} (Q : α → Prop) (m : M α) : Prop where
  run : ∀ w w' a, m w = (w', .ok a) → Q a

theorem Post.pure {α} {Q : α → Prop} (a : α) (h : Q a) : Post Q (Pure.pure a : M α) := by
  constructor
  intro w w' b hb
  have : (Pure.pure a : M α) w = (w, .ok a) := rfl
  rw [this] at hb
  injection hb with _ h2; injection h2 with h2; subst h2; exact h

theorem Post.fail {α} {Q : α → Prop} (e : Err) : Post Q (M.fail e : M α) := by
  constructor
  intro w w' b hb
  have : (M.fail e : M α) w = (w, .error e) := rfl
  rw [this] at hb
  injection hb with _ h2; cases h2

theorem Post.bind {α β} {Q : β → Prop} {g : M α} {k : α → M β} (hk : ∀ a, Post Q (k a)) : Post Q (g >>= k) := by
  constructor
  intro w w' b hb
  have : (g >>= k) w = (match g w with | (w1, .ok a) => k a w1 | (w1, .error e) => (w1, .error e)) := rfl
  rw [this] at hb
  split at hb
  · exact (hk _).run _ _ _ hb
  · injection hb with _ h2; cases h2

/-- sequencing with a postcondition of the first part available to the second -/
theorem Post.bind' {α β} {P : α → Prop} {Q : β → Prop} {g : M α} {k : α → M β} (hg : Post P g)
    (hk : ∀ a, P a → Post Q (k a)) : Post Q (g >>= k) := by
  constructor
  intro w w' b hb
  have : (g >>= k) w = (match g w with | (w1, .ok a) => k a w1 | (w1, .error e) => (w1, .error e)) := rfl
  rw [this] at hb
  split at hb
  · rename_i w1 a hga
    exact (hk a (hg.run w w1 a hga)).run _ _ _ hb
  · injection hb with _ h2; cases h2

theorem Post.ite {α} {Q : α → Prop} {c : Prop} [Decidable c] {a b : M α} (ha : Post Q a) (hb : Post Q b) :
    Post Q (if c then a else b) := by
  split <;> assumption

theorem Post.wedge {α} {Q : α → Prop} (e : Err) : Post Q (M.wedge e : M α) := by
  constructor
  intro w w' b hb
  have : (M.wedge e : M α) w = ({ w with stuck := true }, .error e) := rfl
  rw [this] at hb
  injection hb with _ h2; cases h2

/-- one step towards a `Post Q m` goal -/
syntax "post_step" : tactic
macro_rules
  | `(tactic| post_step) => `(tactic| first
      | with_reducible exact Post.fail _
      | with_reducible exact Post.wedge _
      | with_reducible apply Post.ite
      | (with_reducible apply Post.bind; intro _)
      | split)

/-- a handle that was obtained read-only and has no write cache -/
def HRO (h : Handle) : Prop := h.wbuf = none ∧ h.flags.write = false

@[simp] theorem HRO_reader (h : Handle) (r : Option (Bytes × Nat)) : HRO { h with reader := r } ↔ HRO h := Iff.rfl
@[simp] theorem HRO_info (h : Handle) (i : Info) : HRO { h with info := i } ↔ HRO h := Iff.rfl

/-- close `Post (fun r => HRO …) m` goals for the read-side handle methods -/
syntax "hro_step" : tactic
macro_rules
  | `(tactic| hro_step) => `(tactic| first
      | with_reducible exact Post.fail _
      | with_reducible exact Post.wedge _
      | (with_reducible apply Post.pure; first | assumption | (simp only [HRO_reader, HRO_info]; assumption) | (simp only [HRO] at *; simp_all))
      | with_reducible apply Post.ite
      | (with_reducible refine Post.bind' (P := HRO) ?_ ?_)
      | intro _ _
      | intro _
      | split)

theorem startReader_hro (f : FsCfg) (h : Handle) (hh : HRO h) : Post HRO (startReader f h) := by
  unfold startReader
  repeat (first | (with_reducible apply Post.bind; intro _) | hro_step)

/-- what `M.attempt` returns: a value satisfying the postcondition, or an error -/
theorem Post.attempt {α} {Q : α → Prop} {m : M α} (hm : Post Q m) :
    Post (fun r => match r with | .ok a => Q a | .error _ => True) (M.attempt m) := by
  constructor
  intro w w' r hr
  have : M.attempt m w = ((m w).1, .ok (m w).2) := rfl
  rw [this] at hr
  injection hr with h1 h2
  injection h2 with h2
  subst h2
  cases hres : (m w).2 with
  | error e => trivial
  | ok a =>
    have : m w = ((m w).1, .ok a) := by rw [← hres]
    exact hm.run w _ a this

theorem hRead_hro (f : FsCfg) (h : Handle) (n : Nat) (hh : HRO h) : Post (fun r => HRO r.1) (hRead f h n) := by
  unfold hRead
  have hw := hh.1
  simp only [hw]
  repeat (first | with_reducible exact startReader_hro f _ (by assumption) | hro_step)

/-- the (re)start inside `Seek`: whatever handle comes out of it is still read-only -/
theorem seekStart_hro (f : FsCfg) (h : Handle) (lazyOk : Bool) (hh : HRO h) : Post HRO (seekStart f h lazyOk) := by
  unfold seekStart
  have hs : HRO { h with reader := none } := (HRO_reader h none).mpr hh
  refine Post.bind' (Post.attempt (startReader_hro f _ hs)) ?_
  intro r hr
  cases r with
  | ok h' => exact Post.pure _ hr
  | error e =>
    cases e <;> first
      | exact Post.fail _
      | (with_reducible apply Post.ite; exact Post.pure _ hs; exact Post.fail _)

theorem hSeekNoLock_hro (f : FsCfg) (h : Handle) (o wh : Int) (hh : HRO h) : Post (fun r => HRO r.1) (hSeekNoLock f h o wh) := by
  unfold hSeekNoLock
  have hw := hh.1
  simp only [hw]
  repeat (first
    | with_reducible exact seekStart_hro f _ _ (by first | assumption | (simp only [HRO] at *; simp_all))
    | with_reducible exact startReader_hro f _ (by first | assumption | (simp only [HRO] at *; simp_all))
    | hro_step)

theorem hReadAt_hro (f : FsCfg) (h : Handle) (n : Nat) (o : Int) (hh : HRO h) : Post (fun r => HRO r.1) (hReadAt f h n o) := by
  unfold hReadAt
  repeat (first
    | (refine Post.bind' (hSeekNoLock_hro f h o SEEK_SET hh) (fun r hr => ?_); exact hRead_hro f r.1 n hr)
    | hro_step)

theorem hStat_hro (h : Handle) (hh : HRO h) : Post (fun r => HRO r.1) (hStat h) := by
  unfold hStat
  have hw := hh.1
  simp only [hw]
  repeat hro_step

/-- whatever `OpenFile` returns carries exactly the flags computed from the caller's flag word -/
theorem openFile_flags (f : FsCfg) (env : Env) (n : Name) (flag : Nat) (perm : Int) :
    Post (fun o => o.flags = openFlags f flag) (openFile f env n flag perm) := by
  unfold openFile
  split
  · exact Post.fail _
  · refine Post.bind (fun hdr => ?_)
    split
    · exact Post.fail _
    · exact Post.pure _ rfl

theorem openFlags_ro (f : FsCfg) (hro : f.readOnly = true) (flag : Nat) : (openFlags f flag).write = false := by
  unfold openFlags; simp [hro]

end Stfs
