/-
  Generic theorem behind C11: operations whose bodies run under one mutex are linearizable,
  with the release of the mutex as linearisation point, and the linearisation respects
  real-time order (an operation that returned before another was invoked precedes it).

  Threads are natural numbers; each runs `inv; acq; micro-step*; rel; ret` forever; the
  shared memory is touched only by micro-steps, which need the mutex.  Ghost state: a clock
  that ticks with every step, the list `lin` of completed critical sections in release order
  (with invocation and release times) and the list `done` of returned operations with their
  return time.
-/
namespace Stfs.Lin

variable {σ Op Res : Type}

structure Impl (σ Op Res : Type) where
  steps : Op → List (σ → σ)        -- micro-steps of the critical section
  result : σ → Op → Res             -- result read off the state at the end of the section

def applyAll (fs : List (σ → σ)) (s : σ) : σ := fs.foldl (fun s f => f s) s

/-- sequential specification induced by the implementation: run the whole body atomically -/
def Impl.seqStep (I : Impl σ Op Res) (s : σ) (op : Op) : σ × Res :=
  let s' := applyAll (I.steps op) s
  (s', I.result s' op)

structure Entry (Op Res : Type) where
  op : Op
  res : Res
  invT : Nat
  relT : Nat

inductive Ph (σ Op Res : Type)
  | idle
  | waiting (op : Op) (invT : Nat)
  | inCS (op : Op) (invT : Nat) (rest : List (σ → σ))
  | finished (e : Entry Op Res)

structure St (σ Op Res : Type) where
  mem : σ
  holder : Option Nat
  ph : Nat → Ph σ Op Res
  now : Nat
  lin : List (Entry Op Res)               -- ghost: completed critical sections in release order
  done : List (Entry Op Res × Nat)        -- ghost: returned operations with their return time

def upd {α : Type} (f : Nat → α) (t : Nat) (v : α) : Nat → α := fun x => if x = t then v else f x

inductive Step (I : Impl σ Op Res) : St σ Op Res → St σ Op Res → Prop
  | inv (s) (t op) : s.ph t = .idle →
      Step I s { s with ph := upd s.ph t (.waiting op s.now), now := s.now + 1 }
  | acq (s) (t op i) : s.ph t = .waiting op i → s.holder = none →
      Step I s { s with holder := some t, ph := upd s.ph t (.inCS op i (I.steps op)), now := s.now + 1 }
  | micro (s) (t op i f rest) : s.ph t = .inCS op i (f :: rest) → s.holder = some t →
      Step I s { s with mem := f s.mem, ph := upd s.ph t (.inCS op i rest), now := s.now + 1 }
  | rel (s) (t op i) : s.ph t = .inCS op i [] → s.holder = some t →
      Step I s { s with holder := none,
                        ph := upd s.ph t (.finished ⟨op, I.result s.mem op, i, s.now⟩),
                        lin := s.lin ++ [⟨op, I.result s.mem op, i, s.now⟩], now := s.now + 1 }
  | ret (s) (t e) : s.ph t = .finished e →
      Step I s { s with ph := upd s.ph t .idle, done := s.done ++ [(e, s.now)], now := s.now + 1 }

inductive Reach (I : Impl σ Op Res) (s0 : σ) : St σ Op Res → Prop
  | init : Reach I s0 ⟨s0, none, fun _ => .idle, 0, [], []⟩
  | step {a b} : Reach I s0 a → Step I a b → Reach I s0 b

/-- state after running a list of entries sequentially -/
def seqState (I : Impl σ Op Res) (s : σ) : List (Entry Op Res) → σ
  | [] => s
  | e :: l => seqState I (I.seqStep s e.op).1 l

/-- every recorded result is the sequential specification's result at that point -/
def validSeq (I : Impl σ Op Res) (s : σ) : List (Entry Op Res) → Prop
  | [] => True
  | e :: l => e.res = (I.seqStep s e.op).2 ∧ validSeq I (I.seqStep s e.op).1 l

theorem seqState_append (I : Impl σ Op Res) (s : σ) (l : List (Entry Op Res)) (e : Entry Op Res) :
    seqState I s (l ++ [e]) = (I.seqStep (seqState I s l) e.op).1 := by
  induction l generalizing s with
  | nil => rfl
  | cons x l ih => simp [seqState, ih]

theorem validSeq_append (I : Impl σ Op Res) (s : σ) (l : List (Entry Op Res)) (e : Entry Op Res)
    (h : validSeq I s l) (hr : e.res = (I.seqStep (seqState I s l) e.op).2) : validSeq I s (l ++ [e]) := by
  induction l generalizing s with
  | nil => exact ⟨hr, trivial⟩
  | cons x l ih => exact ⟨h.1, ih _ h.2 hr⟩

/-- the invariant: the mutex makes the section atomic -/
structure Inv (I : Impl σ Op Res) (s0 : σ) (s : St σ Op Res) : Prop where
  valid : validSeq I s0 s.lin
  free : s.holder = none → s.mem = seqState I s0 s.lin ∧ ∀ t op i rest, s.ph t ≠ .inCS op i rest
  held : ∀ t, s.holder = some t →
    (∃ op i rest, s.ph t = .inCS op i rest ∧
      applyAll rest s.mem = applyAll (I.steps op) (seqState I s0 s.lin)) ∧
    ∀ t' op i rest, t' ≠ t → s.ph t' ≠ .inCS op i rest

theorem inv_reach (I : Impl σ Op Res) (s0 : σ) (s : St σ Op Res) (h : Reach I s0 s) : Inv I s0 s := by
  induction h with
  | init => exact ⟨trivial, fun _ => ⟨rfl, by intro t op i rest; simp⟩, by intro t h; cases h⟩
  | @step s b _ hs ih =>
    cases hs with
    | inv t op hp =>
      refine ⟨ih.valid, ?_, ?_⟩
      · intro hh
        refine ⟨(ih.free hh).1, ?_⟩
        intro t' op' i' rest
        simp only [upd]; split
        · simp
        · exact (ih.free hh).2 t' op' i' rest
      · intro th hh
        obtain ⟨⟨op', i', rest, hph, heq⟩, hoth⟩ := ih.held th hh
        refine ⟨⟨op', i', rest, ?_, heq⟩, ?_⟩
        · have : th ≠ t := by intro e; subst e; rw [hp] at hph; cases hph
          simp [upd, this, hph]
        · intro t' op'' i'' rest' hne
          simp only [upd]; split
          · simp
          · exact hoth t' op'' i'' rest' hne
    | acq t op i hp hh =>
      refine ⟨ih.valid, (by intro h; cases h), ?_⟩
      intro th hth
      simp only [Option.some.injEq] at hth
      subst hth
      refine ⟨⟨op, i, I.steps op, by simp [upd], by rw [(ih.free hh).1]⟩, ?_⟩
      intro t' op' i' rest hne
      simp only [upd, hne, if_false]
      exact (ih.free hh).2 t' op' i' rest
    | micro t op i f rest hp hh =>
      refine ⟨ih.valid, (by intro h; simp [hh] at h), ?_⟩
      intro th hth
      have : th = t := by simp [hh] at hth; exact hth.symm
      subst this
      obtain ⟨⟨op', i', rest', hph, heq⟩, hoth⟩ := ih.held th hh
      rw [hp] at hph
      cases hph
      refine ⟨⟨op, i, rest, by simp [upd], ?_⟩, ?_⟩
      · simpa [applyAll] using heq
      · intro t' op'' i'' rest'' hne
        simp only [upd, hne, if_false]
        exact hoth t' op'' i'' rest'' hne
    | rel t op i hp hh =>
      obtain ⟨⟨op', i', rest', hph, heq⟩, hoth⟩ := ih.held t hh
      rw [hp] at hph
      cases hph
      have hmem : s.mem = (I.seqStep (seqState I s0 s.lin) op).1 := by
        simpa [applyAll, Impl.seqStep] using heq
      refine ⟨?_, ?_, (by intro th h; cases h)⟩
      · exact validSeq_append I s0 s.lin _ ih.valid (by simp [Impl.seqStep, ← hmem]; rw [hmem]; rfl)
      · intro _
        refine ⟨by simp [seqState_append, ← hmem], ?_⟩
        intro t' op'' i'' rest''
        simp only [upd]; split
        · simp
        · rename_i hne; exact hoth t' op'' i'' rest'' hne
    | ret t e hp =>
      refine ⟨ih.valid, ?_, ?_⟩
      · intro hh
        refine ⟨(ih.free hh).1, ?_⟩
        intro t' op' i' rest
        simp only [upd]; split
        · simp
        · exact (ih.free hh).2 t' op' i' rest
      · intro th hh
        obtain ⟨⟨op', i', rest, hph, heq⟩, hoth⟩ := ih.held th hh
        refine ⟨⟨op', i', rest, ?_, heq⟩, ?_⟩
        · have : th ≠ t := by intro e'; subst e'; rw [hp] at hph; cases hph
          simp [upd, this, hph]
        · intro t' op'' i'' rest' hne
          simp only [upd]; split
          · simp
          · exact hoth t' op'' i'' rest' hne

/-- every concurrent execution's completed operations form a valid sequential history, and when
the lock is free the shared state is exactly the sequential state -/
theorem linearizable (I : Impl σ Op Res) (s0 : σ) (s : St σ Op Res) (h : Reach I s0 s) :
    validSeq I s0 s.lin ∧ (s.holder = none → s.mem = seqState I s0 s.lin) :=
  ⟨(inv_reach I s0 s h).valid, fun hh => ((inv_reach I s0 s h).free hh).1⟩

/-- the clock invariant -/
structure TInv (s : St σ Op Res) : Prop where
  linT : ∀ e ∈ s.lin, e.invT < e.relT ∧ e.relT < s.now
  sorted : s.lin.Pairwise (fun a b => a.relT < b.relT)
  phT : ∀ t, (∀ op i, s.ph t = .waiting op i → i < s.now) ∧ (∀ op i rest, s.ph t = .inCS op i rest → i < s.now) ∧
    (∀ e, s.ph t = .finished e → e ∈ s.lin)
  doneT : ∀ p ∈ s.done, p.1 ∈ s.lin ∧ p.1.relT < p.2 ∧ p.2 < s.now

theorem tinv_reach (I : Impl σ Op Res) (s0 : σ) (s : St σ Op Res) (h : Reach I s0 s) : TInv s := by
  induction h with
  | init =>
    refine ⟨?_, List.Pairwise.nil, ?_, ?_⟩
    · intro e he; simp at he
    · intro t
      refine ⟨?_, ?_, ?_⟩ <;> intros <;> simp_all
    · intro p hp; simp at hp
  | @step s b _ hs ih =>
    have mono : ∀ e ∈ s.lin, e.invT < e.relT ∧ e.relT < s.now + 1 := fun e he => ⟨(ih.linT e he).1, Nat.lt_succ_of_lt (ih.linT e he).2⟩
    have dmono : ∀ p ∈ s.done, p.1 ∈ s.lin ∧ p.1.relT < p.2 ∧ p.2 < s.now + 1 :=
      fun p hp => ⟨(ih.doneT p hp).1, (ih.doneT p hp).2.1, Nat.lt_succ_of_lt (ih.doneT p hp).2.2⟩
    cases hs with
    | inv t op hp =>
      refine ⟨mono, ih.sorted, ?_, dmono⟩
      intro t'
      by_cases ht : t' = t
      · subst ht
        refine ⟨?_, ?_, ?_⟩ <;> intros <;> simp_all [upd] <;> omega
      · have e : upd s.ph t (Ph.waiting op s.now) t' = s.ph t' := by simp [upd, ht]
        simp only [e]
        exact ⟨fun op i h => Nat.lt_succ_of_lt ((ih.phT t').1 op i h), fun op i r h => Nat.lt_succ_of_lt ((ih.phT t').2.1 op i r h), (ih.phT t').2.2⟩
    | acq t op i hp hh =>
      refine ⟨mono, ih.sorted, ?_, dmono⟩
      intro t'
      by_cases ht : t' = t
      · subst ht
        have hi := (ih.phT t').1 op i hp
        refine ⟨?_, ?_, ?_⟩ <;> intros <;> simp_all [upd] <;> omega
      · have e : upd s.ph t (Ph.inCS op i (I.steps op)) t' = s.ph t' := by simp [upd, ht]
        simp only [e]
        exact ⟨fun op i h => Nat.lt_succ_of_lt ((ih.phT t').1 op i h), fun op i r h => Nat.lt_succ_of_lt ((ih.phT t').2.1 op i r h), (ih.phT t').2.2⟩
    | micro t op i f rest hp hh =>
      refine ⟨mono, ih.sorted, ?_, dmono⟩
      intro t'
      by_cases ht : t' = t
      · subst ht
        have hi := (ih.phT t').2.1 op i _ hp
        refine ⟨?_, ?_, ?_⟩ <;> intros <;> simp_all [upd] <;> omega
      · have e : upd s.ph t (Ph.inCS op i rest) t' = s.ph t' := by simp [upd, ht]
        simp only [e]
        exact ⟨fun op i h => Nat.lt_succ_of_lt ((ih.phT t').1 op i h), fun op i r h => Nat.lt_succ_of_lt ((ih.phT t').2.1 op i r h), (ih.phT t').2.2⟩
    | rel t op i hp hh =>
      have hi := (ih.phT t).2.1 op i _ hp
      refine ⟨?_, ?_, ?_, ?_⟩
      · intro e he
        simp only [List.mem_append, List.mem_singleton] at he
        rcases he with he | rfl
        · exact mono e he
        · exact ⟨hi, Nat.lt_succ_self _⟩
      · rw [List.pairwise_append]
        refine ⟨ih.sorted, List.pairwise_singleton _ _, ?_⟩
        intro a ha b hb
        simp only [List.mem_singleton] at hb
        subst hb
        exact (ih.linT a ha).2
      · intro t'
        by_cases ht : t' = t
        · subst ht
          refine ⟨?_, ?_, ?_⟩ <;> intros <;> simp_all [upd]
        · have e : upd s.ph t (Ph.finished ⟨op, I.result s.mem op, i, s.now⟩) t' = s.ph t' := by simp [upd, ht]
          simp only [e]
          exact ⟨fun op i h => Nat.lt_succ_of_lt ((ih.phT t').1 op i h), fun op i r h => Nat.lt_succ_of_lt ((ih.phT t').2.1 op i r h),
            fun e h => List.mem_append_left _ ((ih.phT t').2.2 e h)⟩
      · intro p hp'
        exact ⟨List.mem_append_left _ (dmono p hp').1, (dmono p hp').2⟩
    | ret t e hp =>
      have he := (ih.phT t).2.2 e hp
      refine ⟨mono, ih.sorted, ?_, ?_⟩
      · intro t'
        by_cases ht : t' = t
        · subst ht
          refine ⟨?_, ?_, ?_⟩ <;> intros <;> simp_all [upd]
        · have e' : upd s.ph t Ph.idle t' = s.ph t' := by simp [upd, ht]
          simp only [e']
          exact ⟨fun op i h => Nat.lt_succ_of_lt ((ih.phT t').1 op i h), fun op i r h => Nat.lt_succ_of_lt ((ih.phT t').2.1 op i r h), (ih.phT t').2.2⟩
      · intro p hp'
        simp only [List.mem_append, List.mem_singleton] at hp'
        rcases hp' with hp' | rfl
        · exact dmono p hp'
        · exact ⟨he, (ih.linT e he).2, Nat.lt_succ_self _⟩

/-- real-time order: an operation that returned before another one was invoked was released
    (linearised) before it; `lin` is sorted by release time, so it also stands before it -/
theorem respects_real_time (I : Impl σ Op Res) (s0 : σ) (s : St σ Op Res) (h : Reach I s0 s) :
    s.lin.Pairwise (fun a b => a.relT < b.relT) ∧
    ∀ p ∈ s.done, ∀ b ∈ s.lin, p.2 < b.invT → p.1 ∈ s.lin ∧ p.1.relT < b.relT := by
  have t := tinv_reach I s0 s h
  refine ⟨t.sorted, ?_⟩
  intro p hp b hb hlt
  have hd := t.doneT p hp
  have hbT := t.linT b hb
  exact ⟨hd.1, Nat.lt_trans (Nat.lt_trans hd.2.1 hlt) hbT.1⟩

end Stfs.Lin
