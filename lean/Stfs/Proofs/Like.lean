/-
  What SQLite's `LIKE` does with the pattern `GetHeaderChildren` builds (`<dir>/%`):
  exactly "prefix, compared modulo ASCII case" when the directory name contains no `%`/`_`,
  and strictly more than that otherwise.
-/
import Stfs.Proofs.IndexLemmas
namespace Stfs

/-- no SQL wildcard characters -/
def noWild (d : Name) : Bool := d.all (fun c => c != percent && c != underscore)

/-- `n` starts with `d`, compared modulo ASCII case -/
def hasPrefixFold : Name → Name → Bool
  | _, [] => true
  | [], _ :: _ => false
  | a :: as, p :: ps => asciiFold a == asciiFold p && hasPrefixFold as ps

theorem mem_suffixes_self (s : Name) : s ∈ suffixes s := by
  cases s <;> simp [suffixes]

theorem nil_mem_suffixes (s : Name) : [] ∈ suffixes s := by
  induction s with
  | nil => simp [suffixes]
  | cons c cs ih => simp [suffixes, ih]

/-- `x LIKE '%'` holds for every `x` -/
theorem like_percent (s : Name) : like [percent] s = true := by
  have h : (suffixes s).any (fun t => like [] t) = true := by
    rw [List.any_eq_true]
    exact ⟨[], nil_mem_suffixes s, by simp [like]⟩
  cases s <;> simpa [like] using h

/-- the literal part of a pattern: without wildcards, `LIKE 'd%'` is the case-folded prefix test -/
theorem like_literal_prefix (d : Name) (hd : noWild d = true) : ∀ n, like (d ++ [percent]) n = hasPrefixFold n d := by
  induction d with
  | nil => intro n; simp only [List.nil_append, like_percent]; cases n <;> rfl
  | cons c cs ih =>
    intro n
    have hc : c ≠ percent ∧ c ≠ underscore := by
      have := hd; simp [noWild] at this; exact this.1
    have hcs : noWild cs = true := by
      have := hd; simp [noWild] at this ⊢; exact this.2
    cases n with
    | nil => simp [like, hasPrefixFold, hc.1]
    | cons a as =>
      simp only [List.cons_append, like, hasPrefixFold]
      have h1 : (c == percent) = false := by simp [hc.1]
      have h2 : (c == underscore) = false := by simp [hc.2]
      simp only [h1, h2, Bool.false_eq_true, if_false, Bool.false_or, ih hcs]
      rw [Bool.beq_comm]

/-- exact-case prefix implies folded prefix -/
theorem hasPrefixFold_of_hasPrefix (n d : Name) (h : hasPrefix n d = true) : hasPrefixFold n d = true := by
  induction d generalizing n with
  | nil => cases n <;> rfl
  | cons p ps ih =>
    cases n with
    | nil => simp [hasPrefix] at h
    | cons a as =>
      simp only [hasPrefix, Bool.and_eq_true, beq_iff_eq] at h
      simp only [hasPrefixFold, Bool.and_eq_true, beq_iff_eq]
      exact ⟨by rw [h.1], ih as h.2⟩

/-- `GetHeaderChildren`'s pattern, for a directory name without wildcards -/
theorem children_pattern (d n : Name) (hd : noWild d = true) :
    like (d ++ [slash, percent]) n = hasPrefixFold n (d ++ [slash]) := by
  have : noWild (d ++ [slash]) = true := by
    simp [noWild, List.all_append] at hd ⊢
    exact ⟨hd, by decide, by decide⟩
  have := like_literal_prefix (d ++ [slash]) this n
  simpa using this

/-- every true descendant is matched (completeness holds for all names) … -/
theorem children_pattern_complete (d n : Name) (hd : noWild d = true) (h : hasPrefix n (d ++ [slash]) = true) :
    like (d ++ [slash, percent]) n = true := by
  rw [children_pattern d n hd]; exact hasPrefixFold_of_hasPrefix _ _ h

end Stfs

namespace Stfs
open Idx

/-- no live row matches the directory prefix only up to ASCII case -/
def caseClean (rows : List Row) (d' : Name) : Prop :=
  ∀ r ∈ rows, r.live = true → hasPrefixFold r.name (d' ++ [slash]) = true → hasPrefix r.name (d' ++ [slash]) = true

/-- `GetHeaderChildren` returns exactly the live rows textually beneath the directory, when the
    directory's stored name has no wildcard characters and no case-variant sibling exists. -/
theorem getHeaderChildren_exact (p : Idx) (d : Name)
    (hw : noWild (trimSuffix (p.sanitize d).2 [slash]) = true)
    (hc : caseClean p.rows (trimSuffix (p.sanitize d).2 [slash])) :
    (p.getHeaderChildren d).2 =
      (p.rows.filter (fun r => hasPrefix r.name (trimSuffix (p.sanitize d).2 [slash] ++ [slash]) && r.live)).filter
        (notSelf (p.sanitize d).2) := by
  unfold getHeaderChildren
  simp only [Idx.sanitize_rows]
  congr 1
  apply List.filter_congr
  intro r hr
  have hpat := children_pattern (trimSuffix (p.sanitize d).2 [slash]) r.name hw
  simp only [hpat]
  cases hl : r.live with
  | false => simp
  | true =>
    simp only [Bool.and_true]
    cases hf : hasPrefixFold r.name (trimSuffix (p.sanitize d).2 [slash] ++ [slash]) with
    | true => exact (hc r hr hl hf).symm
    | false =>
      cases hp : hasPrefix r.name (trimSuffix (p.sanitize d).2 [slash] ++ [slash]) with
      | false => rfl
      | true => rw [hasPrefixFold_of_hasPrefix _ _ hp] at hf; cases hf

end Stfs
