/-
  Lifting the position invariant from `applyRec` to `recovery.Index`, to the four write
  operations and (through `FsPres`) to every filesystem method.
-/
import Stfs.Proofs.PosInv
import Stfs.Proofs.FsPres
namespace Stfs
open Gen

/-- `(a, b)` is the `(record, block)` of the first block of some record on tape `t` -/
def RecStartPos (c : Cfg) (t : Tape) (a b : Int) : Prop :=
  ∃ B h, (B, h) ∈ recordStarts t ∧ a = (B : Int) / c.rs ∧ b = (B : Int) % c.rs

/-- the invariant: all four position columns of every row (tombstones included) designate
    record starts of the tape -/
def PosInvW (c : Cfg) (w : World) : Prop := AllOk (RecStartPos c w.tape) w.idx.rows

theorem indexLoopIdeal_ok {P : Int → Int → Prop} (c : Cfg) (init : Bool) (offset : Nat) (s : Subst)
    (items : Tape) : ∀ (p : Idx) (B0 i : Nat), AllOk P p.rows →
      (∀ B h, (B, h) ∈ recordStartsAux items B0 → P ((B : Int) / c.rs) ((B : Int) % c.rs)) →
      AllOk P (indexLoopIdeal c init offset s p B0 i items).1.rows := by
  induction items with
  | nil => intro p B0 i hp _; simpa [indexLoopIdeal] using hp
  | cons it rest ih =>
    intro p B0 i hp hrec
    cases it with
    | trailer =>
      simp only [indexLoopIdeal]
      exact ih p (B0 + 2) i hp (fun B h hm => hrec B h (by simpa [recordStartsAux] using hm))
    | recd onTape hb stored data =>
      simp only [indexLoopIdeal]
      have hstep : AllOk P (if i ≥ offset then
          match s.header onTape (i - offset) with
          | .error e => (p, some e)
          | .ok h => applyRec c p (posOfBlock c.rs B0) h init
        else (p, none)).1.rows := by
        split
        · split
          · exact hp
          · exact applyRec_ok c p _ _ init hp (hrec B0 onTape (by simp [recordStartsAux]))
        · exact hp
      generalize (if i ≥ offset then
          match s.header onTape (i - offset) with
          | .error e => (p, some e)
          | .ok h => applyRec c p (posOfBlock c.rs B0) h init
        else (p, none)) = step at hstep
      rcases step with ⟨p', e⟩
      cases e with
      | some e => exact hstep
      | none =>
        exact ih p' _ (i + 1) hstep (fun B h hm => hrec B h (by
          simp only [recordStartsAux, List.mem_cons]; exact Or.inr hm))

theorem itemsFromAux_sub (t : Tape) : ∀ (cur b : Nat) (items : Tape), itemsFromAux t cur b = some items →
    ∀ x, x ∈ recordStartsAux items b → x ∈ recordStartsAux t cur := by
  induction t with
  | nil => intro cur b items h x hx; simp [itemsFromAux] at h; subst h; simp [recordStartsAux] at hx
  | cons it rest ih =>
    intro cur b items h x hx
    simp only [itemsFromAux] at h
    split at h
    · rename_i hb
      have : b = cur := by simpa using hb
      subst this
      injection h with h; subst h; exact hx
    · split at h
      · cases h
      · have := ih _ _ _ h x hx
        cases it with
        | trailer => simpa [recordStartsAux, Item.blocks] using this
        | recd hh hb st d =>
          simp only [recordStartsAux, List.mem_cons]
          right
          simpa [Item.blocks, Nat.add_assoc] using this

theorem index_ok (c : Cfg) (hrs : 0 < c.rs) (p : Idx) (t : Tape) (B0 : Nat) (ov init : Bool) (offset : Nat)
    (s : Subst) (hp : AllOk (RecStartPos c t) p.rows) :
    AllOk (RecStartPos c t) (index c p t (posOfBlock c.rs B0) ov init offset s).1.rows := by
  unfold index
  have hp' : AllOk (RecStartPos c t) (if ov then p.purge else p).rows := by
    cases ov
    · exact hp
    · intro r hr; simp [Idx.purge] at hr
  generalize (if ov then p.purge else p) = q at hp'
  simp only [posOfBlock, indexSeek0_split, blockSize]
  have h1 : ¬ ((B0 : Int) * 512 < 0) := by omega
  have h2 : ((B0 : Int) * 512 % 512 != 0) = false := by
    have : (B0 : Int) * 512 % 512 = 0 := by omega
    simp [this]
  have h3 : ((B0 : Int) * 512 / 512).toNat = B0 := by omega
  simp only [h1, h2, h3, decide_false, Bool.false_or, Bool.false_eq_true, if_false]
  split
  · exact hp'
  · rename_i items hi
    have := indexLoop_eq_ideal c hrs init offset s items q B0 0
    simp only [posOfBlock, blockSize] at this
    rw [this]
    apply indexLoopIdeal_ok c init offset s items q B0 0 hp'
    intro B h hm
    exact ⟨B, h, itemsFromAux_sub t 0 B0 items hi _ hm, rfl, rfl⟩

theorem recordStartsAux_append (t s : Tape) (cur : Nat) (x : Nat × Hdr) (h : x ∈ recordStartsAux t cur) :
    x ∈ recordStartsAux (t ++ s) cur := by
  induction t generalizing cur with
  | nil => simp [recordStartsAux] at h
  | cons it rest ih =>
    cases it with
    | trailer => simp only [List.cons_append, recordStartsAux] at h ⊢; exact ih _ h
    | recd hh hb st d =>
      simp only [List.cons_append, recordStartsAux, List.mem_cons] at h ⊢
      rcases h with h | h
      · exact Or.inl h
      · exact Or.inr (ih _ h)

theorem RecStartPos.mono (c : Cfg) (t s : Tape) (a b : Int) (h : RecStartPos c t a b) : RecStartPos c (t ++ s) a b := by
  obtain ⟨B, hh, hm, ha, hb⟩ := h
  exact ⟨B, hh, recordStartsAux_append t s 0 _ hm, ha, hb⟩

theorem AllOk.mono {P Q : Int → Int → Prop} {rows : List Row} (h : AllOk P rows) (hpq : ∀ a b, P a b → Q a b) :
    AllOk Q rows := fun r hr => ⟨hpq _ _ (h r hr).1, hpq _ _ (h r hr).2⟩

theorem appendItems_ext (t its : Tape) : ∃ s, appendItems t its = t ++ s := by
  unfold appendItems
  split
  · exact ⟨[], by simp⟩
  · exact ⟨its ++ [.trailer], by simp⟩

/-- `lastIndexed` is `(0, 0)` or the last-known position of some row -/
theorem lastIndexed_cases (p : Idx) (rs : Int) :
    p.lastIndexed rs = (0, 0) ∨ ∃ r ∈ p.rows, p.lastIndexed rs = (r.lkRecd, r.lkBlk) := by
  unfold Idx.lastIndexed
  have : ∀ (rows : List Row) (best : Int × Int),
      (best = (0, 0) ∨ ∃ r ∈ p.rows, best = (r.lkRecd, r.lkBlk)) → (∀ r ∈ rows, r ∈ p.rows) →
      let res := rows.foldl (fun (best : Int × Int) r =>
        if r.lkRecd * rs + r.lkBlk > best.1 * rs + best.2 then (r.lkRecd, r.lkBlk) else best) best
      (res = (0, 0) ∨ ∃ r ∈ p.rows, res = (r.lkRecd, r.lkBlk)) := by
    intro rows
    induction rows with
    | nil => intro best hb _; simpa using hb
    | cons x xs ih =>
      intro best hb hsub
      simp only [List.foldl_cons]
      apply ih
      · split
        · exact Or.inr ⟨x, hsub x (by simp), rfl⟩
        · exact hb
      · intro r hr; exact hsub r (by simp [hr])
  exact this p.rows (0, 0) (Or.inl rfl) (fun r hr => hr)

theorem lastIndexed_pos (c : Cfg) (p : Idx) (t : Tape) (hp : AllOk (RecStartPos c t) p.rows) :
    ∃ B0 : Nat, (⟨(p.lastIndexed c.rs).1, (p.lastIndexed c.rs).2⟩ : Pos) = posOfBlock c.rs B0 := by
  rcases lastIndexed_cases p c.rs with h | ⟨r, hr, h⟩
  · exact ⟨0, by rw [h]; simp [posOfBlock]⟩
  · obtain ⟨B, _, _, ha, hb⟩ := (hp r hr).2
    exact ⟨B, by rw [h]; simp [posOfBlock, ha, hb]⟩

theorem reindex_ok (c : Cfg) (hrs : 0 < c.rs) (w : World) (its : Tape) (ov init : Bool) (hdrs : List Hdr)
    (hw : PosInvW c w) :
    PosInvW c (reindex c w (appendItems w.tape its) (if ov then (0, 0) else w.idx.lastIndexed c.rs) ov init hdrs).1 := by
  obtain ⟨s, hs⟩ := appendItems_ext w.tape its
  have hw' : AllOk (RecStartPos c (appendItems w.tape its)) w.idx.rows := by
    rw [hs]; exact hw.mono (fun a b h => h.mono c w.tape s a b)
  have ⟨B0, hB⟩ : ∃ B0 : Nat, (⟨(if ov then ((0 : Int), (0 : Int)) else w.idx.lastIndexed c.rs).1,
      (if ov then ((0 : Int), (0 : Int)) else w.idx.lastIndexed c.rs).2⟩ : Pos) = posOfBlock c.rs B0 := by
    cases ov
    · simpa using lastIndexed_pos c w.idx _ hw'
    · exact ⟨0, by simp [posOfBlock]⟩
  unfold reindex PosInvW
  simp only
  rw [hB]
  exact index_ok c hrs w.idx _ B0 ov init _ _ hw'

theorem stuck_ok (c : Cfg) (w : World) (hw : PosInvW c w) : PosInvW c { w with stuck := true } := hw

theorem archive_ok (c : Cfg) (hrs : 0 < c.rs) (w : World) (srcs : List Src) (ov init : Bool) (env : EnvRecs)
    (hw : PosInvW c w) : PosInvW c (archive c w srcs ov init env).1 := by
  unfold archive
  split
  · exact hw
  · simp only
    split
    · exact hw
    · exact reindex_ok c hrs w _ ov init _ hw

theorem lookupForWrite_rows (p : Idx) (n : Name) : (lookupForWrite p n).1.rows = p.rows := by
  unfold lookupForWrite
  split
  · rename_i q r hg
    have := Idx.getHeader_rows p n; rw [hg] at this; exact this
  · rename_i q e hg
    have h1 := Idx.getHeader_rows p n; rw [hg] at h1
    rw [Idx.getHeaderByLinkname_rows]; exact h1

theorem update_ok (c : Cfg) (hrs : 0 < c.rs) (w : World) (srcs : List Src) (r s : Bool) (env : EnvRecs)
    (hw : PosInvW c w) : PosInvW c (update c w srcs r s env).1 := by
  unfold update
  split
  · exact hw
  · split
    · exact hw
    · exact reindex_ok c hrs w _ false false _ hw

theorem rowStable_posInv (c : Cfg) : RowStable (PosInvW c) := by
  intro w p hp hw
  unfold PosInvW at *
  simp only
  rw [hp]; exact hw

theorem delete_ok (c : Cfg) (hrs : 0 < c.rs) (w : World) (n : Name) (env : EnvRecs)
    (hw : PosInvW c w) : PosInvW c (delete c w n env).1 := by
  unfold delete
  split
  · exact hw
  · simp only
    split
    · rename_i p e heq
      have : p.rows = w.idx.rows := by
        have := lookupForWrite_rows w.idx n; rw [heq] at this; exact this
      exact rowStable_posInv c w p this hw
    · rename_i p r heq
      have hpr : p.rows = w.idx.rows := by
        have := lookupForWrite_rows w.idx n; rw [heq] at this; exact this
      -- children lookup keeps the rows as well
      generalize hch : (if r.hdr.typeflag == tfDir && r.linkname == [] then p.getHeaderChildren n else (p, [])) = ch
      have hchr : ch.1.rows = w.idx.rows := by
        rw [← hch]
        split
        · rw [Idx.getHeaderChildren_rows]; exact hpr
        · exact hpr
      rcases ch with ⟨p2, children⟩
      simp only
      have hw2 : PosInvW c { w with idx := p2 } := rowStable_posInv c w p2 hchr hw
      have hl : ({ w with idx := p2 } : World).idx.lastIndexed c.rs = w.idx.lastIndexed c.rs := by
        simp only [Idx.lastIndexed]; rw [hchr]
      have := reindex_ok c hrs { w with idx := p2 } (deleteItems (r :: children) env).2 false false
        (deleteItems (r :: children) env).1 hw2
      simp only [Bool.false_eq_true, if_false, hl] at this
      exact this

theorem move_ok (c : Cfg) (hrs : 0 < c.rs) (w : World) (a b : Name) (env : EnvRecs)
    (hw : PosInvW c w) : PosInvW c (move c w a b env).1 := by
  unfold move
  split
  · exact hw
  · split
    · exact hw
    · simp only
      have lk : ∀ p e, lookupForWrite w.idx a = (p, e) → p.rows = w.idx.rows := by
        intro p e heq
        have := lookupForWrite_rows w.idx a; rw [heq] at this; exact this
      split
      · rename_i p e heq
        exact rowStable_posInv c w p (lk p _ heq) hw
      · rename_i p r heq
        have hpr := lk p _ heq
        generalize hto : moveTarget r.name b = to
        split
        · exact rowStable_posInv c w p hpr hw
        · generalize hch : (if r.hdr.typeflag == tfDir then p.getHeaderChildren a else (p, [])) = ch
          have hchr : ch.1.rows = w.idx.rows := by
            rw [← hch]
            split
            · rw [Idx.getHeaderChildren_rows]; exact hpr
            · exact hpr
          rcases ch with ⟨p2, children⟩
          simp only
          have hw2 : PosInvW c { w with idx := p2 } := rowStable_posInv c w p2 hchr hw
          have hl : ({ w with idx := p2 } : World).idx.lastIndexed c.rs = w.idx.lastIndexed c.rs := by
            simp only [Idx.lastIndexed]; rw [hchr]
          have := reindex_ok c hrs { w with idx := p2 } (moveItems a to (r :: children) env).2 false false
            (moveItems a to (r :: children) env).1 hw2
          simp only [Bool.false_eq_true, if_false, hl] at this
          exact this

theorem rebuild_ok (f : FsCfg) (hrs : 0 < f.c.rs) (w : World) (hw : PosInvW f.c w) : PosInvW f.c (rebuildOp f w).1 := by
  unfold rebuildOp PosInvW
  simp only
  have := index_ok f.c hrs w.idx w.tape 0 true false 0 .tape hw
  simpa [posOfBlock] using this

theorem opsPres_posInv (f : FsCfg) (hrs : 0 < f.c.rs) : OpsPres f (PosInvW f.c) where
  stable := rowStable_posInv f.c
  archive := fun w srcs ov init env hw => archive_ok f.c hrs w srcs ov init env hw
  update := fun w srcs r s env hw => update_ok f.c hrs w srcs r s env hw
  delete := fun w n env hw => delete_ok f.c hrs w n env hw
  move := fun w a b env hw => move_ok f.c hrs w a b env hw
  rebuild := fun w hw => rebuild_ok f hrs w hw
  stuck := fun w hw => stuck_ok f.c w hw
  unstuck := fun w hw => hw

end Stfs
