/-
  A small program logic for the state monad `M` of `Fs.lean`: `Pres I m` says that running
  `m` from any state satisfying `I` ends in a state satisfying `I`, whether `m` succeeds or
  fails (errors do not roll back).  Used for every invariant that the filesystem methods
  inherit from the persister and the four write operations.
-/
import Stfs.Model.File
import Stfs.Proofs.IndexLemmas
namespace Stfs

structure Pres {α : Type} (I : World → Prop) (m : M α) : Prop where
  run : ∀ w, I w → I (m w).1

/-- invariants that only look at the table and the tape, not at the cached root -/
def RowStable (I : World → Prop) : Prop :=
  ∀ (w : World) (p : Idx), p.rows = w.idx.rows → I w → I { w with idx := p }

namespace Pres
variable {I : World → Prop} {α β : Type}

theorem pure (a : α) : Pres I (Pure.pure a : M α) := ⟨fun _ h => h⟩

theorem fail (e : Err) : Pres I (M.fail e : M α) := ⟨fun _ h => h⟩

theorem get : Pres I M.get := ⟨fun _ h => h⟩

theorem wedge (hI : ∀ w, I w → I { w with stuck := true }) (e : Err) : Pres I (M.wedge e : M α) := ⟨fun w h => hI w h⟩

theorem ite {c : Prop} [Decidable c] {a b : M α} (ha : Pres I a) (hb : Pres I b) :
    Pres I (if c then a else b) := by
  split <;> assumption

theorem bind {m : M α} {f : α → M β} (hm : Pres I m) (hf : ∀ a, Pres I (f a)) : Pres I (m >>= f) := by
  constructor
  intro w hw
  show I ((Bind.bind m f) w).1
  simp only [Bind.bind]
  have h1 := hm.run w hw
  rcases hmw : m w with ⟨w', r⟩
  rw [hmw] at h1
  cases r with
  | ok a => exact (hf a).run w' h1
  | error e => exact h1

theorem attempt {m : M α} (hm : Pres I m) : Pres I (M.attempt m) := by
  constructor
  intro w hw
  simp only [M.attempt]
  exact hm.run w hw

theorem notExist {m : M α} (hm : Pres I m) : Pres I (notExistIfNoRows m) := by
  constructor
  intro w hw
  have := hm.run w hw
  unfold notExistIfNoRows
  rcases hmw : m w with ⟨w', r⟩
  rw [hmw] at this
  cases r with
  | ok a => exact this
  | error e => cases e <;> exact this

theorem idx (hI : RowStable I) {f : Idx → Idx × Except Err α} (hf : ∀ p, (f p).1.rows = p.rows) :
    Pres I (M.idx f) := by
  constructor
  intro w hw
  simp only [M.idx]
  exact hI w (f w.idx).1 (hf w.idx) hw

theorem idx' (hI : RowStable I) {f : Idx → Idx × α} (hf : ∀ p, (f p).1.rows = p.rows) :
    Pres I (M.idx' f) := by
  constructor
  intro w hw
  simp only [M.idx']
  exact hI w (f w.idx).1 (hf w.idx) hw

theorem op {f : World → World × Option Err} (hf : ∀ w, I w → I (f w).1) : Pres I (M.op f) := by
  constructor
  intro w hw
  have := hf w hw
  simp only [M.op]
  rcases hfw : f w with ⟨w', r⟩
  rw [hfw] at this
  cases r <;> exact this

end Pres

/-! ### the persister's read methods leave the table alone -/
namespace Idx

theorem getHeaderByLinkname_rows (p : Idx) (n : Name) : (p.getHeaderByLinkname n).1.rows = p.rows := by
  unfold getHeaderByLinkname
  simp only
  split <;> simp [sanitize_rows]

theorem getRootPath_rows (p : Idx) : (p.getRootPath).1.rows = p.rows := by
  unfold getRootPath
  split
  · rfl
  · split <;> rfl

theorem getHeaderChildren_rows (p : Idx) (n : Name) : (p.getHeaderChildren n).1.rows = p.rows := by
  unfold getHeaderChildren
  simp [sanitize_rows]

theorem retargetLinks_rows (p : Idx) (l : List Row) : (p.retargetLinks l).1.rows = p.rows := by
  induction l generalizing p with
  | nil => rfl
  | cons x xs ih =>
    show (retargetLinks (p.getHeader x.name).1 xs).1.rows = p.rows
    rw [ih]
    exact getHeader_rows p x.name

theorem getHeaderDirectChildren_rows (p : Idx) (n : Name) (limit : Int) :
    (p.getHeaderDirectChildren n limit).1.rows = p.rows := by
  unfold getHeaderDirectChildren
  simp only
  split
  · exact sanitize_rows p n
  · simp only [retargetLinks_rows, sanitize_rows]

end Idx

/-- one step towards closing a `Pres I m` goal for a program built from the combinators -/
syntax "pres_step" : tactic
macro_rules
  | `(tactic| pres_step) => `(tactic| first
      | with_reducible exact Pres.pure _
      | with_reducible exact Pres.fail _
      | with_reducible exact Pres.get
      | with_reducible apply Pres.ite
      | with_reducible apply Pres.bind
      | with_reducible apply Pres.attempt
      | with_reducible apply Pres.notExist
      | (with_reducible apply Pres.idx (by assumption); intro p; first
          | exact Idx.getHeader_rows p _
          | exact Idx.getHeaderByLinkname_rows p _
          | exact Idx.getRootPath_rows p
          | exact Idx.getHeaderDirectChildren_rows p _ _)
      | intro _
      | split)

end Stfs
