/-
  Position invariant: whatever the indexer writes into the four position columns of a row is
  a position it was handed (the start of a record it is looking at) or a position that was
  already in the table.  Parametric in the predicate `P` on positions.
-/
import Stfs.Proofs.IndexLemmas
import Stfs.Proofs.Scan
namespace Stfs
open Gen

def AllOk (P : Int → Int → Prop) (rows : List Row) : Prop := ∀ r ∈ rows, Idx.Row.posOk P r

namespace Idx
variable {P : Int → Int → Prop}

theorem setByKey_ok {rows : List Row} {new : Row} (h : AllOk P rows) (hn : Row.posOk P new) :
    AllOk P (setByKey rows new) := by
  intro x hx
  rcases mem_setByKey hx with h1 | h1
  · exact h x h1
  · subst h1; exact hn

theorem upsertHeader_ok (p : Idx) (r : Row) (init : Bool) (h : AllOk P p.rows) (hr : Row.posOk P r) :
    AllOk P (p.upsertHeader r init).rows := by
  unfold upsertHeader
  have key : ∀ (q : Idx) (n : Name), q.rows = p.rows →
      AllOk P (if hasKey q.rows n r.linkname = true
        then { q with rows := setByKey q.rows { r with hdr := { r.hdr with name := n } } }
        else { q with rows := q.rows ++ [{ r with hdr := { r.hdr with name := n } }] }).rows := by
    intro q n hq
    have hr' : Row.posOk P { r with hdr := { r.hdr with name := n } } := hr
    split
    · simp only; rw [hq]; exact setByKey_ok h hr'
    · simp only; rw [hq]
      intro x hx
      rcases List.mem_append.mp hx with h1 | h1
      · exact h x h1
      · simp at h1; subst h1; exact hr'
  cases init with
  | true => simpa using key p r.name rfl
  | false => simpa using key (p.sanitize r.name).1 (p.sanitize r.name).2 (sanitize_rows p r.name)

theorem updateHeaderMetadata_ok (p : Idx) (r : Row) (h : AllOk P p.rows) (hr : Row.posOk P r) :
    AllOk P (p.updateHeaderMetadata r).rows := by
  unfold updateHeaderMetadata
  simp only
  have hr' : Row.posOk P { r with hdr := { r.hdr with name := (p.sanitize r.name).2 } } := hr
  have := setByKey_ok (rows := (p.sanitize r.name).1.rows) (by rw [sanitize_rows]; exact h) hr'
  exact this

theorem moveHeader_ok (p : Idx) (o n : Name) (a b : Int) (h : AllOk P p.rows) (hp : P a b) :
    AllOk P (p.moveHeader o n a b).1.rows := by
  unfold moveHeader
  simp only
  split
  · simp [sanitize_rows]; exact h
  · simp only [sanitize_rows]
    intro x hx
    rw [List.mem_map] at hx
    obtain ⟨r, hr, rfl⟩ := hx
    have hr0 := h r hr
    split
    · exact ⟨hr0.1, hp⟩
    · exact hr0

theorem deleteHeader_ok (p : Idx) (n : Name) (a b : Int) (h : AllOk P p.rows) (hp : P a b) :
    AllOk P (p.deleteHeader n a b).1.rows := by
  unfold deleteHeader
  simp only
  split
  · simp [sanitize_rows]; exact h
  · rename_i r hf
    have hm := (findLive_mem hf).1
    rw [sanitize_rows] at hm
    simp only
    apply setByKey_ok
    · rw [sanitize_rows]; exact h
    · exact ⟨(h r hm).1, hp⟩

end Idx

theorem fst_match_except {α : Type} (x : Idx × Except Err α) :
    (match x with
      | (p, .ok _) => ((p, none) : Idx × Option Err)
      | (p, .error e) => (p, some e)).1 = x.1 := by
  rcases x with ⟨p, r⟩; cases r <;> rfl

open Idx in
theorem applyRec_ok {P : Int → Int → Prop} (c : Cfg) (p : Idx) (pos : Pos) (h : Hdr) (init : Bool)
    (hall : AllOk P p.rows) (hp : P pos.recd pos.blk) :
    AllOk P (applyRec c p pos h init).1.rows := by
  unfold applyRec
  split
  · exact hall
  · split
    · exact hall
    · rename_i h2 _
      simp only
      split
      · exact hall
      · split
        · exact upsertHeader_ok _ _ _ hall ⟨hp, hp⟩
        · split
          · have := deleteHeader_ok p h2.name pos.recd pos.blk hall hp
            split <;> rename_i heq <;> rw [heq] at this <;> exact this
          · split
            · -- UPDATE
              have step : ∀ q : Idx, AllOk P q.rows → ∀ o : Name, AllOk P
                  (if h2.pax.get recSTFSRecordReplacesContent == some recSTFSRecordReplacesContentTrue then
                    q.updateHeaderMetadata (Idx.mkRow h2 pos.recd pos.blk pos.recd pos.blk)
                  else
                    match q.getHeader o with
                    | (q', .ok old) => q'.updateHeaderMetadata (Idx.mkRow (if (h2.pax.get recSTFSRecordUncompressedSize).isNone then { h2 with size := old.hdr.size } else h2) old.recd old.blk pos.recd pos.blk)
                    | (q', .error _) => q').rows := by
                intro q hq o
                split
                · exact updateHeaderMetadata_ok _ _ hq ⟨hp, hp⟩
                · split
                  · rename_i q' old heq
                    have hm := getHeader_mem heq
                    have hq' : q'.rows = q.rows := by
                      have := getHeader_rows q o; rw [heq] at this; exact this
                    apply updateHeaderMetadata_ok
                    · rw [hq']; exact hq
                    · exact ⟨(hq old hm.1).1, hp⟩
                  · rename_i q' e heq
                    have hq' : q'.rows = q.rows := by
                      have := getHeader_rows q o; rw [heq] at this; exact this
                    rw [hq']; exact hq
              split
              · rename_i o _
                simp only
                have := step p hall o
                generalize (if h2.pax.get recSTFSRecordReplacesContent == some recSTFSRecordReplacesContentTrue then
                    p.updateHeaderMetadata (Idx.mkRow h2 pos.recd pos.blk pos.recd pos.blk)
                  else
                    match p.getHeader o with
                    | (q', .ok old) => q'.updateHeaderMetadata (Idx.mkRow (if (h2.pax.get recSTFSRecordUncompressedSize).isNone then { h2 with size := old.hdr.size } else h2) old.recd old.blk pos.recd pos.blk)
                    | (q', .error _) => q') = q at this ⊢
                have hm := moveHeader_ok q o h2.name pos.recd pos.blk this hp
                simp only [if_true]
                generalize q.moveHeader o h2.name pos.recd pos.blk = x at hm ⊢
                rcases x with ⟨p', r⟩
                cases r <;> exact hm
              · simp only
                exact step p hall h2.name
            · exact hall

end Stfs
