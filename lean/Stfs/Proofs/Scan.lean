/-
  `scan_written`: driven by the generated arithmetic, the loop of `recovery.Index` visits
  every record of a laid-out tape at exactly the `(record, block)` position of its first
  block, for every record size ≥ 1, header size, content length and interleaving of records
  and trailers.  Stated as: `indexLoop` (generated arithmetic, re-seek check) coincides with
  `indexLoopIdeal` (positions read off the layout).
-/
import Stfs.Model.Indexer
import Stfs.Proofs.PosArith
namespace Stfs
open Gen

/-- the position of block `B` for record size `rs` -/
def posOfBlock (rs : Int) (B : Nat) : Pos := ⟨(B : Int) / rs, (B : Int) % rs⟩

/-- the loop of `recovery.Index` with positions read off the layout -/
def indexLoopIdeal (c : Cfg) (initializing : Bool) (offset : Nat) (s : Subst) :
    Idx → (B : Nat) → (i : Nat) → Tape → Idx × Option Err
  | p, _, _, [] => (p, none)
  | p, B, i, .trailer :: rest => indexLoopIdeal c initializing offset s p (B + 2) i rest
  | p, B, i, .recd onTape hb stored _ :: rest =>
    let step : Idx × Option Err :=
      if i ≥ offset then
        match s.header onTape (i - offset) with
        | .error e => (p, some e)
        | .ok h => applyRec c p (posOfBlock c.rs B) h initializing
      else (p, none)
    match step with
    | (p, some e) => (p, some e)
    | (p, none) => indexLoopIdeal c initializing offset s p (B + hb + blocksOf stored) (i + 1) rest

theorem blocks_ceil (B hb stored : Nat) :
    (((B : Int) * 512 + (hb : Int) * 512 + (stored : Int)) + 511) / 512 = ((B + hb + blocksOf stored : Nat) : Int) := by
  unfold blocksOf
  omega

theorem aligned_ceil (B : Nat) : (((B : Int) * 512) + 511) / 512 = (B : Int) := by omega

theorem indexLoop_eq_ideal (c : Cfg) (hrs : 0 < c.rs) (initializing : Bool) (offset : Nat) (s : Subst)
    (items : Tape) :
    ∀ (p : Idx) (B i : Nat),
      indexLoop c initializing offset s p (posOfBlock c.rs B) ((B : Int) * blockSize) i items
        = indexLoopIdeal c initializing offset s p B i items := by
  induction items with
  | nil => intro p B i; simp [indexLoop, indexLoopIdeal]
  | cons it rest ih =>
    intro p B i
    cases it with
    | trailer =>
      have hc : (0 : Int) ≤ (B : Int) * 512 + 2 * 512 := by omega
      have hpos := indexPos1_spec c.rs ((B : Int) * 512 + 2 * 512) ((B : Int) * 512 + 2 * 512) hrs hc
      have hT : ((B : Int) * 512 + 2 * 512 + 511) / 512 = ((B + 2 : Nat) : Int) := by omega
      simp only [indexLoop, indexLoopIdeal, blockSize]
      simp only [hpos, hT]
      have hs := indexSeek1_split c.rs ((B + 2 : Nat) : Int)
      have e2 : ((B + 2 : Nat) : Int) * 512 = (B : Int) * 512 + 2 * 512 := by omega
      rw [e2] at hs
      simp only [hs, bne_self_eq_false, Bool.false_eq_true, if_false]
      have := ih p (B + 2) i
      simp only [posOfBlock, blockSize, e2] at this
      exact this
    | recd onTape hb stored data =>
      simp only [indexLoop, indexLoopIdeal]
      -- the step is identical on both sides
      generalize (if i ≥ offset then
          match s.header onTape (i - offset) with
          | .error e => (p, some e)
          | .ok h => applyRec c p (posOfBlock c.rs B) h initializing
        else (p, none)) = step
      rcases step with ⟨p', e⟩
      cases e with
      | some e => rfl
      | none =>
        simp only [blockSize]
        have hcas : (0 : Int) ≤ (B : Int) * 512 + (hb : Int) * 512 + (stored : Int) := by omega
        have hpos := afterRecord_spec c.rs ((B : Int) * 512 + (hb : Int) * 512)
          ((B : Int) * 512 + (hb : Int) * 512 + (stored : Int)) hrs hcas
        simp only [hpos, blocks_ceil]
        have := ih p' (B + hb + blocksOf stored) (i + 1)
        simp only [posOfBlock, blockSize] at this
        have e3 : (B : Int) * 512 + ((hb + blocksOf stored : Nat) : Int) * 512
            = ((B + hb + blocksOf stored : Nat) : Int) * 512 := by
          push_cast; omega
        rw [e3]
        exact this

end Stfs
