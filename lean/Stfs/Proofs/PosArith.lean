/-
  Facts about the *generated* position arithmetic (`Gen/PosArith.lean`, regenerated from
  `pkg/recovery/{index,query,fetch}.go` on every run).  If the Go arithmetic changes in a
  way that matters, these proofs stop checking.
-/
import Stfs.Gen.PosArith
namespace Stfs
open Gen

theorem tdiv_nonneg_eq (a b : Int) (ha : 0 ≤ a) : Int.tdiv a b = a / b :=
  Int.tdiv_eq_ediv_of_nonneg ha

/-- `math.Ceil(x / 512)` as generated -/
theorem ceilDiv_blockSize (x : Int) (hx : 0 ≤ x) : ceilDiv x blockSize = (x + 511) / 512 := by
  unfold ceilDiv blockSize
  rw [tdiv_nonneg_eq _ _ (by omega)]
  have : x + 512 - 1 = x + 511 := by omega
  rw [this]

/-- splitting a block count `T` by the record size, as every generated block does -/
theorem split_spec (rs T : Int) (hrs : 0 < rs) (hT : 0 ≤ T) :
    Int.tdiv T rs = T / rs ∧ T - (T / rs) * rs = T % rs ∧ 0 ≤ T % rs ∧ T % rs < rs := by
  refine ⟨tdiv_nonneg_eq _ _ hT, ?_, Int.emod_nonneg T (by omega), Int.emod_lt_of_pos T hrs⟩
  have := Int.mul_ediv_add_emod T rs
  have h2 : T / rs * rs = rs * (T / rs) := Int.mul_comm _ _
  omega

/-- the shape shared by `indexPos0`, `indexPos2`, `queryPos0`, `queryPos2` -/
theorem afterRecord_spec (rs curr cas : Int) (hrs : 0 < rs) (hcas : 0 ≤ cas) :
    indexPos0 rs curr cas = (((cas + 511) / 512) / rs, ((cas + 511) / 512) % rs) := by
  have hT : (0 : Int) ≤ (cas + 511) / 512 := by omega
  obtain ⟨h1, h2, h3, h4⟩ := split_spec rs _ hrs hT
  unfold indexPos0
  have e : curr + (cas - curr) = cas := by omega
  simp only [e, ceilDiv_blockSize cas hcas, h1, h2]
  have : ¬ ((cas + 511) / 512 % rs > rs) := by omega
  simp [this]

theorem indexPos2_spec (rs curr cas : Int) (hrs : 0 < rs) (hcas : 0 ≤ cas) :
    indexPos2 rs curr cas = (((cas + 511) / 512) / rs, ((cas + 511) / 512) % rs) := by
  have hT : (0 : Int) ≤ (cas + 511) / 512 := by omega
  obtain ⟨h1, h2, h3, h4⟩ := split_spec rs _ hrs hT
  unfold indexPos2
  have e : curr + (cas - curr) = cas := by omega
  simp only [e, ceilDiv_blockSize cas hcas, h1, h2]
  have : ¬ ((cas + 511) / 512 % rs > rs) := by omega
  simp [this]

theorem queryPos0_spec (rs curr cas : Int) (hrs : 0 < rs) (hcas : 0 ≤ cas) :
    queryPos0 rs curr cas = (((cas + 511) / 512) / rs, ((cas + 511) / 512) % rs) := by
  have hT : (0 : Int) ≤ (cas + 511) / 512 := by omega
  obtain ⟨h1, h2, h3, h4⟩ := split_spec rs _ hrs hT
  unfold queryPos0
  have e : curr + (cas - curr) = cas := by omega
  simp only [e, ceilDiv_blockSize cas hcas, h1, h2]
  have : ¬ ((cas + 511) / 512 % rs > rs) := by omega
  simp [this]

theorem queryPos2_spec (rs curr cas : Int) (hrs : 0 < rs) (hcas : 0 ≤ cas) :
    queryPos2 rs curr cas = (((cas + 511) / 512) / rs, ((cas + 511) / 512) % rs) := by
  have hT : (0 : Int) ≤ (cas + 511) / 512 := by omega
  obtain ⟨h1, h2, h3, h4⟩ := split_spec rs _ hrs hT
  unfold queryPos2
  have e : curr + (cas - curr) = cas := by omega
  simp only [e, ceilDiv_blockSize cas hcas, h1, h2]
  have : ¬ ((cas + 511) / 512 % rs > rs) := by omega
  simp [this]

/-- the resynchronisation blocks (`index.go:72–82`, `query.go` twin): both adjustment
    branches are unreachable, the result is the same split -/
theorem indexPos1_spec (rs curr cas : Int) (hrs : 0 < rs) (hc : 0 ≤ curr) :
    indexPos1 rs curr cas = (((curr + 511) / 512) / rs, ((curr + 511) / 512) % rs) := by
  have hT : (0 : Int) ≤ (curr + 511) / 512 := by omega
  obtain ⟨h1, h2, h3, h4⟩ := split_spec rs _ hrs hT
  unfold indexPos1
  simp only [ceilDiv_blockSize curr hc, h1, h2]
  have a : ¬ ((curr + 511) / 512 % rs < 0) := by omega
  have b : ¬ ((curr + 511) / 512 % rs ≥ rs) := by omega
  simp [a, b]

theorem queryPos1_spec (rs curr cas : Int) (hrs : 0 < rs) (hc : 0 ≤ curr) :
    queryPos1 rs curr cas = (((curr + 511) / 512) / rs, ((curr + 511) / 512) % rs) := by
  have hT : (0 : Int) ≤ (curr + 511) / 512 := by omega
  obtain ⟨h1, h2, h3, h4⟩ := split_spec rs _ hrs hT
  unfold queryPos1
  simp only [ceilDiv_blockSize curr hc, h1, h2]
  have a : ¬ ((curr + 511) / 512 % rs < 0) := by omega
  have b : ¬ ((curr + 511) / 512 % rs ≥ rs) := by omega
  simp [a, b]

/-- every generated seek expression maps `(T / rs, T % rs)` back to byte `T * 512` -/
theorem seek_split (rs T : Int) :
    rs * 512 * (T / rs) + T % rs * 512 = T * 512 := by
  have hdm := Int.mul_ediv_add_emod T rs
  have : rs * 512 * (T / rs) + T % rs * 512 = (rs * (T / rs) + T % rs) * 512 := by
    rw [Int.add_mul, Int.mul_assoc, Int.mul_comm 512, ← Int.mul_assoc]
  rw [this, hdm]

theorem indexSeek0_split (rs T : Int) : indexSeek0 rs (T / rs) (T % rs) = T * 512 := by
  unfold indexSeek0 blockSize; exact seek_split rs T
theorem indexSeek1_split (rs T : Int) : indexSeek1 rs (T / rs) (T % rs) = T * 512 := by
  unfold indexSeek1 blockSize; exact seek_split rs T
theorem querySeek0_split (rs T : Int) : querySeek0 rs (T / rs) (T % rs) = T * 512 := by
  unfold querySeek0 blockSize; exact seek_split rs T
theorem querySeek1_split (rs T : Int) : querySeek1 rs (T / rs) (T % rs) = T * 512 := by
  unfold querySeek1 blockSize; exact seek_split rs T
theorem fetchSeek0_split (rs T : Int) : fetchSeek0 rs (T / rs) (T % rs) = T * 512 := by
  unfold fetchSeek0 blockSize; exact seek_split rs T

end Stfs
