/-
  Basic facts about the persister model: which functions leave the table alone, and where
  the rows of a result come from.
-/
import Stfs.Model.Indexer
namespace Stfs
namespace Idx

@[simp] theorem sanitize_rows (p : Idx) (n : Name) : (p.sanitize n).1.rows = p.rows := by
  unfold sanitize
  split
  · rfl
  · split <;> rename_i h <;> revert h <;> (repeat' split) <;> intro h <;>
      (first | (injection h with h1 h2; subst h1; rfl) | skip) <;> simp_all <;>
      (repeat' split) <;> rfl

theorem mem_insertByLink (r x : Row) (l : List Row) : x ∈ insertByLink r l ↔ x = r ∨ x ∈ l := by
  induction l with
  | nil => simp [insertByLink]
  | cons y ys ih =>
    simp only [insertByLink]
    split
    · simp
    · simp [ih]; constructor
      · rintro (h | h | h) <;> simp [h]
      · rintro (h | h | h) <;> simp [h]

theorem mem_byName {rows : List Row} {n : Name} {x : Row} : x ∈ byName rows n ↔ x ∈ rows ∧ x.name = n := by
  unfold byName
  induction rows with
  | nil => simp
  | cons r rs ih =>
    simp only [List.filter_cons]
    split
    · rename_i h
      simp only [List.foldr_cons, mem_insertByLink, ih, List.mem_cons]
      constructor
      · rintro (h1 | h1)
        · subst h1; exact ⟨Or.inl rfl, by simpa using h⟩
        · exact ⟨Or.inr h1.1, h1.2⟩
      · rintro ⟨h1 | h1, h2⟩
        · exact Or.inl h1
        · exact Or.inr ⟨h1, h2⟩
    · rename_i h
      simp only [ih, List.mem_cons]
      constructor
      · rintro ⟨h1, h2⟩; exact ⟨Or.inr h1, h2⟩
      · rintro ⟨h1 | h1, h2⟩
        · subst h1; simp [h2] at h
        · exact ⟨h1, h2⟩

theorem findLive_mem {rows : List Row} {n : Name} {r : Row} (h : findLive rows n = some r) :
    r ∈ rows ∧ r.name = n ∧ r.deleted = false := by
  unfold findLive at h
  have hm := List.mem_of_find?_eq_some h
  have hp := List.find?_some h
  rw [mem_byName] at hm
  refine ⟨hm.1, hm.2, ?_⟩
  simpa [Row.live] using hp

theorem findLiveByLink_mem {rows : List Row} {l : Name} {r : Row} (h : findLiveByLink rows l = some r) :
    r ∈ rows := List.mem_of_find?_eq_some h

/-- every row of `setByKey rows new` is an old row or `new` -/
theorem mem_setByKey {rows : List Row} {new x : Row} (h : x ∈ setByKey rows new) : x ∈ rows ∨ x = new := by
  unfold setByKey at h
  rw [List.mem_map] at h
  obtain ⟨r, hr, rfl⟩ := h
  split
  · exact Or.inr rfl
  · exact Or.inl hr

/-- the four position columns of a row -/
def Row.posOk (P : Int → Int → Prop) (r : Row) : Prop := P r.recd r.blk ∧ P r.lkRecd r.lkBlk

theorem getHeader_rows (p : Idx) (n : Name) : (p.getHeader n).1.rows = p.rows := by
  unfold getHeader
  simp only
  split <;> simp [sanitize_rows]

theorem getHeader_mem {p : Idx} {n : Name} {r : Row} {p' : Idx} (h : p.getHeader n = (p', .ok r)) :
    r ∈ p.rows ∧ r.deleted = false := by
  unfold getHeader at h
  simp only at h
  split at h
  · rename_i r' hf
    injection h with h1 h2
    injection h2 with h2
    subst h2
    have := findLive_mem hf
    rw [sanitize_rows] at this
    exact ⟨this.1, this.2.2⟩
  · injection h with h1 h2; cases h2

end Idx
end Stfs
