/-
  Any predicate on the index table that holds of the empty table and is preserved by
  `indexHeader` (`applyRec`) holds after `recovery.Index` from any start position, after the
  four write operations and a rebuild, hence (through `FsPres`/`SysPres`) after every call of
  every history.  Generic counterpart of `PosOps.lean`, which needs position premises.
-/
import Stfs.Proofs.PosOps
namespace Stfs
open Gen

structure RowsInv (Q : List Row → Prop) : Prop where
  nil : Q []
  step : ∀ (c : Cfg) (p : Idx) (pos : Pos) (h : Hdr) (init : Bool), Q p.rows → Q (applyRec c p pos h init).1.rows

variable {Q : List Row → Prop}

theorem indexLoop_q (hq : RowsInv Q) (c : Cfg) (init : Bool) (offset : Nat) (s : Subst) (items : Tape) :
    ∀ (p : Idx) (pos : Pos) (off : Int) (i : Nat), Q p.rows →
      Q (indexLoop c init offset s p pos off i items).1.rows := by
  induction items with
  | nil => intro p pos off i hp; simpa [indexLoop] using hp
  | cons it rest ih =>
    intro p pos off i hp
    cases it with
    | trailer =>
      simp only [indexLoop]
      split
      · exact hp
      · exact ih p _ _ i hp
    | recd onTape hb stored data =>
      simp only [indexLoop]
      have hstep : Q (if i ≥ offset then
          match s.header onTape (i - offset) with
          | .error e => (p, some e)
          | .ok h => applyRec c p pos h init
        else (p, none)).1.rows := by
        split
        · split
          · exact hp
          · exact hq.step c p _ _ init hp
        · exact hp
      generalize (if i ≥ offset then
          match s.header onTape (i - offset) with
          | .error e => (p, some e)
          | .ok h => applyRec c p pos h init
        else (p, none)) = step at hstep
      rcases step with ⟨p', e⟩
      cases e with
      | some e => exact hstep
      | none => exact ih p' _ _ (i + 1) hstep

theorem index_q (hq : RowsInv Q) (c : Cfg) (p : Idx) (t : Tape) (start : Pos) (ov init : Bool) (offset : Nat)
    (s : Subst) (hp : Q p.rows) : Q (index c p t start ov init offset s).1.rows := by
  unfold index
  have hp' : Q (if ov then p.purge else p).rows := by
    cases ov
    · exact hp
    · simpa [Idx.purge] using hq.nil
  generalize (if ov then p.purge else p) = q at hp'
  simp only
  split
  · exact hp'
  · split
    · exact hp'
    · exact indexLoop_q hq c init offset s _ q _ _ 0 hp'

def RowsW (Q : List Row → Prop) (w : World) : Prop := Q w.idx.rows

theorem reindex_q (hq : RowsInv Q) (c : Cfg) (w : World) (t : Tape) (start : Int × Int) (ov init : Bool)
    (hdrs : List Hdr) (hw : RowsW Q w) : RowsW Q (reindex c w t start ov init hdrs).1 := by
  unfold reindex RowsW
  simp only
  exact index_q hq c w.idx _ _ ov init _ _ hw

theorem rowStable_rows (Q : List Row → Prop) : RowStable (RowsW Q) := by
  intro w p hp hw
  unfold RowsW at *
  simp only
  rw [hp]; exact hw

theorem archive_q (hq : RowsInv Q) (c : Cfg) (w : World) (srcs : List Src) (ov init : Bool) (env : EnvRecs)
    (hw : RowsW Q w) : RowsW Q (archive c w srcs ov init env).1 := by
  unfold archive
  split
  · exact hw
  · simp only
    split
    · exact hw
    · exact reindex_q hq c w _ _ ov init _ hw

theorem update_q (hq : RowsInv Q) (c : Cfg) (w : World) (srcs : List Src) (r s : Bool) (env : EnvRecs)
    (hw : RowsW Q w) : RowsW Q (update c w srcs r s env).1 := by
  unfold update
  split
  · exact hw
  · split
    · exact hw
    · exact reindex_q hq c w _ _ false false _ hw

theorem delete_q (hq : RowsInv Q) (c : Cfg) (w : World) (n : Name) (env : EnvRecs)
    (hw : RowsW Q w) : RowsW Q (delete c w n env).1 := by
  unfold delete
  split
  · exact hw
  · simp only
    split
    · rename_i p e heq
      have : p.rows = w.idx.rows := by
        have := lookupForWrite_rows w.idx n; rw [heq] at this; exact this
      exact rowStable_rows Q w p this hw
    · rename_i p r heq
      have hpr : p.rows = w.idx.rows := by
        have := lookupForWrite_rows w.idx n; rw [heq] at this; exact this
      generalize hch : (if r.hdr.typeflag == tfDir && r.linkname == [] then p.getHeaderChildren n else (p, [])) = ch
      have hchr : ch.1.rows = w.idx.rows := by
        rw [← hch]
        split
        · rw [Idx.getHeaderChildren_rows]; exact hpr
        · exact hpr
      rcases ch with ⟨p2, children⟩
      simp only
      have hw2 : RowsW Q { w with idx := p2 } := rowStable_rows Q w p2 hchr hw
      exact reindex_q hq c { w with idx := p2 } _ _ false false _ hw2

theorem move_q (hq : RowsInv Q) (c : Cfg) (w : World) (a b : Name) (env : EnvRecs)
    (hw : RowsW Q w) : RowsW Q (move c w a b env).1 := by
  unfold move
  split
  · exact hw
  · split
    · exact hw
    · simp only
      have lk : ∀ p e, lookupForWrite w.idx a = (p, e) → p.rows = w.idx.rows := by
        intro p e heq
        have := lookupForWrite_rows w.idx a; rw [heq] at this; exact this
      split
      · rename_i p e heq
        exact rowStable_rows Q w p (lk p _ heq) hw
      · rename_i p r heq
        have hpr := lk p _ heq
        generalize hto : moveTarget r.name b = to
        split
        · exact rowStable_rows Q w p hpr hw
        · generalize hch : (if r.hdr.typeflag == tfDir then p.getHeaderChildren a else (p, [])) = ch
          have hchr : ch.1.rows = w.idx.rows := by
            rw [← hch]
            split
            · rw [Idx.getHeaderChildren_rows]; exact hpr
            · exact hpr
          rcases ch with ⟨p2, children⟩
          simp only
          have hw2 : RowsW Q { w with idx := p2 } := rowStable_rows Q w p2 hchr hw
          exact reindex_q hq c { w with idx := p2 } _ _ false false _ hw2

theorem rebuild_q (hq : RowsInv Q) (f : FsCfg) (w : World) (hw : RowsW Q w) : RowsW Q (rebuildOp f w).1 := by
  unfold rebuildOp RowsW
  simp only
  exact index_q hq f.c w.idx w.tape ⟨0, 0⟩ true false 0 .tape hw

theorem opsPres_rows (hq : RowsInv Q) (f : FsCfg) : OpsPres f (RowsW Q) where
  stable := rowStable_rows Q
  archive := fun w srcs ov init env hw => archive_q hq f.c w srcs ov init env hw
  update := fun w srcs r s env hw => update_q hq f.c w srcs r s env hw
  delete := fun w n env hw => delete_q hq f.c w n env hw
  move := fun w a b env hw => move_q hq f.c w a b env hw
  rebuild := fun w hw => rebuild_q hq f w hw
  stuck := fun w hw => hw
  unstuck := fun w hw => hw

end Stfs
