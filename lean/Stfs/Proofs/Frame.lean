/-
  Frame lemmas: applying one record to the index changes only rows with a handful of names
  (the record's own name and, for a move, the name it replaces).
-/
import Stfs.Proofs.IndexLemmas
namespace Stfs
open Gen

/-- rows with a name outside `names` are the same in both tables -/
def SameOutside (names : List Name) (rows rows' : List Row) : Prop :=
  ∀ r : Row, r.name ∉ names → (r ∈ rows ↔ r ∈ rows')

theorem SameOutside.refl (names : List Name) (rows : List Row) : SameOutside names rows rows := fun _ _ => Iff.rfl

theorem SameOutside.trans {n1 n2 : List Name} {a b c : List Row} (h1 : SameOutside n1 a b) (h2 : SameOutside n2 b c) :
    SameOutside (n1 ++ n2) a c := by
  intro r hr
  have hr1 : r.name ∉ n1 := fun h => hr (List.mem_append.mpr (Or.inl h))
  have hr2 : r.name ∉ n2 := fun h => hr (List.mem_append.mpr (Or.inr h))
  exact (h1 r hr1).trans (h2 r hr2)

theorem SameOutside.mono {n1 n2 : List Name} {a b : List Row} (h : SameOutside n1 a b) (hs : ∀ x ∈ n1, x ∈ n2) :
    SameOutside n2 a b := fun r hr => h r (fun hx => hr (hs _ hx))

namespace Idx

theorem setByKey_frame (rows : List Row) (new : Row) : SameOutside [new.name] rows (setByKey rows new) := by
  intro r hr
  have hne : r.name ≠ new.name := by simpa using hr
  unfold setByKey
  constructor
  · intro h
    rw [List.mem_map]
    refine ⟨r, h, ?_⟩
    have : ¬ ((r.name == new.name && r.linkname == new.linkname) = true) := by simp [hne]
    simp [this]
  · intro h
    rw [List.mem_map] at h
    obtain ⟨x, hx, hxr⟩ := h
    split at hxr
    · subst hxr; exact absurd rfl hne
    · subst hxr; exact hx

theorem upsertHeader_frame (p : Idx) (r : Row) (init : Bool) :
    ∃ n, SameOutside [n] p.rows (p.upsertHeader r init).rows := by
  unfold upsertHeader
  have key : ∀ (q : Idx) (n : Name), q.rows = p.rows →
      SameOutside [n] p.rows (if hasKey q.rows n r.linkname = true
        then { q with rows := setByKey q.rows { r with hdr := { r.hdr with name := n } } }
        else { q with rows := q.rows ++ [{ r with hdr := { r.hdr with name := n } }] }).rows := by
    intro q n hq
    split
    · simp only; rw [hq]; exact setByKey_frame p.rows { r with hdr := { r.hdr with name := n } }
    · simp only; rw [hq]
      intro x hx
      have : x.name ≠ n := by simpa using hx
      constructor
      · intro h; exact List.mem_append.mpr (Or.inl h)
      · intro h
        rcases List.mem_append.mp h with h | h
        · exact h
        · simp at h; subst h; exact absurd rfl this
  cases init with
  | true => exact ⟨r.name, by simpa using key p r.name rfl⟩
  | false => exact ⟨(p.sanitize r.name).2, by simpa using key (p.sanitize r.name).1 (p.sanitize r.name).2 (sanitize_rows p r.name)⟩

theorem updateHeaderMetadata_frame (p : Idx) (r : Row) :
    SameOutside [(p.sanitize r.name).2] p.rows (p.updateHeaderMetadata r).rows := by
  unfold updateHeaderMetadata
  simp only
  have := setByKey_frame (p.sanitize r.name).1.rows { r with hdr := { r.hdr with name := (p.sanitize r.name).2 } }
  rw [sanitize_rows] at this
  rw [sanitize_rows]
  exact this

theorem moveHeader_frame (p : Idx) (o n : Name) (a b : Int) :
    ∃ o' n', SameOutside [o', n'] p.rows (p.moveHeader o n a b).1.rows := by
  unfold moveHeader
  simp only
  refine ⟨((p.sanitize n).1.sanitize o).2, (p.sanitize n).2, ?_⟩
  split
  · simp only [sanitize_rows]; exact SameOutside.refl _ _
  · simp only [sanitize_rows]
    intro r hr
    have h1 : r.name ≠ ((p.sanitize n).1.sanitize o).2 := by
      intro h; exact hr (by simp [h])
    have h2 : r.name ≠ (p.sanitize n).2 := by
      intro h; exact hr (by simp [h])
    constructor
    · intro h
      rw [List.mem_map]
      exact ⟨r, h, by simp [h1]⟩
    · intro h
      rw [List.mem_map] at h
      obtain ⟨x, hx, hxr⟩ := h
      split at hxr
      · subst hxr; exact absurd rfl h2
      · subst hxr; exact hx

theorem deleteHeader_frame (p : Idx) (n : Name) (a b : Int) :
    SameOutside [(p.sanitize n).2] p.rows (p.deleteHeader n a b).1.rows := by
  unfold deleteHeader
  simp only
  split
  · simp only [sanitize_rows]; exact SameOutside.refl _ _
  · rename_i r hf
    have hm := findLive_mem hf
    simp only
    have := setByKey_frame (p.sanitize n).1.rows { r with deleted := true, lkRecd := a, lkBlk := b }
    rw [sanitize_rows] at this
    have hn : ({ r with deleted := true, lkRecd := a, lkBlk := b } : Row).name = (p.sanitize n).2 := hm.2.1
    rw [hn] at this
    rw [sanitize_rows]
    exact this

end Idx

/-- `indexHeader` changes only rows with at most three names (the record's name under the
    current root spelling and, for a move, the replaced name under both). -/
theorem applyRec_frame (c : Cfg) (p : Idx) (pos : Pos) (h : Hdr) (init : Bool) :
    ∃ names : List Name, names.length ≤ 3 ∧ SameOutside names p.rows (applyRec c p pos h init).1.rows := by
  unfold applyRec
  split
  · exact ⟨[], by simp, SameOutside.refl _ _⟩
  · split
    · exact ⟨[], by simp, SameOutside.refl _ _⟩
    · rename_i h2 _
      simp only
      split
      · exact ⟨[], by simp, SameOutside.refl _ _⟩
      · split
        · obtain ⟨n, hn⟩ := Idx.upsertHeader_frame p (Idx.mkRow h2 pos.recd pos.blk pos.recd pos.blk) init
          exact ⟨[n], by simp, hn⟩
        · split
          · have := Idx.deleteHeader_frame p h2.name pos.recd pos.blk
            generalize p.deleteHeader h2.name pos.recd pos.blk = x at this
            rcases x with ⟨p', r⟩
            refine ⟨[(p.sanitize h2.name).2], by simp, ?_⟩
            cases r <;> exact this
          · split
            · -- UPDATE
              have step : ∀ o : Name, ∃ n1, SameOutside [n1] p.rows
                  (if h2.pax.get recSTFSRecordReplacesContent == some recSTFSRecordReplacesContentTrue then
                    p.updateHeaderMetadata (Idx.mkRow h2 pos.recd pos.blk pos.recd pos.blk)
                  else
                    match p.getHeader o with
                    | (q', .ok old) => q'.updateHeaderMetadata (Idx.mkRow (if (h2.pax.get recSTFSRecordUncompressedSize).isNone then { h2 with size := old.hdr.size } else h2) old.recd old.blk pos.recd pos.blk)
                    | (q', .error _) => q').rows := by
                intro o
                split
                · exact ⟨_, Idx.updateHeaderMetadata_frame p _⟩
                · split
                  · rename_i q' old heq
                    have hq' : q'.rows = p.rows := by
                      have := Idx.getHeader_rows p o; rw [heq] at this; exact this
                    have := Idx.updateHeaderMetadata_frame q' (Idx.mkRow (if (h2.pax.get recSTFSRecordUncompressedSize).isNone then { h2 with size := old.hdr.size } else h2) old.recd old.blk pos.recd pos.blk)
                    rw [hq'] at this
                    exact ⟨_, this⟩
                  · rename_i q' e heq
                    have hq' : q'.rows = p.rows := by
                      have := Idx.getHeader_rows p o; rw [heq] at this; exact this
                    rw [hq']; exact ⟨[], SameOutside.refl _ _⟩
              split
              · rename_i o _
                simp only
                obtain ⟨n1, hn1⟩ := step o
                generalize (if h2.pax.get recSTFSRecordReplacesContent == some recSTFSRecordReplacesContentTrue then
                    p.updateHeaderMetadata (Idx.mkRow h2 pos.recd pos.blk pos.recd pos.blk)
                  else
                    match p.getHeader o with
                    | (q', .ok old) => q'.updateHeaderMetadata (Idx.mkRow (if (h2.pax.get recSTFSRecordUncompressedSize).isNone then { h2 with size := old.hdr.size } else h2) old.recd old.blk pos.recd pos.blk)
                    | (q', .error _) => q') = q at hn1 ⊢
                obtain ⟨o', n', hm⟩ := Idx.moveHeader_frame q o h2.name pos.recd pos.blk
                generalize q.moveHeader o h2.name pos.recd pos.blk = x at hm
                rcases x with ⟨p', r⟩
                refine ⟨[n1] ++ [o', n'], by simp, ?_⟩
                cases r <;> exact hn1.trans hm
              · simp only
                obtain ⟨n1, hn1⟩ := step h2.name
                exact ⟨[n1], by simp, hn1⟩
            · exact ⟨[], by simp, SameOutside.refl _ _⟩

/-- the index has cached an absolute root (the state of every instance after `Initialize` on an
    absolute root proposal) -/
def AbsRoot (p : Idx) : Prop := hasPrefix p.root [slash] = true

theorem sanitize_abs (p : Idx) (n : Name) (hr : AbsRoot p) (hn : hasPrefix n [slash] = true) :
    (p.sanitize n).1 = p ∧ ((p.sanitize n).2 = n ∨ (p.sanitize n).2 = p.root) := by
  unfold AbsRoot at hr
  have hne : (p.root == []) = false := by
    cases h : p.root with
    | nil => rw [h] at hr; simp [hasPrefix] at hr
    | cons _ _ => rfl
  unfold Idx.sanitize
  split
  · exact ⟨rfl, Or.inr rfl⟩
  · simp [hne, hr, hn]

theorem deleteHeader_root (p : Idx) (n : Name) (a b : Int) (hr : AbsRoot p) (hn : hasPrefix n [slash] = true) :
    (p.deleteHeader n a b).1.root = p.root := by
  unfold Idx.deleteHeader
  simp only
  have := (sanitize_abs p n hr hn).1
  split <;> simp [this]

end Stfs
