/-
  C05 helpers: the tape only grows, and it stays a concatenation of archives
  (records followed by a trailer).
-/
import Stfs.Proofs.SysPres
namespace Stfs
open Gen

/-- the tape extends `t0` -/
def Extends (t0 : Tape) (w : World) : Prop := ∃ s, w.tape = t0 ++ s

theorem Extends.trans_append {t0 : Tape} {w : World} (h : Extends t0 w) (its : Tape) :
    ∃ s, appendItems w.tape its = t0 ++ s := by
  obtain ⟨s, hs⟩ := h
  unfold appendItems
  split
  · exact ⟨s, hs⟩
  · exact ⟨s ++ its ++ [.trailer], by rw [hs]; simp⟩

theorem reindex_tape (c : Cfg) (w : World) (t : Tape) (start : Int × Int) (ov init : Bool) (hdrs : List Hdr) :
    (reindex c w t start ov init hdrs).1.tape = t := by
  unfold reindex; rfl

theorem archive_tape_cases (c : Cfg) (w : World) (srcs : List Src) (ov init : Bool) (env : EnvRecs) :
    (archive c w srcs ov init env).1.tape = w.tape ∨
      ∃ hdrs its, emitAll (archiveItem c) srcs env 0 = some (hdrs, its) ∧
        (archive c w srcs ov init env).1.tape = appendItems w.tape its := by
  unfold archive
  split
  · exact Or.inl rfl
  · simp only
    split
    · exact Or.inl rfl
    · rename_i hdrs its heq
      exact Or.inr ⟨hdrs, its, heq, reindex_tape _ _ _ _ _ _ _⟩

theorem update_tape_cases (c : Cfg) (w : World) (srcs : List Src) (r sk : Bool) (env : EnvRecs) :
    (update c w srcs r sk env).1.tape = w.tape ∨
      ∃ hdrs its, emitAll (fun s e => updateItem c s r sk e) srcs env 0 = some (hdrs, its) ∧
        (update c w srcs r sk env).1.tape = appendItems w.tape its := by
  unfold update
  split
  · exact Or.inl rfl
  · simp only
    split
    · exact Or.inl rfl
    · rename_i hdrs its heq
      exact Or.inr ⟨hdrs, its, heq, reindex_tape _ _ _ _ _ _ _⟩

theorem delete_tape_cases (c : Cfg) (w : World) (n : Name) (env : EnvRecs) :
    (delete c w n env).1.tape = w.tape ∨
      ∃ rows : List Row, (delete c w n env).1.tape = appendItems w.tape (deleteItems rows env).2 := by
  unfold delete
  split
  · exact Or.inl rfl
  · simp only
    split
    · exact Or.inl rfl
    · rename_i p r heq
      exact Or.inr ⟨_, reindex_tape _ _ _ _ _ _ _⟩

theorem move_tape_cases (c : Cfg) (w : World) (a b : Name) (env : EnvRecs) :
    (move c w a b env).1.tape = w.tape ∨
      ∃ (rows : List Row) (to : Name), (move c w a b env).1.tape = appendItems w.tape (moveItems a to rows env).2 := by
  unfold move
  split
  · exact Or.inl rfl
  · split
    · exact Or.inl rfl
    · simp only
      split
      · exact Or.inl rfl
      · split
        · exact Or.inl rfl
        · exact Or.inr ⟨_, _, reindex_tape _ _ _ _ _ _ _⟩

theorem opsPres_extends (f : FsCfg) (t0 : Tape) : OpsPres f (Extends t0) where
  stable := fun w p _ h => h
  archive := fun w srcs ov init env h => by
    rcases archive_tape_cases f.c w srcs ov init env with h1 | ⟨_, its, _, h1⟩
    · obtain ⟨s, hs⟩ := h; exact ⟨s, by rw [h1, hs]⟩
    · obtain ⟨s, hs⟩ := h.trans_append its; exact ⟨s, by rw [h1, hs]⟩
  update := fun w srcs r sk env h => by
    rcases update_tape_cases f.c w srcs r sk env with h1 | ⟨_, its, _, h1⟩
    · obtain ⟨s, hs⟩ := h; exact ⟨s, by rw [h1, hs]⟩
    · obtain ⟨s, hs⟩ := h.trans_append its; exact ⟨s, by rw [h1, hs]⟩
  delete := fun w n env h => by
    rcases delete_tape_cases f.c w n env with h1 | ⟨rows, h1⟩
    · obtain ⟨s, hs⟩ := h; exact ⟨s, by rw [h1, hs]⟩
    · obtain ⟨s, hs⟩ := h.trans_append (deleteItems rows env).2; exact ⟨s, by rw [h1, hs]⟩
  move := fun w a b env h => by
    rcases move_tape_cases f.c w a b env with h1 | ⟨rows, to, h1⟩
    · obtain ⟨s, hs⟩ := h; exact ⟨s, by rw [h1, hs]⟩
    · obtain ⟨s, hs⟩ := h.trans_append (moveItems a to rows env).2; exact ⟨s, by rw [h1, hs]⟩
  rebuild := fun w h => h
  stuck := fun w h => h
  unstuck := fun w h => h

/-! ### archives: records followed by a trailer -/

/-- `wfFrom inArchive t`: `t` continues a well-formed concatenation of archives, where
    `inArchive` says whether records have been seen since the last trailer -/
def wfFrom : Bool → Tape → Bool
  | b, [] => !b
  | _, .recd _ _ _ _ :: t => wfFrom true t
  | b, .trailer :: t => b && wfFrom false t

def ArchWF (w : World) : Prop := wfFrom false w.tape = true

def allRecs (its : Tape) : Bool := its.all (fun it => match it with | .recd _ _ _ _ => true | .trailer => false)

theorem wfFrom_append_recs (t its : Tape) (b : Bool) (ht : wfFrom b t = true) (hne : its ≠ []) (hr : allRecs its = true) :
    wfFrom b (t ++ its ++ [.trailer]) = true := by
  induction t generalizing b with
  | nil =>
    simp only [wfFrom, Bool.not_eq_true'] at ht
    subst ht
    simp only [List.nil_append]
    -- records then trailer, starting outside an archive
    have : ∀ (its : Tape) (b' : Bool), (b' = true ∨ its ≠ []) → allRecs its = true → wfFrom b' (its ++ [.trailer]) = true := by
      intro its
      induction its with
      | nil =>
        intro b' h _
        rcases h with h | h
        · simp [wfFrom, h]
        · exact absurd rfl h
      | cons x xs ih =>
        intro b' _ hr
        cases x with
        | trailer => simp [allRecs] at hr
        | recd h hb st d =>
          simp only [List.cons_append, wfFrom]
          apply ih true (Or.inl rfl)
          simpa [allRecs] using hr
    exact this its false (Or.inr hne) hr
  | cons x xs ih =>
    cases x with
    | recd h hb st d => simp only [List.cons_append, wfFrom] at ht ⊢; exact ih true ht
    | trailer =>
      simp only [List.cons_append, wfFrom, Bool.and_eq_true] at ht ⊢
      exact ⟨ht.1, ih false ht.2⟩

theorem appendItems_wf (t its : Tape) (ht : wfFrom false t = true) (hr : allRecs its = true) :
    wfFrom false (appendItems t its) = true := by
  unfold appendItems
  split
  · exact ht
  · rename_i hne
    exact wfFrom_append_recs t its false ht (by simpa using hne) hr

theorem emitAll_allRecs (g : Src → (Nat × Nat) → Option (Hdr × Item))
    (hg : ∀ s e h it, g s e = some (h, it) → ∃ hh hb st d, it = .recd hh hb st d) :
    ∀ (srcs : List Src) (env : EnvRecs) (i : Nat) hdrs its, emitAll g srcs env i = some (hdrs, its) → allRecs its = true := by
  intro srcs
  induction srcs with
  | nil => intro env i hdrs its h; simp [emitAll] at h; simp [h.2, allRecs]
  | cons s ss ih =>
    intro env i hdrs its h
    simp only [emitAll] at h
    split at h
    · rename_i hh it hs its' h1 h2
      injection h with h; injection h with _ h; subst h
      obtain ⟨_, _, _, _, rfl⟩ := hg _ _ _ _ h1
      have := ih env (i + 1) _ _ h2
      simpa [allRecs] using this
    · cases h

theorem archiveItem_recd (c : Cfg) (s : Src) (e : Nat × Nat) (h : Hdr) (it : Item) (hh : archiveItem c s e = some (h, it)) :
    ∃ hh hb st d, it = .recd hh hb st d := by
  unfold archiveItem at hh
  simp only at hh
  split at hh
  · split at hh
    · cases hh
    · injection hh with hh; injection hh with _ hh; exact ⟨_, _, _, _, hh.symm⟩
  · injection hh with hh; injection hh with _ hh; exact ⟨_, _, _, _, hh.symm⟩

theorem updateItem_recd (c : Cfg) (s : Src) (r sk : Bool) (e : Nat × Nat) (h : Hdr) (it : Item)
    (hh : updateItem c s r sk e = some (h, it)) : ∃ hh hb st d, it = .recd hh hb st d := by
  unfold updateItem at hh
  simp only at hh
  split at hh
  · split at hh
    · split at hh
      · cases hh
      · injection hh with hh; injection hh with _ hh; exact ⟨_, _, _, _, hh.symm⟩
    · injection hh with hh; injection hh with _ hh; exact ⟨_, _, _, _, hh.symm⟩
  · injection hh with hh; injection hh with _ hh; exact ⟨_, _, _, _, hh.symm⟩

theorem deleteItems_allRecs (rows : List Row) (env : EnvRecs) : allRecs (deleteItems rows env).2 = true := by
  simp [deleteItems, allRecs, List.all_map]

theorem moveItems_allRecs (a b : Name) (rows : List Row) (env : EnvRecs) : allRecs (moveItems a b rows env).2 = true := by
  simp [moveItems, allRecs, List.all_map]

theorem opsPres_archWF (f : FsCfg) : OpsPres f ArchWF where
  stable := fun w p _ h => h
  archive := fun w srcs ov init env h => by
    unfold ArchWF at *
    rcases archive_tape_cases f.c w srcs ov init env with h1 | ⟨hdrs, its, he, h1⟩
    · rw [h1]; exact h
    · rw [h1]; exact appendItems_wf _ _ h (emitAll_allRecs _ (archiveItem_recd f.c) _ _ _ _ _ he)
  update := fun w srcs r sk env h => by
    unfold ArchWF at *
    rcases update_tape_cases f.c w srcs r sk env with h1 | ⟨hdrs, its, he, h1⟩
    · rw [h1]; exact h
    · rw [h1]; exact appendItems_wf _ _ h (emitAll_allRecs _ (fun s e => updateItem_recd f.c s r sk e) _ _ _ _ _ he)
  delete := fun w n env h => by
    unfold ArchWF at *
    rcases delete_tape_cases f.c w n env with h1 | ⟨rows, h1⟩
    · rw [h1]; exact h
    · rw [h1]; exact appendItems_wf _ _ h (deleteItems_allRecs _ _)
  move := fun w a b env h => by
    unfold ArchWF at *
    rcases move_tape_cases f.c w a b env with h1 | ⟨rows, to, h1⟩
    · rw [h1]; exact h
    · rw [h1]; exact appendItems_wf _ _ h (moveItems_allRecs _ _ _ _)
  rebuild := fun w h => h
  stuck := fun w h => h
  unstuck := fun w h => h

end Stfs
