/-
  The indexer is a left fold over the records of the tape: indexing `a ++ b` is indexing `a`
  and then continuing on `b` from where `a` ended (up to the first error).
-/
import Stfs.Proofs.Scan
namespace Stfs

def recCount : Tape → Nat
  | [] => 0
  | .recd _ _ _ _ :: t => recCount t + 1
  | .trailer :: t => recCount t

theorem indexLoopIdeal_append (c : Cfg) (init : Bool) (offset : Nat) (s : Subst) (a b : Tape) :
    ∀ (p : Idx) (B i : Nat),
      indexLoopIdeal c init offset s p B i (a ++ b) =
        match indexLoopIdeal c init offset s p B i a with
        | (p', some e) => (p', some e)
        | (p', none) => indexLoopIdeal c init offset s p' (B + tapeBlocks a) (i + recCount a) b := by
  induction a with
  | nil => intro p B i; simp [indexLoopIdeal, tapeBlocks, recCount]
  | cons it rest ih =>
    intro p B i
    cases it with
    | trailer =>
      simp only [List.cons_append, indexLoopIdeal, ih]
      have e1 : B + 2 + tapeBlocks rest = B + tapeBlocks (.trailer :: rest) := by
        simp [tapeBlocks, Item.blocks]; omega
      have e2 : recCount (.trailer :: rest) = recCount rest := rfl
      rw [e1, e2]
    | recd onTape hb stored data =>
      simp only [List.cons_append, indexLoopIdeal]
      generalize (if i ≥ offset then
          match s.header onTape (i - offset) with
          | .error e => (p, some e)
          | .ok h => applyRec c p (posOfBlock c.rs B) h init
        else (p, none)) = step
      rcases step with ⟨p', e⟩
      cases e with
      | some e => rfl
      | none =>
        simp only [ih]
        have e1 : B + hb + blocksOf stored + tapeBlocks rest = B + tapeBlocks (.recd onTape hb stored data :: rest) := by
          simp [tapeBlocks, Item.blocks]; omega
        have e2 : i + 1 + recCount rest = i + recCount (.recd onTape hb stored data :: rest) := by
          simp [recCount]; omega
        rw [e1, e2]

end Stfs
