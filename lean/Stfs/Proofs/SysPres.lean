/-
  Lifting `OpsPres` invariants to arbitrary histories of calls.
-/
import Stfs.Model.Sys
import Stfs.Proofs.FsPres
namespace Stfs

theorem Sys.run_w {α} (s : Sys) (m : M α) (v : α → Val) : (s.run m v).1.w = (m s.w).1 := by
  unfold Sys.run
  split <;> rename_i h <;> simp [h]

theorem hRead_pres {f : FsCfg} {I : World → Prop} (h : OpsPres f I) (hd : Handle) (n : Nat) : Pres I (hRead f hd n) := by
  have hs := h.stable
  unfold hRead startReader
  repeat (first
    | with_reducible exact restoreContent_ro hs f _
    | with_reducible exact fetchedHeader_ro hs f _
    | with_reducible exact Pres.wedge h.stuck _
    | pres_step)

theorem hSeekNoLock_pres {f : FsCfg} {I : World → Prop} (h : OpsPres f I) (hd : Handle) (o w : Int) : Pres I (hSeekNoLock f hd o w) := by
  have hs := h.stable
  unfold hSeekNoLock seekStart startReader
  repeat (first
    | with_reducible exact restoreContent_ro hs f _
    | with_reducible exact fetchedHeader_ro hs f _
    | with_reducible exact Pres.wedge h.stuck _
    | pres_step)

theorem hReadAt_pres {f : FsCfg} {I : World → Prop} (h : OpsPres f I) (hd : Handle) (n : Nat) (o : Int) : Pres I (hReadAt f hd n o) := by
  unfold hReadAt
  repeat (first
    | with_reducible exact hSeekNoLock_pres h _ _ _
    | with_reducible exact hRead_pres h _ _
    | pres_step)

theorem hWriteAtCore_pres {f : FsCfg} {I : World → Prop} (h : OpsPres f I) (hd : Handle) (p : Bytes) (o : Int) : Pres I (hWriteAtCore f hd p o) := by
  unfold hWriteAtCore
  repeat (first
    | with_reducible exact hSeekNoLock_pres h _ _ _
    | pres_step)

theorem hTruncateCore_pres {I : World → Prop} (hd : Handle) (sz : Int) : Pres I (hTruncateCore hd sz) := by
  unfold hTruncateCore
  repeat pres_step

theorem hStat_pres {I : World → Prop} (hd : Handle) : Pres I (hStat hd) := by
  unfold hStat
  repeat pres_step

theorem Sys.step0_pres {f : FsCfg} {I : World → Prop} (h : OpsPres f I) (s : Sys) (env : Env) (c : Call)
    (hw : I s.w) : I (s.step0 f env c).1.w := by
  cases c <;> simp only [Sys.step0]
  case init r p => rw [Sys.run_w]; exact (initFs_pres h env r p).run _ hw
  case mkdir n p => rw [Sys.run_w]; exact (mkdir_pres h env n p).run _ hw
  case mkdirAll n p => rw [Sys.run_w]; exact (mkdirAll_pres h env n p).run _ hw
  case remove n => rw [Sys.run_w]; exact (remove_pres h env n).run _ hw
  case removeAll n => rw [Sys.run_w]; exact (removeAll_pres h env n).run _ hw
  case rename a b => rw [Sys.run_w]; exact (rename_pres h env a b).run _ hw
  case chmod n m => rw [Sys.run_w]; exact (chmod_pres h env n m).run _ hw
  case chown n u g => rw [Sys.run_w]; exact (chown_pres h env n u g).run _ hw
  case chtimes n a m => rw [Sys.run_w]; exact (chtimes_pres h env n a m).run _ hw
  case symlink a b => rw [Sys.run_w]; exact (symlink_pres h env a b).run _ hw
  case stat n => rw [Sys.run_w]; exact (fsStat_pres h n).run _ hw
  case lstat n => rw [Sys.run_w]; exact (lstat_pres h n).run _ hw
  case readlink n => rw [Sys.run_w]; exact (readlink_pres h n).run _ hw
  case cat n => rw [Sys.run_w]; exact (cat_pres h env n).run _ hw
  case create id n =>
    have := (create_pres h env n).run _ hw
    split <;> rename_i heq <;> rw [heq] at this <;> exact this
  case openFile id n flag perm =>
    have := (openFile_pres h env n flag perm).run _ hw
    split <;> rename_i heq <;> rw [heq] at this <;> exact this
  case open_ id n =>
    have := (fsOpen_pres h env n).run _ hw
    split <;> rename_i heq <;> rw [heq] at this <;> exact this
  case hwrite id data =>
    split
    · exact hw
    · rename_i hd _
      have := (hWrite_pres h hd data).run _ hw
      split <;> rename_i heq <;> rw [heq] at this <;> exact this
  case hwriteString id data =>
    split
    · exact hw
    · rename_i hd _
      have := (hWrite_pres h hd data).run _ hw
      split <;> rename_i heq <;> rw [heq] at this <;> exact this
  case hread id n =>
    split
    · exact hw
    · rename_i hd _
      have := (hRead_pres h hd n).run _ hw
      split <;> rename_i heq <;> rw [heq] at this <;> exact this
  case hreadAt id n off =>
    split
    · exact hw
    · rename_i hd _
      have := (hReadAt_pres h hd n off).run _ hw
      split <;> rename_i heq <;> rw [heq] at this <;> exact this
  case hseek id off wh =>
    split
    · exact hw
    · rename_i hd _
      have := (hSeekNoLock_pres h hd off wh).run _ hw
      split <;> rename_i heq <;> rw [heq] at this <;> exact this
  case hwriteAt id data off =>
    split
    · exact hw
    · rename_i hd _
      split
      · exact hw
      · have h1 := (enterWriteMode_pres h hd).run _ hw
        split
        · rename_i heq; rw [heq] at h1; exact h1
        · rename_i w1 h1' heq
          rw [heq] at h1
          have h2 := (hWriteAtCore_pres h h1' data off).run _ h1
          split <;> rename_i heq2 <;> rw [heq2] at h2 <;> exact h2
  case htruncate id sz =>
    split
    · exact hw
    · rename_i hd _
      split
      · exact hw
      · have h1 := (enterWriteMode_pres h hd).run _ hw
        split
        · rename_i heq; rw [heq] at h1; exact h1
        · rename_i w1 h1' heq
          rw [heq] at h1
          have h2 := (hTruncateCore_pres (I := I) h1' sz).run _ h1
          split <;> rename_i heq2 <;> rw [heq2] at h2 <;> exact h2
  case hstat id =>
    split
    · exact hw
    · rename_i hd _
      have := (hStat_pres (I := I) hd).run _ hw
      split <;> rename_i heq <;> rw [heq] at this <;> exact this
  case hname id =>
    split <;> exact hw
  case hsync id =>
    split
    · exact hw
    · rename_i hd _
      have := (hSyncNoLock_pres h env hd).run _ hw
      split <;> rename_i heq <;> rw [heq] at this <;> exact this
  case hclose id =>
    split
    · exact hw
    · rename_i hd _
      have := (hClose_pres h env hd).run _ hw
      split <;> rename_i heq <;> rw [heq] at this <;> exact this
  case hreaddir id n =>
    split
    · exact hw
    · rename_i hd _
      rw [Sys.run_w]; exact (hReaddir_pres h hd n).run _ hw

theorem Sys.step_pres {f : FsCfg} {I : World → Prop} (h : OpsPres f I) (s : Sys) (env : Env) (c : Call)
    (hw : I s.w) : I (s.step f env c).1.w := by
  unfold Sys.step
  split
  · have := Sys.step0_pres h { s with w := { s.w with stuck := true } } env c (h.stuck _ hw)
    generalize Sys.step0 f { s with w := { s.w with stuck := true } } env c = x at this
    rcases x with ⟨s', r⟩
    split
    · rename_i heq; injection heq with h1 _; subst h1; exact this
    · rename_i s2 r2 _ heq; injection heq with h1 _; subst h1; exact h.unstuck _ this
  · exact Sys.step0_pres h s env c hw

theorem Sys.runAll_pres {f : FsCfg} {I : World → Prop} (h : OpsPres f I) (hist : List (Env × Call)) :
    ∀ (s : Sys), I s.w → I (s.runAll f hist).w := by
  induction hist with
  | nil => intro s hw; exact hw
  | cons ec rest ih =>
    intro s hw
    rcases ec with ⟨env, c⟩
    simp only [Sys.runAll]
    exact ih _ (Sys.step_pres h s env c hw)

end Stfs
