/-
  Lifting `OpsPres` invariants to arbitrary histories of calls.
-/
import Stfs.Model.Sys
import Stfs.Proofs.FsPres
namespace Stfs

theorem Sys.run_w {α} (s : Sys) (m : M α) (v : α → Val) : (s.run m v).1.w = (m s.w).1 := by
  unfold Sys.run
  split <;> rename_i h <;> simp [h]

theorem Sys.step_pres {f : FsCfg} {I : World → Prop} (h : OpsPres f I) (s : Sys) (env : Env) (c : Call)
    (hw : I s.w) : I (s.step f env c).1.w := by
  cases c <;> simp only [Sys.step]
  case init r p => rw [Sys.run_w]; exact (initFs_pres h env r p).run _ hw
  case mkdir n p => rw [Sys.run_w]; exact (mkdir_pres h env n p).run _ hw
  case mkdirAll n p => rw [Sys.run_w]; exact (mkdirAll_pres h env n p).run _ hw
  case remove n => rw [Sys.run_w]; exact (remove_pres h env n).run _ hw
  case removeAll n => rw [Sys.run_w]; exact (removeAll_pres h env n).run _ hw
  case rename a b => rw [Sys.run_w]; exact (rename_pres h env a b).run _ hw
  case chmod n m => rw [Sys.run_w]; exact (chmod_pres h env n m).run _ hw
  case chown n u g => rw [Sys.run_w]; exact (chown_pres h env n u g).run _ hw
  case chtimes n a m => rw [Sys.run_w]; exact (chtimes_pres h env n a m).run _ hw
  case symlink a b => rw [Sys.run_w]; exact (symlink_pres h env a b).run _ hw
  case stat n => rw [Sys.run_w]; exact (fsStat_pres h n).run _ hw
  case lstat n => rw [Sys.run_w]; exact (lstat_pres h n).run _ hw
  case readlink n => rw [Sys.run_w]; exact (readlink_pres h n).run _ hw
  case cat n => rw [Sys.run_w]; exact (cat_pres h env n).run _ hw
  case create id n =>
    have := (create_pres h env n).run _ hw
    split <;> rename_i heq <;> rw [heq] at this <;> exact this
  case openFile id n flag perm =>
    have := (openFile_pres h env n flag perm).run _ hw
    split <;> rename_i heq <;> rw [heq] at this <;> exact this
  case open_ id n =>
    have := (fsOpen_pres h env n).run _ hw
    split <;> rename_i heq <;> rw [heq] at this <;> exact this
  case hwrite id data =>
    split
    · exact hw
    · rename_i hd _
      have := (hWrite_pres h hd data).run _ hw
      split <;> rename_i heq <;> rw [heq] at this <;> exact this
  case hwriteString id data =>
    split
    · exact hw
    · rename_i hd _
      have := (hWrite_pres h hd data).run _ hw
      split <;> rename_i heq <;> rw [heq] at this <;> exact this
  case hsync id =>
    split
    · exact hw
    · rename_i hd _
      have := (hSyncNoLock_pres h env hd).run _ hw
      split <;> rename_i heq <;> rw [heq] at this <;> exact this
  case hclose id =>
    split
    · exact hw
    · rename_i hd _
      have := (hClose_pres h env hd).run _ hw
      split <;> rename_i heq <;> rw [heq] at this <;> exact this
  case hreaddir id n =>
    split
    · exact hw
    · rename_i hd _
      rw [Sys.run_w]; exact (hReaddir_pres h hd n).run _ hw

theorem Sys.runAll_pres {f : FsCfg} {I : World → Prop} (h : OpsPres f I) (hist : List (Env × Call)) :
    ∀ (s : Sys), I s.w → I (s.runAll f hist).w := by
  induction hist with
  | nil => intro s hw; exact hw
  | cons ec rest ih =>
    intro s hw
    rcases ec with ⟨env, c⟩
    simp only [Sys.runAll]
    exact ih _ (Sys.step_pres h s env c hw)

end Stfs
