/-
  Every method of the filesystem model preserves every invariant `I` that (a) does not look
  at the persister's cached root, and (b) is preserved by the four write operations and by
  the rebuild inside `Initialize`.  This is the lemma through which C04, C05 and C15 lift
  facts about `pkg/operations` to every exported method of `*STFS` and of a handle.
-/
import Stfs.Proofs.Monad
namespace Stfs

structure OpsPres (f : FsCfg) (I : World → Prop) : Prop where
  stable : RowStable I
  archive : ∀ w srcs ov init env, I w → I (archive f.c w srcs ov init env).1
  update : ∀ w srcs r s env, I w → I (update f.c w srcs r s env).1
  delete : ∀ w n env, I w → I (delete f.c w n env).1
  move : ∀ w a b env, I w → I (move f.c w a b env).1
  rebuild : ∀ w, I w → I (rebuildOp f w).1
  stuck : ∀ w, I w → I { w with stuck := true }

variable {f : FsCfg} {I : World → Prop}

theorem stat_pres (h : OpsPres f I) (name : Name) (symlink : Bool) : Pres I (stat name symlink) := by
  have hs := h.stable
  unfold stat
  repeat pres_step

theorem list_pres (h : OpsPres f I) (name : Name) (limit : Int) : Pres I (list name limit) := by
  have hs := h.stable
  unfold list
  repeat pres_step

theorem mknod_pres (h : OpsPres f I) (env : Env) (isDir : Bool) (name : Name) (perm : Int) (ov : Bool)
    (l : Name) (init : Bool) : Pres I (mknod f env isDir name perm ov l init) := by
  unfold mknod
  split
  · exact Pres.fail _
  · exact Pres.op (fun w hw => h.archive w _ _ _ _ hw)

theorem mkdirRoot_pres (h : OpsPres f I) (env : Env) (root : Name) (perm : Int) : Pres I (mkdirRoot f env root perm) := by
  have hs := h.stable
  unfold mkdirRoot
  repeat (first | with_reducible exact mknod_pres h env _ _ _ _ _ _ | pres_step)

theorem initFs_pres (h : OpsPres f I) (env : Env) (root : Name) (perm : Int) : Pres I (initFs f env root perm) := by
  have hs := h.stable
  unfold initFs
  repeat (first
    | with_reducible exact mkdirRoot_pres h env _ _
    | with_reducible exact Pres.op (fun w hw => h.rebuild w hw)
    | pres_step)

theorem mkdir_pres (h : OpsPres f I) (env : Env) (name : Name) (perm : Int) : Pres I (mkdir f env name perm) := by
  have hs := h.stable
  have hst := fun a b => stat_pres h a b
  unfold mkdir
  repeat (first | with_reducible exact hst _ _ | with_reducible exact mknod_pres h env _ _ _ _ _ _ | pres_step)

theorem mkdirAllStep_pres (h : OpsPres f I) (env : Env) (perm : Int) (p : Name) :
    Pres I (mkdirAllStep f env perm p) := by
  have hs := h.stable
  unfold mkdirAllStep
  repeat (first | with_reducible exact stat_pres h _ _ | with_reducible exact mknod_pres h env _ _ _ _ _ _ | pres_step)

theorem mkdirAllLoop_pres (h : OpsPres f I) (env : Env) (perm : Int) (cur : Name) (parts : List Name) :
    Pres I (mkdirAllLoop f env perm cur parts) := by
  induction parts generalizing cur with
  | nil => exact Pres.pure _
  | cons p ps ih =>
    unfold mkdirAllLoop
    exact Pres.bind (mkdirAllStep_pres h env perm _) (fun _ => ih _)

theorem mkdirAll_pres (h : OpsPres f I) (env : Env) (path : Name) (perm : Int) : Pres I (mkdirAll f env path perm) := by
  unfold mkdirAll
  split
  · exact Pres.fail _
  · exact mkdirAllLoop_pres h env perm _ _

theorem removeNoLock_pres (h : OpsPres f I) (env : Env) (name : Name) : Pres I (removeNoLock f env name) := by
  have hs := h.stable
  unfold removeNoLock
  repeat (first
    | with_reducible exact stat_pres h _ _ | with_reducible exact list_pres h _ _
    | with_reducible exact Pres.op (fun w hw => h.delete w _ _ hw)
    | pres_step)

theorem remove_pres (h : OpsPres f I) (env : Env) (name : Name) : Pres I (remove f env name) := by
  unfold remove
  split
  · exact Pres.fail _
  · exact removeNoLock_pres h env _

theorem removeAll_pres (h : OpsPres f I) (env : Env) (name : Name) : Pres I (removeAll f env name) := by
  have hs := h.stable
  unfold removeAll
  repeat (first | with_reducible exact Pres.op (fun w hw => h.delete w _ _ hw) | pres_step)

theorem rename_pres (h : OpsPres f I) (env : Env) (a b : Name) : Pres I (rename f env a b) := by
  have hs := h.stable
  unfold rename
  repeat (first
    | with_reducible exact stat_pres h _ _ | with_reducible exact removeNoLock_pres h env _
    | with_reducible exact Pres.op (fun w hw => h.move w _ _ _ hw)
    | pres_step)

theorem statOrLink_pres (h : OpsPres f I) (name : Name) : Pres I (statOrLink name) := by
  have hs := h.stable
  unfold statOrLink
  repeat (first | with_reducible exact stat_pres h _ _ | pres_step)

theorem fsStat_pres (h : OpsPres f I) (name : Name) : Pres I (fsStat name) := statOrLink_pres h _

theorem statForUpdate_pres (h : OpsPres f I) (name : Name) : Pres I (statForUpdate name) := by
  have hs := h.stable
  unfold statForUpdate
  repeat (first | with_reducible exact stat_pres h _ _ | pres_step)

theorem updateMetadata_pres (h : OpsPres f I) (env : Env) (hdr : Hdr) : Pres I (updateMetadata f env hdr) := by
  unfold updateMetadata
  split
  · exact Pres.fail _
  · exact Pres.op (fun w hw => h.update w _ _ _ _ hw)

theorem chmod_pres (h : OpsPres f I) (env : Env) (name : Name) (mode : Int) : Pres I (chmod f env name mode) := by
  unfold chmod
  repeat (first | with_reducible exact statForUpdate_pres h _ | with_reducible exact updateMetadata_pres h env _ | pres_step)

theorem chown_pres (h : OpsPres f I) (env : Env) (name : Name) (uid gid : Int) : Pres I (chown f env name uid gid) := by
  unfold chown
  repeat (first | with_reducible exact statForUpdate_pres h _ | with_reducible exact updateMetadata_pres h env _ | pres_step)

theorem chtimes_pres (h : OpsPres f I) (env : Env) (name : Name) (a m : Int) : Pres I (chtimes f env name a m) := by
  unfold chtimes
  repeat (first | with_reducible exact statForUpdate_pres h _ | with_reducible exact updateMetadata_pres h env _ | pres_step)

theorem lstatNoLock_pres (h : OpsPres f I) (name : Name) : Pres I (lstatNoLock name) := by
  unfold lstatNoLock
  repeat (first | with_reducible exact stat_pres h _ _ | pres_step)

theorem lstat_pres (h : OpsPres f I) (name : Name) : Pres I (lstat name) := by
  unfold lstat
  repeat (first | with_reducible exact lstatNoLock_pres h _ | pres_step)

theorem readlink_pres (h : OpsPres f I) (name : Name) : Pres I (readlink name) := by
  unfold readlink
  repeat (first | with_reducible exact lstatNoLock_pres h _ | pres_step)

theorem resolveCleanName_pres (h : OpsPres f I) (name : Name) : Pres I (resolveCleanName name) := by
  have hs := h.stable
  unfold resolveCleanName
  repeat pres_step

theorem symlink_pres (h : OpsPres f I) (env : Env) (a b : Name) : Pres I (symlink f env a b) := by
  unfold symlink
  repeat (first
    | with_reducible exact stat_pres h _ _ | with_reducible exact resolveCleanName_pres h _ | with_reducible exact mknod_pres h env _ _ _ _ _ _
    | pres_step)

theorem openFile_pres (h : OpsPres f I) (env : Env) (name : Name) (flag : Nat) (perm : Int) :
    Pres I (openFile f env name flag perm) := by
  unfold openFile
  repeat (first
    | with_reducible exact stat_pres h _ _ | with_reducible exact mknod_pres h env _ _ _ _ _ _
    | pres_step)

theorem create_pres (h : OpsPres f I) (env : Env) (name : Name) : Pres I (create f env name) := by
  unfold create
  repeat (first | with_reducible exact stat_pres h _ _ | with_reducible exact openFile_pres h env _ _ _ | pres_step)

theorem fsOpen_pres (h : OpsPres f I) (env : Env) (name : Name) : Pres I (fsOpen f env name) :=
  openFile_pres h env _ _ _

/-! handle methods -/

theorem restoreContent_pres (h : OpsPres f I) (path : Name) : Pres I (restoreContent f path) := by
  have hs := h.stable
  unfold restoreContent
  repeat pres_step

theorem enterWriteMode_pres (h : OpsPres f I) (hd : Handle) : Pres I (enterWriteMode f hd) := by
  unfold enterWriteMode
  repeat (first | with_reducible exact stat_pres h _ _ | with_reducible exact restoreContent_pres h _ | pres_step)

theorem hWrite_pres (h : OpsPres f I) (hd : Handle) (p : Bytes) : Pres I (hWrite f hd p) := by
  unfold hWrite
  repeat (first | with_reducible exact enterWriteMode_pres h _ | pres_step)

theorem hSyncNoLock_pres (h : OpsPres f I) (env : Env) (hd : Handle) : Pres I (hSyncNoLock f env hd) := by
  unfold hSyncNoLock
  repeat (first
    | with_reducible exact Pres.op (fun w hw => h.update w _ _ _ _ hw)
    | with_reducible exact Pres.wedge h.stuck _
    | pres_step)

theorem hClose_pres (h : OpsPres f I) (env : Env) (hd : Handle) : Pres I (hClose f env hd) := by
  unfold hClose
  repeat (first | with_reducible exact hSyncNoLock_pres h env _ | pres_step)

theorem hReaddir_pres (h : OpsPres f I) (hd : Handle) (n : Int) : Pres I (hReaddir hd n) := by
  unfold hReaddir
  repeat (first | with_reducible exact list_pres h _ _ | pres_step)

theorem cat_pres (h : OpsPres f I) (env : Env) (name : Name) : Pres I (cat f env name) := by
  unfold cat
  repeat (first | with_reducible exact fsOpen_pres h env _ | with_reducible exact restoreContent_pres h _ | pres_step)

end Stfs
