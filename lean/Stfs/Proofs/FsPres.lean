/-
  Every method of the filesystem model preserves every invariant `I` that (a) does not look
  at the persister's cached root, and (b) is preserved by the four write operations and by
  the rebuild inside `Initialize`.  This is the lemma through which C04, C05 and C15 lift
  facts about `pkg/operations` to every exported method of `*STFS` and of a handle.
-/
import Stfs.Proofs.Monad
namespace Stfs

structure OpsPres (f : FsCfg) (I : World → Prop) : Prop where
  stable : RowStable I
  archive : ∀ w srcs ov init env, I w → I (archive f.c w srcs ov init env).1
  update : ∀ w srcs r s env, I w → I (update f.c w srcs r s env).1
  delete : ∀ w n env, I w → I (delete f.c w n env).1
  move : ∀ w a b env, I w → I (move f.c w a b env).1
  rebuild : ∀ w, I w → I (rebuildOp f w).1
  stuck : ∀ w, I w → I { w with stuck := true }
  unstuck : ∀ w, I w → I { w with stuck := false }

variable {f : FsCfg} {I : World → Prop}

/-! read-only programs need only `RowStable I` -/

theorem stat_ro (hs : RowStable I) (name : Name) (symlink : Bool) : Pres I (stat name symlink) := by
  unfold stat
  repeat pres_step

theorem list_ro (hs : RowStable I) (name : Name) (limit : Int) : Pres I (list name limit) := by
  unfold list
  repeat pres_step

theorem statOrLink_ro (hs : RowStable I) (name : Name) : Pres I (statOrLink name) := by
  unfold statOrLink
  repeat (first | with_reducible exact stat_ro hs _ _ | pres_step)

theorem statForUpdate_ro (hs : RowStable I) (name : Name) : Pres I (statForUpdate name) := by
  unfold statForUpdate
  repeat (first | with_reducible exact stat_ro hs _ _ | pres_step)

theorem resolveCleanName_ro (hs : RowStable I) (name : Name) : Pres I (resolveCleanName name) := by
  unfold resolveCleanName
  repeat pres_step

theorem mkdirGuard_ro (hs : RowStable I) (f : FsCfg) (name : Name) : Pres I (mkdirGuard f name) := by
  unfold mkdirGuard
  repeat (first | with_reducible exact stat_ro hs _ _ | pres_step)

theorem removeGuard_ro (hs : RowStable I) (f : FsCfg) (name : Name) : Pres I (removeGuard f name) := by
  unfold removeGuard
  repeat (first | with_reducible exact stat_ro hs _ _ | with_reducible exact list_ro hs _ _ | pres_step)

theorem renameGuard_ro (hs : RowStable I) (f : FsCfg) (a b : Name) : Pres I (renameGuard f a b) := by
  unfold renameGuard
  repeat (first | with_reducible exact stat_ro hs _ _ | pres_step)

theorem attrGuard_ro (hs : RowStable I) (f : FsCfg) (name : Name) : Pres I (attrGuard f name) := by
  unfold attrGuard
  repeat (first | with_reducible exact statForUpdate_ro hs _ | pres_step)

theorem symlinkGuard_ro (hs : RowStable I) (f : FsCfg) (a b : Name) : Pres I (symlinkGuard f a b) := by
  unfold symlinkGuard
  repeat (first | with_reducible exact stat_ro hs _ _ | with_reducible exact resolveCleanName_ro hs _ | pres_step)

theorem lstatNoLock_ro (hs : RowStable I) (name : Name) : Pres I (lstatNoLock name) := by
  unfold lstatNoLock
  repeat (first | with_reducible exact stat_ro hs _ _ | pres_step)

theorem lstat_ro (hs : RowStable I) (name : Name) : Pres I (lstat name) := by
  unfold lstat
  repeat (first | with_reducible exact lstatNoLock_ro hs _ | pres_step)

theorem readlink_ro (hs : RowStable I) (name : Name) : Pres I (readlink name) := by
  unfold readlink
  repeat (first | with_reducible exact lstatNoLock_ro hs _ | pres_step)

theorem hReaddir_ro (hs : RowStable I) (hd : Handle) (n : Int) : Pres I (hReaddir hd n) := by
  unfold hReaddir
  repeat (first | with_reducible exact list_ro hs _ _ | pres_step)

theorem startReader_ro (hs : RowStable I) (hst : ∀ w, I w → I { w with stuck := true }) (f : FsCfg) (hd : Handle) :
    Pres I (startReader f hd) := by
  unfold startReader restoreContent fetchedHeader
  repeat (first | with_reducible exact Pres.wedge hst _ | pres_step)

theorem hRead_ro (hs : RowStable I) (hst : ∀ w, I w → I { w with stuck := true }) (f : FsCfg) (hd : Handle) (n : Nat) :
    Pres I (hRead f hd n) := by
  unfold hRead
  repeat (first | with_reducible exact startReader_ro hs hst f _ | pres_step)

theorem seekStart_ro (hs : RowStable I) (hst : ∀ w, I w → I { w with stuck := true }) (f : FsCfg) (hd : Handle) (lazyOk : Bool) :
    Pres I (seekStart f hd lazyOk) := by
  unfold seekStart
  repeat (first | with_reducible exact startReader_ro hs hst f _ | pres_step)

theorem hSeekNoLock_ro (hs : RowStable I) (hst : ∀ w, I w → I { w with stuck := true }) (f : FsCfg) (hd : Handle) (o w : Int) :
    Pres I (hSeekNoLock f hd o w) := by
  unfold hSeekNoLock
  repeat (first | with_reducible exact seekStart_ro hs hst f _ _ | with_reducible exact startReader_ro hs hst f _ | pres_step)

theorem hReadAt_ro (hs : RowStable I) (hst : ∀ w, I w → I { w with stuck := true }) (f : FsCfg) (hd : Handle) (n : Nat) (o : Int) :
    Pres I (hReadAt f hd n o) := by
  unfold hReadAt
  repeat (first | with_reducible exact hSeekNoLock_ro hs hst f _ _ _ | with_reducible exact hRead_ro hs hst f _ _ | pres_step)

theorem stat_pres (h : OpsPres f I) (name : Name) (symlink : Bool) : Pres I (stat name symlink) := stat_ro h.stable _ _

theorem list_pres (h : OpsPres f I) (name : Name) (limit : Int) : Pres I (list name limit) := list_ro h.stable _ _

theorem mknod_pres (h : OpsPres f I) (env : Env) (isDir : Bool) (name : Name) (perm : Int) (ov : Bool)
    (l : Name) (init : Bool) : Pres I (mknod f env isDir name perm ov l init) := by
  unfold mknod
  split
  · exact Pres.fail _
  · exact Pres.op (fun w hw => h.archive w _ _ _ _ hw)

theorem mkdirRoot_pres (h : OpsPres f I) (env : Env) (root : Name) (perm : Int) : Pres I (mkdirRoot f env root perm) := by
  have hs := h.stable
  unfold mkdirRoot
  repeat (first | with_reducible exact mknod_pres h env _ _ _ _ _ _ | pres_step)

theorem initFs_pres (h : OpsPres f I) (env : Env) (root : Name) (perm : Int) : Pres I (initFs f env root perm) := by
  constructor
  intro w hw
  have hs := h.stable
  unfold initFs
  have hq : I { w with idx := (w.idx.getRootPath).1 } := hs w _ (Idx.getRootPath_rows w.idx) hw
  rcases hg : w.idx.getRootPath with ⟨q, res⟩
  rw [hg] at hq
  simp only at hq
  cases res with
  | ok r => exact hq
  | error e =>
    cases e <;> try exact hq
    simp only
    split
    · exact hq
    · split
      · exact (mkdirRoot_pres h env root perm).run _ hq
      · have hr := h.rebuild _ hq
        rcases hrb : rebuildOp f { tape := w.tape, idx := q, stuck := w.stuck } with ⟨w2, e2⟩
        rw [hrb] at hr
        cases e2 with
        | none => exact hs w2 _ (Idx.getRootPath_rows w2.idx) hr
        | some e => exact (mkdirRoot_pres h env root perm).run _ hr

theorem mkdir_pres (h : OpsPres f I) (env : Env) (name : Name) (perm : Int) : Pres I (mkdir f env name perm) :=
  Pres.bind (mkdirGuard_ro h.stable f name) (fun _ => mknod_pres h env _ _ _ _ _ _)

theorem mkdirAllStep_pres (h : OpsPres f I) (env : Env) (perm : Int) (p : Name) :
    Pres I (mkdirAllStep f env perm p) := by
  have hs := h.stable
  unfold mkdirAllStep
  repeat (first | with_reducible exact stat_pres h _ _ | with_reducible exact mknod_pres h env _ _ _ _ _ _ | pres_step)

theorem mkdirAllLoop_pres (h : OpsPres f I) (env : Env) (perm : Int) (cur : Name) (parts : List Name) :
    Pres I (mkdirAllLoop f env perm cur parts) := by
  induction parts generalizing cur with
  | nil => exact Pres.pure _
  | cons p ps ih =>
    unfold mkdirAllLoop
    exact Pres.bind (mkdirAllStep_pres h env perm _) (fun _ => ih _)

theorem mkdirAll_pres (h : OpsPres f I) (env : Env) (path : Name) (perm : Int) : Pres I (mkdirAll f env path perm) := by
  unfold mkdirAll
  split
  · exact Pres.fail _
  · exact mkdirAllLoop_pres h env perm _ _

theorem removeNoLock_pres (h : OpsPres f I) (env : Env) (name : Name) : Pres I (removeNoLock f env name) :=
  Pres.bind (removeGuard_ro h.stable f name) (fun _ => Pres.op (fun w hw => h.delete w _ _ hw))

theorem remove_pres (h : OpsPres f I) (env : Env) (name : Name) : Pres I (remove f env name) := by
  unfold remove
  split
  · exact Pres.fail _
  · exact removeNoLock_pres h env _

theorem removeAll_pres (h : OpsPres f I) (env : Env) (name : Name) : Pres I (removeAll f env name) := by
  have hs := h.stable
  unfold removeAll
  repeat (first | with_reducible exact Pres.op (fun w hw => h.delete w _ _ hw) | pres_step)

theorem rename_pres (h : OpsPres f I) (env : Env) (a b : Name) : Pres I (rename f env a b) := by
  refine Pres.bind (renameGuard_ro h.stable f a b) (fun x => ?_)
  rcases x with ⟨o, n, te⟩
  show Pres I (if te then removeNoLock f env n else M.op (fun w => move f.c w o n env.recs))
  split
  · exact removeNoLock_pres h env n
  · exact Pres.op (fun w hw => h.move w _ _ _ hw)

theorem statOrLink_pres (h : OpsPres f I) (name : Name) : Pres I (statOrLink name) := statOrLink_ro h.stable _

theorem fsStat_pres (h : OpsPres f I) (name : Name) : Pres I (fsStat name) := statOrLink_pres h _

theorem statForUpdate_pres (h : OpsPres f I) (name : Name) : Pres I (statForUpdate name) := statForUpdate_ro h.stable _

theorem updateMetadata_pres (h : OpsPres f I) (env : Env) (hdr : Hdr) : Pres I (updateMetadata f env hdr) := by
  unfold updateMetadata
  split
  · exact Pres.fail _
  · exact Pres.op (fun w hw => h.update w _ _ _ _ hw)

theorem chmod_pres (h : OpsPres f I) (env : Env) (name : Name) (mode : Int) : Pres I (chmod f env name mode) :=
  Pres.bind (attrGuard_ro h.stable f name) (fun _ => updateMetadata_pres h env _)

theorem chown_pres (h : OpsPres f I) (env : Env) (name : Name) (uid gid : Int) : Pres I (chown f env name uid gid) :=
  Pres.bind (attrGuard_ro h.stable f name) (fun _ => updateMetadata_pres h env _)

theorem chtimes_pres (h : OpsPres f I) (env : Env) (name : Name) (a m : Int) : Pres I (chtimes f env name a m) :=
  Pres.bind (attrGuard_ro h.stable f name) (fun _ => updateMetadata_pres h env _)

theorem lstatNoLock_pres (h : OpsPres f I) (name : Name) : Pres I (lstatNoLock name) := by
  unfold lstatNoLock
  repeat (first | with_reducible exact stat_pres h _ _ | pres_step)

theorem lstat_pres (h : OpsPres f I) (name : Name) : Pres I (lstat name) := by
  unfold lstat
  repeat (first | with_reducible exact lstatNoLock_pres h _ | pres_step)

theorem readlink_pres (h : OpsPres f I) (name : Name) : Pres I (readlink name) := by
  unfold readlink
  repeat (first | with_reducible exact lstatNoLock_pres h _ | pres_step)

theorem symlink_pres (h : OpsPres f I) (env : Env) (a b : Name) : Pres I (symlink f env a b) := by
  refine Pres.bind (symlinkGuard_ro h.stable f a b) (fun x => ?_)
  rcases x with ⟨o, n⟩
  exact mknod_pres h env _ _ _ _ _ _

/-- `OpenFile` preserves whatever its probes and `mknodeWithoutLocking` preserve -/
theorem openFile_pres' (hs : RowStable I) (env : Env)
    (hm : ∀ a b c d e g, Pres I (mknod f env a b c d e g)) (name : Name) (flag : Nat) (perm : Int) :
    Pres I (openFile f env name flag perm) := by
  unfold openFile
  repeat (first
    | with_reducible exact stat_ro hs _ _ | with_reducible exact hm _ _ _ _ _ _
    | pres_step)

theorem openFile_pres (h : OpsPres f I) (env : Env) (name : Name) (flag : Nat) (perm : Int) :
    Pres I (openFile f env name flag perm) :=
  openFile_pres' h.stable env (fun _ _ _ _ _ _ => mknod_pres h env _ _ _ _ _ _) name flag perm

theorem create_pres (h : OpsPres f I) (env : Env) (name : Name) : Pres I (create f env name) := by
  unfold create
  repeat (first | with_reducible exact stat_pres h _ _ | with_reducible exact openFile_pres h env _ _ _ | pres_step)

theorem fsOpen_pres (h : OpsPres f I) (env : Env) (name : Name) : Pres I (fsOpen f env name) :=
  openFile_pres h env _ _ _

/-! handle methods -/

theorem restoreContent_ro (hs : RowStable I) (f : FsCfg) (path : Name) : Pres I (restoreContent f path) := by
  unfold restoreContent
  repeat pres_step

theorem restoreContent_pres (h : OpsPres f I) (path : Name) : Pres I (restoreContent f path) :=
  restoreContent_ro h.stable f path

theorem enterWriteMode_pres (h : OpsPres f I) (hd : Handle) : Pres I (enterWriteMode f hd) := by
  unfold enterWriteMode enterWriteModeCore
  repeat (first | with_reducible exact stat_pres h _ _ | with_reducible exact restoreContent_pres h _ | pres_step)

theorem hWrite_pres (h : OpsPres f I) (hd : Handle) (p : Bytes) : Pres I (hWrite f hd p) := by
  unfold hWrite
  repeat (first | with_reducible exact enterWriteMode_pres h _ | pres_step)

theorem hSyncNoLock_pres (h : OpsPres f I) (env : Env) (hd : Handle) : Pres I (hSyncNoLock f env hd) := by
  unfold hSyncNoLock
  repeat (first
    | with_reducible exact Pres.op (fun w hw => h.update w _ _ _ _ hw)
    | with_reducible exact Pres.wedge h.stuck _
    | pres_step)

theorem hClose_pres (h : OpsPres f I) (env : Env) (hd : Handle) : Pres I (hClose f env hd) := by
  unfold hClose hCloseCore
  repeat (first | with_reducible exact hSyncNoLock_pres h env _ | pres_step)

theorem hReaddir_pres (h : OpsPres f I) (hd : Handle) (n : Int) : Pres I (hReaddir hd n) := by
  unfold hReaddir
  repeat (first | with_reducible exact list_pres h _ _ | pres_step)

theorem fetchedHeader_ro (hs : RowStable I) (f : FsCfg) (path : Name) : Pres I (fetchedHeader f path) := by
  unfold fetchedHeader
  repeat pres_step

theorem cat_pres' (hs : RowStable I) (hst : ∀ w, I w → I { w with stuck := true }) (env : Env)
    (hm : ∀ a b c d e g, Pres I (mknod f env a b c d e g)) (name : Name) : Pres I (cat f env name) := by
  unfold cat
  repeat (first
    | exact (openFile_pres' hs env hm _ _ _ : Pres I (fsOpen f env _))
    | with_reducible exact restoreContent_ro hs f _
    | with_reducible exact fetchedHeader_ro hs f _
    | with_reducible exact Pres.wedge hst _
    | pres_step)

theorem cat_pres (h : OpsPres f I) (env : Env) (name : Name) : Pres I (cat f env name) :=
  cat_pres' h.stable h.stuck env (fun _ _ _ _ _ _ => mknod_pres h env _ _ _ _ _ _) name

end Stfs
