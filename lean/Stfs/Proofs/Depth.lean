/-
  Lemmas for C13: the `depth` column of `GetHeaderDirectChildren`
  (`length(replace(k, p, '')) - length(replace(replace(k, p, ''), '/', ''))`) and the
  `LIKE '%/'` test, on names of the form `prefix ++ t`.
-/
import Stfs.Proofs.Like
import Stfs.Proofs.Spelling
namespace Stfs

/-- `y` occurs nowhere in `t` -/
def noOcc (y : Name) : Name → Bool
  | [] => true
  | c :: cs => !hasPrefix (c :: cs) y && noOcc y cs

theorem sqlRemoveAux_noOcc (y : Name) (t : Name) (h : noOcc y t = true) : sqlRemoveAux y t 0 = t := by
  induction t with
  | nil => rfl
  | cons c cs ih =>
    simp only [noOcc, Bool.and_eq_true, Bool.not_eq_true'] at h
    simp only [sqlRemoveAux, h.1, Bool.false_eq_true, if_false, ih h.2]

theorem sqlRemoveAux_skip (y : Name) (u t : Name) : sqlRemoveAux y (u ++ t) u.length = sqlRemoveAux y t 0 := by
  induction u with
  | nil => rfl
  | cons a as ih => simpa [sqlRemoveAux] using ih

/-- `replace(prefix || t, prefix, '') = t` when the prefix does not occur again in `t` -/
theorem sqlRemove_prefix (y t : Name) (hy : y ≠ []) (h : noOcc y t = true) : sqlRemove (y ++ t) y = t := by
  unfold sqlRemove
  have e : (y == []) = false := by simpa using hy
  simp only [e, Bool.false_eq_true, if_false]
  cases y with
  | nil => exact absurd rfl hy
  | cons c ys =>
    have hp : hasPrefix ((c :: ys) ++ t) (c :: ys) = true := hasPrefix_append_self _ _
    simp only [List.cons_append] at hp ⊢
    simp only [sqlRemoveAux, hp, if_true, List.length_cons, Nat.add_sub_cancel]
    rw [sqlRemoveAux_skip, sqlRemoveAux_noOcc _ _ h]

theorem sqlDepth_prefix (y t : Name) (hy : y ≠ []) (h : noOcc y t = true) : sqlDepth (y ++ t) y = countSlash t := by
  unfold sqlDepth
  rw [sqlRemove_prefix y t hy h]

/-- a string without the first character of `y` does not contain `y` -/
theorem noOcc_of_not_mem (y t : Name) (c : Nat) (ys : Name) (hy : y = c :: ys) (h : c ∉ t) : noOcc y t = true := by
  induction t with
  | nil => rfl
  | cons a as ih =>
    have ha : a ≠ c := fun e => h (by rw [e]; exact List.mem_cons_self)
    have has : c ∉ as := fun m => h (List.mem_cons_of_mem _ m)
    have hb : (a == c) = false := by simpa using ha
    have := ih has
    rw [hy] at this
    simp [noOcc, hy, hasPrefix, hb, this]

/-- `x LIKE '%/'` is "x ends with a slash" -/
theorem like_ends_slash (n : Name) : like [percent, slash] n = (n.getLast? == some slash) := by
  have key : ∀ s : Name, like [slash] s = (s == [slash]) := by
    intro s
    cases s with
    | nil => simp [like, slash, percent]
    | cons a as =>
      have h1 : (slash == percent) = false := by decide
      have h2 : (slash == underscore) = false := by decide
      have hf : ∀ x : Nat, (asciiFold slash == asciiFold x) = (x == slash) := by
        intro x
        unfold asciiFold slash
        by_cases hx : x = 47
        · subst hx; decide
        · have : (x == 47) = false := by simpa using hx
          simp only [this]
          by_cases hu : 65 ≤ x ∧ x ≤ 90
          · have : (decide (65 ≤ x) && decide (x ≤ 90)) = true := by simp [hu.1, hu.2]
            simp only [this, if_true]
            have h47 : (47 : Nat) ≠ x + 32 := by omega
            simp only [decide_false, Bool.false_and, Bool.false_eq_true, if_false, beq_eq_false_iff_ne, ne_eq]
            exact h47
          · have : (decide (65 ≤ x) && decide (x ≤ 90)) = false := by
              simp only [Bool.and_eq_false_iff, decide_eq_false_iff_not]
              by_cases h1 : 65 ≤ x
              · right; intro h2; exact hu ⟨h1, h2⟩
              · left; exact h1
            simp only [this, Bool.false_eq_true, if_false]
            simp [Ne.symm hx]
      cases as with
      | nil => simp [like, h1, h2, hf]
      | cons b bs => simp [like, h1, h2, hf]
  have hp : (percent == percent) = true := by decide
  induction n with
  | nil => decide
  | cons a as ih =>
    have : like [percent, slash] (a :: as) = (like [slash] (a :: as) || like [percent, slash] as) := by
      simp only [like, hp, if_true, suffixes, List.any_cons]
    rw [this, ih, key]
    cases as with
    | nil => simp
    | cons b bs => simp [List.getLast?_cons_cons]

end Stfs
