/-
  The table's primary key: no two rows (tombstones included) share `(name, linkname)`.
  Preserved by every persister method that writes, hence by `indexHeader`.
-/
import Stfs.Proofs.RowsInv
namespace Stfs
open Gen

def SameKey (a b : Row) : Prop := a.name = b.name ∧ a.linkname = b.linkname

/-- primary-key uniqueness -/
def KeysUnique (rows : List Row) : Prop := rows.Pairwise (fun a b => ¬ SameKey a b)

namespace Idx

theorem setByKey_ku {rows : List Row} (new : Row) (h : KeysUnique rows) : KeysUnique (setByKey rows new) := by
  unfold setByKey KeysUnique
  rw [List.pairwise_map]
  refine h.imp ?_
  intro a b hab hs
  apply hab
  unfold SameKey at *
  by_cases ha : (a.name == new.name && a.linkname == new.linkname) = true
  · by_cases hb : (b.name == new.name && b.linkname == new.linkname) = true
    · simp only [Bool.and_eq_true, beq_iff_eq] at ha hb
      exact ⟨ha.1.trans hb.1.symm, ha.2.trans hb.2.symm⟩
    · simp only [ha, hb, if_true] at hs
      simp only [Bool.and_eq_true, beq_iff_eq] at ha hb
      exact absurd ⟨hs.1.symm, hs.2.symm⟩ hb
  · by_cases hb : (b.name == new.name && b.linkname == new.linkname) = true
    · simp only [ha, hb, if_true] at hs
      simp only [Bool.and_eq_true, beq_iff_eq] at ha hb
      exact absurd hs ha
    · simp only [Bool.not_eq_true] at ha hb
      simpa only [ha, hb, Bool.false_eq_true, if_false] using hs

theorem hasKey_false {rows : List Row} {n l : Name} (h : hasKey rows n l = false) :
    ∀ a ∈ rows, ¬ (a.name = n ∧ a.linkname = l) := by
  intro a ha hk
  unfold hasKey at h
  have : rows.any (fun r => r.name == n && r.linkname == l) = true :=
    List.any_eq_true.mpr ⟨a, ha, by simp [hk.1, hk.2]⟩
  rw [this] at h; cases h

theorem upsertHeader_ku (p : Idx) (r : Row) (init : Bool) (h : KeysUnique p.rows) :
    KeysUnique (p.upsertHeader r init).rows := by
  unfold upsertHeader
  have key : ∀ (q : Idx) (n : Name), q.rows = p.rows →
      KeysUnique (if hasKey q.rows n r.linkname = true
        then { q with rows := setByKey q.rows { r with hdr := { r.hdr with name := n } } }
        else { q with rows := q.rows ++ [{ r with hdr := { r.hdr with name := n } }] }).rows := by
    intro q n hq
    split
    · simp only; rw [hq]; exact setByKey_ku _ h
    · rename_i hk
      simp only; rw [hq]
      unfold KeysUnique
      rw [List.pairwise_append]
      refine ⟨h, List.pairwise_singleton _ _, ?_⟩
      intro a ha b hb hs
      simp only [List.mem_singleton] at hb
      subst hb
      have hk' : hasKey p.rows n r.linkname = false := by rw [← hq]; simpa using hk
      exact hasKey_false hk' a ha hs
  cases init with
  | true => simpa using key p r.name rfl
  | false => simpa using key (p.sanitize r.name).1 (p.sanitize r.name).2 (sanitize_rows p r.name)

theorem updateHeaderMetadata_ku (p : Idx) (r : Row) (h : KeysUnique p.rows) :
    KeysUnique (p.updateHeaderMetadata r).rows := by
  unfold updateHeaderMetadata
  simp only
  exact setByKey_ku _ (by rw [sanitize_rows]; exact h)

theorem deleteHeader_ku (p : Idx) (n : Name) (a b : Int) (h : KeysUnique p.rows) :
    KeysUnique (p.deleteHeader n a b).1.rows := by
  unfold deleteHeader
  simp only
  split
  · simp [sanitize_rows]; exact h
  · simp only
    exact setByKey_ku _ (by rw [sanitize_rows]; exact h)

theorem map_rename_ku {rows : List Row} (old new : Name) (a b : Int) (h : KeysUnique rows)
    (hc : (old != new && (rows.filter (fun r => r.name == old)).any (fun x => hasKey rows new x.linkname)) = false) :
    KeysUnique (rows.map (fun r =>
      if r.name == old then { r with hdr := { r.hdr with name := new }, lkRecd := a, lkBlk := b } else r)) := by
  unfold KeysUnique
  rw [List.pairwise_map]
  refine h.imp_of_mem ?_
  intro x y hx hy hxy hs
  apply hxy
  unfold SameKey at *
  by_cases hon : old = new
  · subst hon
    by_cases h1 : x.name = old <;> by_cases h2 : y.name = old <;>
      simp [h1, h2, Row.name, Row.linkname] at hs ⊢ <;> simp_all [Row.name, Row.linkname]
  · have hne : (old != new) = true := by simpa using hon
    rw [hne, Bool.true_and] at hc
    have hfree : ∀ z ∈ rows, z.name = old → ∀ w ∈ rows, ¬ (w.name = new ∧ w.linkname = z.linkname) := by
      intro z hz hzo
      apply hasKey_false
      cases hk : hasKey rows new z.linkname
      · rfl
      · have : (rows.filter (fun r => r.name == old)).any (fun x => hasKey rows new x.linkname) = true :=
          List.any_eq_true.mpr ⟨z, List.mem_filter.mpr ⟨hz, by simp [hzo]⟩, hk⟩
        rw [this] at hc; cases hc
    by_cases h1 : x.name = old
    · by_cases h2 : y.name = old
      · have e1 : (x.name == old) = true := by simp [h1]
        have e2 : (y.name == old) = true := by simp [h2]
        simp only [e1, e2, if_true] at hs
        exact ⟨h1.trans h2.symm, hs.2⟩
      · have e1 : (x.name == old) = true := by simp [h1]
        have e2 : (y.name == old) = false := by simp [h2]
        simp only [e1, e2, if_true, Bool.false_eq_true, if_false] at hs
        exact absurd ⟨hs.1.symm, hs.2.symm⟩ (hfree x hx h1 y hy)
    · by_cases h2 : y.name = old
      · have e1 : (x.name == old) = false := by simp [h1]
        have e2 : (y.name == old) = true := by simp [h2]
        simp only [e1, e2, if_true, Bool.false_eq_true, if_false] at hs
        exact absurd hs (hfree y hy h2 x hx)
      · have e1 : (x.name == old) = false := by simp [h1]
        have e2 : (y.name == old) = false := by simp [h2]
        simpa only [e1, e2, Bool.false_eq_true, if_false] using hs

theorem moveHeader_ku (p : Idx) (o n : Name) (a b : Int) (h : KeysUnique p.rows) :
    KeysUnique (p.moveHeader o n a b).1.rows := by
  unfold moveHeader
  simp only
  split
  · simp [sanitize_rows]; exact h
  · rename_i hc
    simp only [sanitize_rows] at hc ⊢
    exact map_rename_ku _ _ a b h (by simpa using hc)

end Idx
open Idx in
theorem applyRec_ku (c : Cfg) (p : Idx) (pos : Pos) (h : Hdr) (init : Bool)
    (hall : KeysUnique p.rows) : KeysUnique (applyRec c p pos h init).1.rows := by
  unfold applyRec
  split
  · exact hall
  · split
    · exact hall
    · rename_i h2 _
      simp only
      split
      · exact hall
      · split
        · exact upsertHeader_ku _ _ _ hall
        · split
          · have := deleteHeader_ku p h2.name pos.recd pos.blk hall
            split <;> rename_i heq <;> rw [heq] at this <;> exact this
          · split
            · -- UPDATE
              have step : ∀ q : Idx, KeysUnique q.rows → ∀ o : Name, KeysUnique
                  (if h2.pax.get recSTFSRecordReplacesContent == some recSTFSRecordReplacesContentTrue then
                    q.updateHeaderMetadata (Idx.mkRow h2 pos.recd pos.blk pos.recd pos.blk)
                  else
                    match q.getHeader o with
                    | (q', .ok old) => q'.updateHeaderMetadata (Idx.mkRow (if (h2.pax.get recSTFSRecordUncompressedSize).isNone then { h2 with size := old.hdr.size } else h2) old.recd old.blk pos.recd pos.blk)
                    | (q', .error _) => q').rows := by
                intro q hq o
                split
                · exact updateHeaderMetadata_ku _ _ hq
                · split
                  · rename_i q' old heq
                    have hq' : q'.rows = q.rows := by
                      have := getHeader_rows q o; rw [heq] at this; exact this
                    apply updateHeaderMetadata_ku
                    rw [hq']; exact hq
                  · rename_i q' e heq
                    have hq' : q'.rows = q.rows := by
                      have := getHeader_rows q o; rw [heq] at this; exact this
                    rw [hq']; exact hq
              split
              · rename_i o _
                simp only
                have := step p hall o
                generalize (if h2.pax.get recSTFSRecordReplacesContent == some recSTFSRecordReplacesContentTrue then
                    p.updateHeaderMetadata (Idx.mkRow h2 pos.recd pos.blk pos.recd pos.blk)
                  else
                    match p.getHeader o with
                    | (q', .ok old) => q'.updateHeaderMetadata (Idx.mkRow (if (h2.pax.get recSTFSRecordUncompressedSize).isNone then { h2 with size := old.hdr.size } else h2) old.recd old.blk pos.recd pos.blk)
                    | (q', .error _) => q') = q at this ⊢
                have hm := moveHeader_ku q o h2.name pos.recd pos.blk this
                simp only [if_true]
                generalize q.moveHeader o h2.name pos.recd pos.blk = x at hm ⊢
                rcases x with ⟨p', r⟩
                cases r <;> exact hm
              · simp only
                exact step p hall h2.name
            · exact hall

theorem rowsInv_keysUnique : RowsInv KeysUnique where
  nil := List.Pairwise.nil
  step := fun c p pos h init hq => applyRec_ku c p pos h init hq

theorem nameLt_nil_right (a : Name) : nameLt a [] = false := by cases a <;> rfl
theorem nameLt_nil_left {a : Name} (h : a ≠ []) : nameLt [] a = true := by
  cases a with
  | nil => exact absurd rfl h
  | cons _ _ => rfl

/-- in the `(name, linkname)`-ordered scan of the rows with one name, the row with the empty
    linkname comes first -/
theorem head_sorted_of_empty_link (L : List Row) (y : Row) (hy : y ∈ L) (hl : y.linkname = [])
    (hothers : ∀ x ∈ L, x ≠ y → x.linkname ≠ []) (hnd : L.Pairwise (· ≠ ·)) :
    (L.foldr Idx.insertByLink []).head? = some y := by
  induction L with
  | nil => cases hy
  | cons e L ih =>
    simp only [List.foldr_cons]
    rw [List.pairwise_cons] at hnd
    by_cases hey : e = y
    · subst hey
      cases hS : L.foldr Idx.insertByLink [] with
      | nil => simp [Idx.insertByLink]
      | cons x xs =>
        have hx : x ∈ L := by
          have : x ∈ L.foldr Idx.insertByLink [] := by rw [hS]; simp
          clear hS ih hothers hnd hy
          induction L with
          | nil => simp at this
          | cons z L ih2 =>
            simp only [List.foldr_cons, Idx.mem_insertByLink] at this
            rcases this with h | h
            · subst h; simp
            · exact List.mem_cons_of_mem _ (ih2 h)
        have hxl : x.linkname ≠ [] := hothers x (List.mem_cons_of_mem _ hx) (fun h => hnd.1 x hx h.symm)
        simp [Idx.insertByLink, hl, nameLt_nil_left hxl]
    · have hyL : y ∈ L := by
        rcases List.mem_cons.mp hy with h | h
        · exact absurd h.symm hey
        · exact h
      have := ih hyL (fun x hx => hothers x (List.mem_cons_of_mem _ hx)) hnd.2
      cases hS : L.foldr Idx.insertByLink [] with
      | nil => rw [hS] at this; simp at this
      | cons x xs =>
        rw [hS] at this
        simp only [List.head?_cons, Option.some.injEq] at this
        subst this
        simp [Idx.insertByLink, hl, nameLt_nil_right]

theorem keysUnique_forall {rows : List Row} (h : KeysUnique rows) :
    ∀ x ∈ rows, ∀ y ∈ rows, x ≠ y → ¬ SameKey x y := by
  have h1 : rows.Pairwise (fun a b => a ≠ b → ¬ SameKey a b) := h.imp (fun {a b} (hab : ¬ SameKey a b) (_ : a ≠ b) => hab)
  have h2 : rows.Pairwise (flip (fun a b => a ≠ b → ¬ SameKey a b)) :=
    h.imp (fun {a b} (hab : ¬ SameKey a b) (_ : b ≠ a) (hs : SameKey b a) => hab ⟨hs.1.symm, hs.2.symm⟩)
  exact List.Pairwise.forall_of_forall_of_flip (fun x _ hx => absurd rfl hx) h1 h2

end Stfs
