/-
  Lemmas for C17: `path.Clean` on plain component lists, and `getSanitizedPath` on the three
  spellings '/p', 'p', './p' of a path.
-/
import Stfs.Model.Index
namespace Stfs

/-- a plain path component: non-empty, not `.` or `..`, no slash inside -/
def PlainComp (c : Name) : Prop := c ≠ [] ∧ c ≠ [dotc] ∧ c ≠ dotdot ∧ slash ∉ c

/-- a list of plain components (a path a client would write, e.g. `d/f`) -/
def Plain (cs : List Name) : Prop := ∀ c ∈ cs, PlainComp c

theorem splitOnAux_append (sep : Nat) (c rest cur : Name) (h : sep ∉ c) :
    splitOnAux sep (c ++ rest) cur = splitOnAux sep rest (c.reverse ++ cur) := by
  induction c generalizing cur with
  | nil => rfl
  | cons x xs ih =>
    have hx : (x == sep) = false := by
      have : x ≠ sep := fun e => h (by rw [e]; exact List.mem_cons_self)
      simpa using this
    have hxs : sep ∉ xs := fun m => h (List.mem_cons_of_mem _ m)
    simp only [List.cons_append, splitOnAux, hx, Bool.false_eq_true, if_false]
    rw [ih _ hxs]
    simp [List.reverse_cons, List.append_assoc]

theorem splitOn_joinWith (sep : Nat) (cs : List Name) (hne : cs ≠ []) (h : ∀ c ∈ cs, sep ∉ c) :
    splitOn sep (joinWith sep cs) = cs := by
  induction cs with
  | nil => exact absurd rfl hne
  | cons x xs ih =>
    cases xs with
    | nil =>
      have := splitOnAux_append sep x [] [] (h x List.mem_cons_self)
      simp only [List.append_nil] at this
      simp only [splitOn, joinWith, this, splitOnAux, List.reverse_reverse]
    | cons y ys =>
      have hx := splitOnAux_append sep x (sep :: joinWith sep (y :: ys)) [] (h x List.mem_cons_self)
      have ih' := ih (by simp) (fun c hc => h c (List.mem_cons_of_mem _ hc))
      simp only [splitOn] at ih' ⊢
      simp only [joinWith]
      rw [hx]
      simp only [List.append_nil, splitOnAux, beq_self_eq_true, if_true, List.reverse_reverse]
      rw [ih']

theorem foldl_cleanStep_plain (r : Bool) (cs : List Name) (st : List Name) (h : Plain cs) :
    cs.foldl (cleanStep r) st = cs.reverse ++ st := by
  induction cs generalizing st with
  | nil => rfl
  | cons c rest ih =>
    obtain ⟨h1, h2, h3, _⟩ := h c List.mem_cons_self
    have e : cleanStep r st c = c :: st := by
      unfold cleanStep
      have a : (c == []) = false := by simpa using h1
      have b : (c == [dotc]) = false := by simpa using h2
      have d : (c == dotdot) = false := by simpa using h3
      simp [a, b, d]
    simp only [List.foldl_cons, e]
    rw [ih _ (fun c hc => h c (List.mem_cons_of_mem _ hc))]
    simp [List.reverse_cons, List.append_assoc]

theorem joinWith_ne_nil (cs : List Name) (hne : cs ≠ []) (h : Plain cs) : joinWith slash cs ≠ [] := by
  cases cs with
  | nil => exact absurd rfl hne
  | cons x xs =>
    have hx := (h x List.mem_cons_self).1
    cases xs with
    | nil => simpa [joinWith] using hx
    | cons y ys => simp [joinWith, hx]

theorem joinWith_head (cs : List Name) (hne : cs ≠ []) (h : Plain cs) :
    ((joinWith slash cs).head? == some slash) = false := by
  cases cs with
  | nil => exact absurd rfl hne
  | cons x xs =>
    obtain ⟨hx, _, _, hs⟩ := h x List.mem_cons_self
    cases x with
    | nil => exact absurd rfl hx
    | cons a as =>
      have ha : a ≠ slash := fun e => hs (by rw [e]; exact List.mem_cons_self)
      cases xs with
      | nil => simpa [joinWith] using ha
      | cons y ys => simpa [joinWith] using ha

theorem plain_noslash (cs : List Name) (h : Plain cs) : ∀ c ∈ cs, slash ∉ c := fun c hc => (h c hc).2.2.2

/-- `path.Clean` leaves a plain relative path alone -/
theorem clean_plain (cs : List Name) (hne : cs ≠ []) (h : Plain cs) :
    clean (joinWith slash cs) = joinWith slash cs := by
  have h0 := joinWith_ne_nil cs hne h
  have hh := joinWith_head cs hne h
  unfold clean
  have e0 : (joinWith slash cs == []) = false := by simpa using h0
  simp only [e0, Bool.false_eq_true, if_false, hh]
  rw [splitOn_joinWith slash cs hne (plain_noslash cs h), foldl_cleanStep_plain false cs [] h]
  simp only [List.append_nil, List.reverse_reverse, e0, Bool.false_eq_true, if_false]

/-- … and the same path written with a leading slash -/
theorem clean_abs_plain (cs : List Name) (hne : cs ≠ []) (h : Plain cs) :
    clean (slash :: joinWith slash cs) = slash :: joinWith slash cs := by
  unfold clean
  have hs : splitOn slash (slash :: joinWith slash cs) = [] :: cs := by
    have := splitOn_joinWith slash ([] :: cs) (by simp) (by
      intro c hc
      cases hc with
      | head => simp
      | tail _ hc => exact plain_noslash cs h c hc)
    cases cs with
    | nil => exact absurd rfl hne
    | cons x xs => simpa [joinWith] using this
  simp only [hs, List.foldl_cons]
  have e : cleanStep true [] [] = [] := by simp [cleanStep]
  have r : ((slash :: joinWith slash cs).head? == some slash) = true := by simp
  have ne : ((slash :: joinWith slash cs) == []) = false := by simp
  simp only [ne, Bool.false_eq_true, if_false, r, e, if_true]
  rw [foldl_cleanStep_plain true cs [] h]
  simp

/-- … and written with a leading `./` -/
theorem clean_dot_plain (cs : List Name) (hne : cs ≠ []) (h : Plain cs) :
    clean (dotc :: slash :: joinWith slash cs) = joinWith slash cs := by
  unfold clean
  have hs : splitOn slash (dotc :: slash :: joinWith slash cs) = [dotc] :: cs := by
    have := splitOn_joinWith slash ([dotc] :: cs) (by simp) (by
      intro c hc
      cases hc with
      | head => decide
      | tail _ hc => exact plain_noslash cs h c hc)
    cases cs with
    | nil => exact absurd rfl hne
    | cons x xs => simpa [joinWith] using this
  have h0 := joinWith_ne_nil cs hne h
  have e0 : (joinWith slash cs == []) = false := by simpa using h0
  simp only [hs, List.foldl_cons]
  have e : cleanStep false [] [dotc] = [] := by simp [cleanStep]
  have r : ((dotc :: slash :: joinWith slash cs).head? == some slash) = false := by
    simp only [List.head?_cons]; decide
  have ne : ((dotc :: slash :: joinWith slash cs) == []) = false := by simp
  simp only [ne, Bool.false_eq_true, if_false, r, e]
  rw [foldl_cleanStep_plain false cs [] h]
  simp only [List.append_nil, List.reverse_reverse, e0, Bool.false_eq_true, if_false]

/-- a plain relative path is not one of the spellings of the root -/
theorem plain_not_root (cs : List Name) (hne : cs ≠ []) (h : Plain cs) :
    isRoot (joinWith slash cs) false = false := by
  have key : ∀ lit : Name, joinWith slash cs = lit → splitOn slash lit = cs := by
    intro lit e; rw [← e]; exact splitOn_joinWith slash cs hne (plain_noslash cs h)
  have n1 : joinWith slash cs ≠ [] := joinWith_ne_nil cs hne h
  have n2 : joinWith slash cs ≠ [dotc] := by
    intro e
    have := key _ e
    have hc : splitOn slash [dotc] = [[dotc]] := by decide
    rw [hc] at this
    exact (h [dotc] (by rw [← this]; exact List.mem_cons_self)).2.1 rfl
  have n3 : joinWith slash cs ≠ [slash] := by
    intro e
    have := key _ e
    have hc : splitOn slash [slash] = [[], []] := by decide
    rw [hc] at this
    exact (h [] (by rw [← this]; exact List.mem_cons_self)).1 rfl
  have n4 : joinWith slash cs ≠ [dotc, slash] := by
    intro e
    have := key _ e
    have hc : splitOn slash [dotc, slash] = [[dotc], []] := by decide
    rw [hc] at this
    exact (h [dotc] (by rw [← this]; exact List.mem_cons_self)).2.1 rfl
  simp [isRoot, n1, n2, n3, n4]

theorem pjoin_empty_plain (cs : List Name) (hne : cs ≠ []) (h : Plain cs) :
    pjoin [[], joinWith slash cs] = joinWith slash cs := by
  have h0 := joinWith_ne_nil cs hne h
  have e0 : (joinWith slash cs == []) = false := by simpa using h0
  have e1 : (joinWith slash cs != []) = true := by simp [bne, e0]
  unfold pjoin
  simp only [List.all_cons, List.all_nil, beq_self_eq_true, Bool.true_and, Bool.and_true, e0, Bool.false_eq_true, if_false]
  have : joinBuf [] [[], joinWith slash cs] = joinWith slash cs := by
    simp [joinBuf, e1]
  rw [this, clean_plain cs hne h]

end Stfs

namespace Stfs

/-- components that are plain or empty (an empty one is what `//` produces) -/
def Semi (cs : List Name) : Prop := ∀ c ∈ cs, c = [] ∨ PlainComp c

theorem foldl_cleanStep_semi (r : Bool) (cs : List Name) (st : List Name) (h : Semi cs) :
    cs.foldl (cleanStep r) st = (cs.filter (fun c => c != [])).reverse ++ st := by
  induction cs generalizing st with
  | nil => rfl
  | cons c rest ih =>
    have hrest : Semi rest := fun c hc => h c (List.mem_cons_of_mem _ hc)
    rcases h c List.mem_cons_self with rfl | hp
    · have e : cleanStep r st [] = st := by simp [cleanStep]
      simp only [List.foldl_cons, e, ih st hrest]
      simp
    · obtain ⟨h1, h2, h3, _⟩ := hp
      have e : cleanStep r st c = c :: st := by
        unfold cleanStep
        have a : (c == []) = false := by simpa using h1
        have b : (c == [dotc]) = false := by simpa using h2
        have d : (c == dotdot) = false := by simpa using h3
        simp [a, b, d]
      have ne : (c != []) = true := by simp [bne, h1]
      simp only [List.foldl_cons, e, ih _ hrest, List.filter_cons, ne, if_true]
      simp [List.reverse_cons, List.append_assoc]

theorem semi_noslash (cs : List Name) (h : Semi cs) : ∀ c ∈ cs, slash ∉ c := by
  intro c hc
  rcases h c hc with rfl | hp
  · simp
  · exact hp.2.2.2

/-- `path.Clean` on an absolute path whose components are plain or empty: the empty ones go -/
theorem clean_abs_semi (cs : List Name) (hne : cs ≠ []) (h : Semi cs) :
    clean (slash :: joinWith slash cs) = slash :: joinWith slash (cs.filter (fun c => c != [])) := by
  unfold clean
  have hs : splitOn slash (slash :: joinWith slash cs) = [] :: cs := by
    have := splitOn_joinWith slash ([] :: cs) (by simp) (by
      intro c hc
      cases hc with
      | head => simp
      | tail _ hc => exact semi_noslash cs h c hc)
    cases cs with
    | nil => exact absurd rfl hne
    | cons x xs => simpa [joinWith] using this
  have e : cleanStep true [] [] = [] := by simp [cleanStep]
  have r : ((slash :: joinWith slash cs).head? == some slash) = true := by simp
  have ne : ((slash :: joinWith slash cs) == []) = false := by simp
  simp only [hs, List.foldl_cons, ne, Bool.false_eq_true, if_false, r, e, if_true]
  rw [foldl_cleanStep_semi true cs [] h]
  simp

theorem joinWith_append (sep : Nat) (a b : List Name) (ha : a ≠ []) (hb : b ≠ []) :
    joinWith sep (a ++ b) = joinWith sep a ++ sep :: joinWith sep b := by
  induction a with
  | nil => exact absurd rfl ha
  | cons x xs ih =>
    cases xs with
    | nil =>
      cases b with
      | nil => exact absurd rfl hb
      | cons y ys => simp [joinWith]
    | cons y ys =>
      have := ih (by simp)
      simp only [List.cons_append] at this ⊢
      simp only [joinWith, this, List.append_assoc, List.cons_append]

theorem hasPrefix_append_self (s t : Name) : hasPrefix (s ++ t) s = true := by
  induction s with
  | nil => cases t <;> rfl
  | cons a as ih => simp [hasPrefix, ih]

theorem trimPrefix_append (s t : Name) : trimPrefix (s ++ t) s = t := by
  simp [trimPrefix, hasPrefix_append_self]

end Stfs
