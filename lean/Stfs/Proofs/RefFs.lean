/-
  Lemmas about the reference filesystem's finite map (`Spec/RefFs.lean`): what `get` sees after
  `set` and `erase`.  Used by the reference-level theorems of `Props/C02.lean`.
-/
import Stfs.Spec.RefFs
namespace Stfs.RefFs
open Stfs

theorem find_map_replace (es : List (Name × Node)) (p q : Name) (n : Node) :
    ((es.map (fun e => if e.1 == p then (p, n) else e)).find? (·.1 == q)).map (·.2) =
      if q = p then (if es.any (·.1 == p) then some n else none) else (es.find? (·.1 == q)).map (·.2) := by
  induction es with
  | nil => by_cases h : q = p <;> simp [h]
  | cons e es ih =>
    rw [List.map_cons, List.find?_cons, List.find?_cons, List.any_cons]
    by_cases hep : e.1 = p
    · have h1 : (e.1 == p) = true := by simp [hep]
      rw [h1]; simp only [if_true, Bool.true_or]
      by_cases hq : q = p
      · subst hq; simp
      · have h2 : (p == q) = false := by simp; exact fun h => hq h.symm
        have h3 : (e.1 == q) = false := by rw [hep]; exact h2
        rw [h2, h3]; simp only [ih, if_neg hq]
    · have h1 : (e.1 == p) = false := by simp [hep]
      rw [h1]; simp only [Bool.false_or, Bool.false_eq_true, if_false]
      by_cases hq : q = p
      · subst hq; rw [h1]; simp only [ih, if_true]
      · cases h3 : (e.1 == q)
        · simp only [ih, if_neg hq]
        · simp [hq]

theorem get_set (s : State) (p q : Name) (n : Node) :
    (s.set p n).get q = if q = p then some n else s.get q := by
  unfold State.set
  by_cases ha : s.entries.any (·.1 == p) = true
  · rw [if_pos ha]; unfold State.get; simp only
    rw [find_map_replace]; simp [ha]
  · rw [if_neg ha]; unfold State.get; simp only [List.find?_append]
    by_cases hq : q = p
    · subst hq
      have : s.entries.find? (·.1 == q) = none := by
        simp only [List.find?_eq_none]; intro x hx hx'
        exact ha (List.any_eq_true.mpr ⟨x, hx, hx'⟩)
      simp [this]
    · have : ¬ p = q := fun h => hq h.symm
      cases h : s.entries.find? (·.1 == q) <;> simp [hq, this]

theorem get_erase (s : State) (p q : Name) :
    (s.erase p).get q = if q = p then none else s.get q := by
  unfold State.erase State.get
  cases s with | mk es =>
  simp only
  induction es with
  | nil => by_cases h : q = p <;> simp [h]
  | cons e es ih =>
    rw [List.filter_cons]
    by_cases hep : e.1 = p
    · have h1 : (e.1 != p) = false := by simp [hep]
      rw [h1]; simp only [Bool.false_eq_true, if_false, ih, List.find?_cons]
      by_cases hq : q = p
      · simp [hq]
      · have h3 : (e.1 == q) = false := by rw [hep]; simp; exact fun h => hq h.symm
        rw [h3]
    · have h1 : (e.1 != p) = true := by simp [hep]
      rw [h1]; simp only [if_true, List.find?_cons]
      cases h3 : (e.1 == q)
      · simp only [ih]
      · have : e.1 = q := by simpa using h3
        have hq : ¬ q = p := by rw [← this]; exact hep
        simp [hq]

end Stfs.RefFs
