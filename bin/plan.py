"""Per-property plan: which correspondence streams/oracles run at which tier, and what each
check trusts.  Imported by bin/check."""

ALLOWED_AXIOMS = {"propext", "Classical.choice", "Quot.sound"}

BASE_TRUST = [
    "Lean 4.33.0 kernel; axioms allowed in property theorems: propext, Classical.choice, Quot.sound (audited per theorem with #print axioms on every run)",
    "translator /verif/go/cmd/extract (go/ast): that the generated Lean terms mean what the Go statements mean",
    "correspondence harness /verif/go (canonicalisation, independent tape scanner, row dumper, generators)",
]

BASE_ASSUME = [
    "archive/tar reader/writer contract (R1-R4 of DESIGN.md 4.3): validated by the correspondence on real bytes, not proved",
    "SQLite semantics of the queries in pkg/persisters/metadata.go (LIKE, replace, length, min(), LIMIT 1 order): modelled in Lean, validated against the real engine by the correspondence",
    "in-memory headers substituted by the write operations equal the headers parsed back from the tape on every field the indexer reads",
    "Nat/Int arithmetic is unbounded in the model; math.Ceil(float64(x)/512) is exact for x < 2^53",
]


def fs(n, length, oracles, wild=False, rs="20,1,3,7", timeout=1500, extra=None, mode="plain"):
    a = ["-n", str(n), "-len", str(length), "-workers", "16", "-oracles", oracles, "-rs", rs, "-mode", mode]
    if wild:
        a.append("-wild")
    if extra:
        a += extra
    return {"stream": "fs", "args": a, "timeout": timeout}


PIPES_QUICK = "gzip++;+age+;++minisign;zstandard+age+minisign;lz4+pgp+pgp;brotli+age+;bzip2++pgp;parallelgzip+pgp+minisign"
PIPES_ALL = ";".join("%s+%s+%s" % (c, e, s) for c in ["", "gzip", "parallelgzip", "lz4", "zstandard", "brotli", "bzip2", "parallelbzip2"] for e in ["", "age", "pgp"] for s in ["", "minisign", "pgp"])


def fsp(n, length, oracles, pipes=PIPES_QUICK, **kw):
    d = fs(n, length, oracles, **kw)
    d["args"] += ["-pipes", pipes, "-keys", "/verif/work/keys"]
    return d


PLAN = {
    "C04": {
        "streams": {
            "quick": [fs(160, 14, "C04"), fs(80, 14, "C04", wild=True), fsp(64, 12, "C04", rs="20,3")],
            "thorough": [fs(3000, 18, "C04", rs="20,1,2,3,7,64", timeout=5000), fs(1500, 18, "C04", wild=True, rs="20,1,2,3,7,64", timeout=5000)],
        },
        "generated": ["Stfs/Gen/Fingerprints.lean (source fingerprints of the functions the hand-written model mirrors)", "Stfs/Gen/PosArith.lean (pkg/recovery/index.go, query.go, fetch.go)", "Stfs/Gen/Consts.lean"],
        "trusted_base": BASE_TRUST,
        "assumptions": BASE_ASSUME,
    },
    "C05": {
        "streams": {
            "quick": [fs(160, 14, "C05"), fs(80, 14, "C05", wild=True)],
            "thorough": [fs(3000, 18, "C05", rs="20,1,2,3,7,64", timeout=5000), fs(1500, 18, "C05", wild=True, rs="20,1,2,3,7,64", timeout=5000)],
        },
        "generated": ["Stfs/Gen/Fingerprints.lean (source fingerprints of the functions the hand-written model mirrors)", "Stfs/Gen/OpenFlags.lean (pkg/tape/write.go OpenTapeWriteOnly, pkg/tape/manager.go GetWriter)"],
        "trusted_base": BASE_TRUST,
        "assumptions": BASE_ASSUME + ["os.OpenFile with O_APPEND appends at end of file; the tar writer emits whole 512-byte blocks (validated by the oracle's independent reader on every call)"],
    },
    "C15": {
        "streams": {
            "quick": [fs(160, 24, "C15", mode="ro")],
            "thorough": [fs(3000, 30, "C15", mode="ro", rs="20,1,2,3,7,64", timeout=5000)],
        },
        "generated": ["Stfs/Gen/Guards.lean (every method of *STFS and *File in pkg/fs)"],
        "trusted_base": BASE_TRUST,
        "assumptions": BASE_ASSUME,
    },
    "C12": {
        "streams": {
            "quick": [fs(200, 18, "C12"), fs(120, 16, "C12", wild=True)],
            "thorough": [fs(3000, 22, "C12", timeout=5000), fs(2000, 20, "C12", wild=True, timeout=5000)],
        },
        "generated": ["Stfs/Gen/Fingerprints.lean (source fingerprints of the functions the hand-written model mirrors)"],
        "trusted_base": BASE_TRUST,
        "assumptions": BASE_ASSUME,
    },
    "C13": {
        "streams": {
            "quick": [fs(200, 18, "C13"), fs(120, 16, "C13", wild=True)],
            "thorough": [fs(3000, 22, "C13", timeout=5000), fs(2000, 20, "C13", wild=True, timeout=5000)],
        },
        "generated": ["Stfs/Gen/Fingerprints.lean (source fingerprints of the functions the hand-written model mirrors)"],
        "trusted_base": BASE_TRUST,
        "assumptions": BASE_ASSUME,
    },
    "C01": {
        "streams": {
            "quick": [fs(120, 16, "C01"), fs(60, 14, "C01", wild=True), fs(60, 20, "", mode="reopen"), fsp(96, 14, "C01", rs="20,3")],
            "thorough": [fs(2000, 20, "C01", rs="20,1,2,3,7,64", timeout=6000), fs(1000, 18, "C01", wild=True, timeout=6000), fs(1000, 24, "", mode="reopen", timeout=3000),
                         fsp(1440, 16, "C01", pipes=PIPES_ALL, rs="20,3", timeout=7000)],
        },
        "generated": ["Stfs/Gen/Fingerprints.lean (source fingerprints of the functions the hand-written model mirrors)", "Stfs/Gen/PosArith.lean", "Stfs/Gen/Consts.lean (record keys, suffix tables)"],
        "trusted_base": BASE_TRUST,
        "assumptions": BASE_ASSUME,
    },
    "C07": {
        "streams": {
            "quick": [fs(120, 16, "C07"), fs(60, 14, "C07", wild=True)],
            "thorough": [fs(2000, 20, "C07", rs="20,1,2,3,7,64", timeout=6000), fs(1000, 18, "C07", wild=True, timeout=6000)],
        },
        "generated": ["Stfs/Gen/Fingerprints.lean (source fingerprints of the functions the hand-written model mirrors)", "Stfs/Gen/PosArith.lean", "Stfs/Gen/Consts.lean"],
        "trusted_base": BASE_TRUST,
        "assumptions": BASE_ASSUME,
    },
    "C06": {
        "streams": {
            "quick": [fs(48, 10, "C06", mode="cut", rs="20,1,3")],
            "thorough": [fs(400, 12, "C06", mode="cut", rs="20,1,2,3,7", timeout=6000), fs(32, 8, "C06", mode="cut", rs="20,3", timeout=6000, extra=["-allcuts"])],
            "search": [fs(400, 12, "C06", mode="cut", rs="20,1,2,3,7", timeout=2000)],
        },
        "generated": ["Stfs/Gen/Fingerprints.lean (source fingerprints of the functions the hand-written model mirrors)", "Stfs/Gen/PosArith.lean"],
        "trusted_base": BASE_TRUST,
        "assumptions": BASE_ASSUME + ["the torn-tape model (Model/Cut.lean) is the tar-reader contract R1-R4; it is validated against the real archive/tar on real bytes (every byte offset of small tapes in the thorough tier), not proved", "termination of the real resynchronisation loop is observed under a watchdog on every cut, not proved (the model is a total function)"],
    },
    "C02": {
        "streams": {
            "quick": [fs(240, 18, "C02"), fs(100, 16, "C02", wild=True), fsp(96, 14, "C02", rs="20,3")],
            "thorough": [fs(4000, 22, "C02", rs="20,1,3,7,64", timeout=6000), fs(2000, 20, "C02", wild=True, timeout=6000), fsp(1440, 16, "C02", pipes=PIPES_ALL, rs="20,3", timeout=7000)],
        },
        "generated": ["Stfs/Gen/Fingerprints.lean (source fingerprints of the functions the hand-written model mirrors)", "Stfs/Gen/Guards.lean", "Stfs/Gen/Consts.lean"],
        "trusted_base": BASE_TRUST,
        "assumptions": BASE_ASSUME + ["the reference filesystem Stfs/Spec/RefFs.lean is the specification (POSIX/afero rules; handles buffer until Sync/Close; no clock-driven timestamp updates on write)"],
    },
    "C16": {
        "streams": {
            "quick": [fs(90, 24, "C16", mode="open16", timeout=2400)],
            "thorough": [fs(1500, 28, "C16", mode="open16", rs="20,1,3,7", timeout=7000)],
        },
        "generated": ["Stfs/Gen/Fingerprints.lean (source fingerprints of the functions the hand-written model mirrors)", "Stfs/Gen/OpenFlags.lean", "Stfs/Gen/PosArith.lean"],
        "trusted_base": BASE_TRUST,
        "assumptions": BASE_ASSUME + ["what opening over a torn tail does is predicted by the driver from the tar-reader contract (Model/Cut.lean); writes after a torn, unaligned tail are outside the model (finding F19)"],
    },
    "C18": {
        "streams": {
            "quick": [{"stream": "keys", "args": ["-n", "96", "-workers", "16"], "timeout": 1500}],
            "thorough": [{"stream": "keys", "args": ["-n", "1600", "-workers", "16"], "timeout": 7000}],
        },
        "generated": ["Stfs/Gen/KeyWrap.lean (pkg/utility/keygen.go, pkg/keys/identity.go: per format, under which password condition the private half is wrapped / unwrapped; password and key bytes passed unchanged)"],
        "trusted_base": BASE_TRUST,
        "assumptions": ["the primitives are ideal in the model: scrypt/age, OpenPGP S2K locking and minisign's KDF unwrap exactly under the wrapping password; decryption succeeds exactly with the private half of the pair encrypted to; a signature verifies exactly under the signing pair's public half (the real libraries are exercised by the correspondence, not proved)"],
    },
    "C11": {
        "streams": {
            "quick": [{"stream": "conc", "race": True, "args": ["-n", "96", "-workers", "8", "-rs", "20,3", "-clients", "4", "-watchdog", "20"], "timeout": 2400}],
            "thorough": [{"stream": "conc", "race": True, "args": ["-n", "2000", "-workers", "8", "-rs", "20,1,3,7", "-clients", "8", "-watchdog", "30"], "timeout": 14000}],
        },
        "generated": ["Stfs/Gen/Guards.lean (statement shapes of every method of *STFS and *File: where the lock is taken)", "Stfs/Gen/Locks.lean (lock skeletons of pkg/operations)"],
        "trusted_base": BASE_TRUST,
        "assumptions": BASE_ASSUME + ["Go's sync.Mutex provides mutual exclusion and happens-before between Unlock and the next Lock (the generic theorem's model of the mutex); the Go memory model and the scheduler are outside the model: the race detector and injected yields search the real code for schedules, they prove nothing", "the single SQLite connection serialises index statements issued outside the filesystem lock (Create's and Symlink's pre-lock probes)"],
    },
    "C03": {
        "streams": {
            "quick": [fsp(120, 10, "C03", pipes="++;gzip++;+age+;++minisign;zstandard+pgp+pgp+smallest+memory;lz4+age+minisign+balanced;brotli++pgp+smallest;bzip2+pgp++balanced+memory;parallelgzip+age+pgp+smallest;parallelbzip2++minisign+balanced+memory;gzip+pgp+minisign+smallest;zstandard+age++balanced;lz4+++smallest+memory;brotli+age+minisign;bzip2++pgp+smallest", mode="roundtrip", rs="20,3,1,64", timeout=2400)],
            "thorough": [fsp(8 * 3 * 3 * 3 * 2 * 2, 12, "C03", pipes=";".join("%s+%s+%s+%s+%s" % (c, e, sg, lv, ct) for c in ["", "gzip", "parallelgzip", "lz4", "zstandard", "brotli", "bzip2", "parallelbzip2"] for lv in ["fastest", "balanced", "smallest"] for e in ["", "age", "pgp"] for sg in ["", "minisign", "pgp"] for ct in ["file", "memory"]), mode="roundtrip", rs="20,1,2,3,7,64", timeout=14000)],
        },
        "generated": ["Stfs/Gen/Consts.lean (suffix tables of pkg/suffix, format lists of pkg/config)"],
        "trusted_base": BASE_TRUST,
        "assumptions": BASE_ASSUME + ["the compressors, ciphers and signature schemes are abstract lawful codecs in the theorems (decode(encode x) = x is a hypothesis); the real ones are exercised by the matrix on every configuration, not proved", "the encoders' output length is a function of the input for a given configuration (the two-pass write relies on it; checked by the matrix, where a mismatch shows as a failed close)"],
    },
    "C09": {
        "streams": {
            "quick": [{"stream": "leak", "args": ["-n", "48", "-workers", "16", "-rs", "20,3", "-pipes", "+age+;+pgp+;gzip+age+minisign;zstandard+pgp+pgp;lz4+age+pgp;brotli+pgp+minisign", "-keys", "/verif/work/keys"], "timeout": 2400}],
            "thorough": [{"stream": "leak", "args": ["-n", "400", "-workers", "16", "-rs", "20,1,3,7", "-pipes", ";".join("%s+%s+%s" % (c, e, sg) for c in ["", "gzip", "parallelgzip", "lz4", "zstandard", "brotli", "bzip2", "parallelbzip2"] for e in ["age", "pgp"] for sg in ["", "minisign", "pgp"]), "-keys", "/verif/work/keys"], "timeout": 14000}],
        },
        "generated": ["Stfs/Gen/WritePaths.lean (pkg/operations/{archive,update,delete,move}.go: the statements before every tw.WriteHeader and every use of the tar writer; pkg/encryption/encrypt.go: EncryptHeader's replacement header; pkg/recovery/index.go: decryptHeader error handling)"],
        "trusted_base": BASE_TRUST,
        "assumptions": ["encryption is ideal in the model: a ciphertext reveals nothing but its length and opens only with the private half of the key it was made for (age / OpenPGP are exercised by the marker search, not proved)", "the tie for this property is the translator alone: the stream is an oracle on the real bytes (marker search, fixed-wrapper shape, wrong-key rebuild/restore), not a model/implementation comparison"],
    },
    "C08": {
        "streams": {
            "quick": [{"stream": "forge", "args": ["-n", "32", "-len", "10", "-workers", "16", "-rs", "20,3", "-pipes", "++minisign;++pgp;+age+minisign;gzip+pgp+pgp;zstandard+age+pgp;lz4+pgp+minisign", "-keys", "/verif/work/keys"], "timeout": 2400}],
            "thorough": [{"stream": "forge", "args": ["-n", "36", "-len", "9", "-workers", "16", "-rs", "20,3,1", "-allcuts", "-pipes", ";".join("%s+%s+%s" % (c, e, sg) for c in ["", "gzip", "zstandard"] for e in ["", "age", "pgp"] for sg in ["minisign", "pgp"]), "-keys", "/verif/work/keys"], "timeout": 14000}],
        },
        "generated": ["Stfs/Gen/Verify.lean (pkg/signature/verify.go: VerifyHeader skeleton, per-format returns of VerifyString; every caller of recovery.Index and its verifier callback; Fetch/Query verification sites and Fetch's raw-copy condition)"],
        "trusted_base": BASE_TRUST,
        "assumptions": ["signatures are ideal in the model: a well-formed signature verifies exactly under the public half of the key that made it and over the message it was made over; unforgeability is a hypothesis on the tape (Unforged), not an axiom", "encoding/json round-trips a tar.Header (the embedded header) — exercised by every rebuild of the correspondence"],
    },
    "C17": {
        "streams": {
            "quick": [fs(240, 18, "C17", mode="foreign", rs="20,3,1")],
            "thorough": [fs(2400, 24, "C17", mode="foreign", rs="20,1,2,3,7,64", timeout=7000)],
        },
        "generated": ["Stfs/Gen/Fingerprints.lean (source fingerprints of the functions the hand-written model mirrors)", "Stfs/Gen/Consts.lean (IsRoot spellings, suffix tables, STFS record keys)", "Stfs/Gen/PosArith.lean"],
        "trusted_base": BASE_TRUST,
        "assumptions": BASE_ASSUME + ["the foreign archive's items are handed to the model as read by the harness's own archive/tar reader (header fields, header blocks, stored size); afero.BasePathFs (the base-path view of the documented composition) is library code used as is by the oracle"],
    },
    "C10": {
        "streams": {
            "quick": [{"stream": "fault", "args": ["-n", "32", "-len", "8", "-workers", "16", "-watchdog", "4", "-rs", "20,3"], "timeout": 1500},
                      fs(100, 14, "C10", wild=True), fs(64, 30, "C10", mode="file", rs="20,3")],
            "thorough": [{"stream": "fault", "args": ["-n", "400", "-len", "10", "-workers", "16", "-watchdog", "5", "-rs", "20,1,3,7"], "timeout": 7000},
                         fs(2000, 18, "C10", wild=True, timeout=6000), fs(1500, 40, "C10", mode="file", timeout=6000)],
        },
        "generated": ["Stfs/Gen/Locks.lean (lock skeleton of every function in pkg/operations, pkg/tape/manager.go, pkg/fs)"],
        "trusted_base": BASE_TRUST,
        "assumptions": BASE_ASSUME + ["Go's sync.Mutex, defer and goroutine semantics; the skeleton abstraction (events inside non-error branches are unconditional, loop bodies run once) is sound for the balance at exits because loop bodies are lock-neutral (decided)", "source-read faults are not injected (the write cache is the source); open faults are covered statically only"],
    },
    "C14": {
        "streams": {
            "quick": [fs(96, 40, "C14", mode="file", rs="20,3")],
            "thorough": [fs(2000, 48, "C14", mode="file", rs="20,1,3,7", timeout=7000), fsp(288, 40, "C14", pipes=PIPES_QUICK, mode="file", rs="20", timeout=7000)],
        },
        "generated": ["Stfs/Gen/Fingerprints.lean (source fingerprints of the functions the hand-written model mirrors)", "Stfs/Gen/Guards.lean"],
        "trusted_base": BASE_TRUST,
        "assumptions": BASE_ASSUME + ["the write cache is the file-backed cache (os.File semantics); the memory cache (mattetti/filebuffer) is outside the model where it overwrites inside the buffer", "the reference is Spec/ByteFile.lean; end-of-file may be signalled together with the last bytes (allowed by io.Reader)"],
    },
}
