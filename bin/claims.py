"""What MANIFEST.json says about each claimed property."""
CORR = "a correspondence check runs the model's executable definitions and the real code on the same generated histories and compares every observation after every call; "
CLAIMS = {
    "C04": {
        "text": "Proof (Lean 4). The position arithmetic is regenerated from pkg/recovery/{index,query,fetch}.go on every run and proved to split the rounded-up block count exactly (all six blocks, all five seek expressions); scan_written shows the Index loop visits each record at the position of its first block; an invariant proved by induction over arbitrary histories of all filesystem and handle calls shows every row's content and last-known positions are record starts with block < record size, so Fetch/Restore seek onto a record. Partial: that the record found holds the entry's *current content*, that content position <= last-known position and that the largest last-known position is the final record are decided by the oracle on the real code only (they fail today under finding F01).",
        "design_ref": "DESIGN.md §8 C04",
        "note": "trusted: Lean kernel (+propext, Classical.choice, Quot.sound), the translator for Gen/PosArith, the correspondence harness; assumed: tar reader/writer contract, SQLite query semantics, float exactness of math.Ceil below 2^53",
        "technique": "Lean 4 proof over regenerated arithmetic + invariant by induction over histories; differential correspondence",
    },
}
NOT_APPLICABLE = {}
