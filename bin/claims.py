"""What MANIFEST.json says about each claimed property."""
CORR = "a correspondence check runs the model's executable definitions and the real code on the same generated histories and compares every observation after every call; "
CLAIMS = {
    "C04": {
        "text": "Proof (Lean 4). The position arithmetic is regenerated from pkg/recovery/{index,query,fetch}.go on every run and proved to split the rounded-up block count exactly (all six blocks, all five seek expressions); scan_written shows the Index loop visits each record at the position of its first block; an invariant proved by induction over arbitrary histories of all filesystem and handle calls shows every row's content and last-known positions are record starts with block < record size, so Fetch/Restore seek onto a record. Partial: that the record found holds the entry's *current content*, that content position <= last-known position and that the largest last-known position is the final record are decided by the oracle on the real code only (they fail today under finding F01).",
        "design_ref": "DESIGN.md §8 C04",
        "note": "trusted: Lean kernel (+propext, Classical.choice, Quot.sound), the translator for Gen/PosArith, the correspondence harness; assumed: tar reader/writer contract, SQLite query semantics, float exactness of math.Ceil below 2^53",
        "technique": "Lean 4 proof over regenerated arithmetic + invariant by induction over histories; differential correspondence",
    },
    "C05": {
        "text": "Proof (Lean 4). For every call in every state the model's tape afterwards is the tape before plus a suffix (step_appends, history_appends, by induction over histories through a program logic for the model's state monad); the tape stays a concatenation of archives = non-empty run of records + trailer (archives_well_formed); every mutating method with a precondition is guard >>= effect with a read-only guard, so a failed precondition leaves tape, table and drive state untouched (failed_precondition_appends_nothing, for Mkdir/Remove/Rename/Chmod/Chown/Chtimes/Symlink); the drive-open flags are regenerated from pkg/tape/write.go and manager.go on every run and proved to be O_APPEND without O_TRUNC outside `overwrite`, with Truncate only under `overwrite` and `overwrite` latched. Partial: the guard/effect factoring is not yet stated for Create/OpenFile/MkdirAll (their creation path interleaves probes and effects); byte-level well-formedness of what archive/tar writes is an assumption checked by the oracle's independent reader after every call.",
        "design_ref": "DESIGN.md §8 C05",
        "note": "trusted: Lean kernel (+propext, Classical.choice, Quot.sound), translator for Gen/OpenFlags, correspondence harness; assumed: O_APPEND semantics of the OS, archive/tar writes whole blocks and valid headers",
        "technique": "Lean 4 proof: invariant by induction over histories + decide over regenerated open-flag table; differential correspondence",
    },
    "C15": {
        "text": "Proof (Lean 4). On the model with readOnly = true: every mutating filesystem method returns permission and leaves the whole state unchanged (mutating_calls_denied, for all states and arguments); every other call except Initialize leaves tape, table (tombstones included) and drive state unchanged and keeps all handles read-only, including OpenFile with any flag word and writes/syncs/closes on such handles (readonly_step, readonly_history by induction over histories); Initialize never touches the tape and cannot fall back to creating a root (readonly_initialize_keeps_tape). The guard table is regenerated from pkg/fs on every run and proved (decide) to put the readOnly / write-flag guard before every lock and effect. That read calls return what a writable instance returns is decided by the correspondence (the model's read path does not look at readOnly) on populated tapes reopened read-only with the index kept or dropped, with and without a write backend.",
        "design_ref": "DESIGN.md §8 C15",
        "note": "trusted: Lean kernel (+propext, Classical.choice, Quot.sound), translator for Gen/Guards, correspondence harness",
        "technique": "Lean 4 proof: invariant by induction over histories + decide over regenerated guard table; differential correspondence",
    },
    "C12": {
        "text": "Proof (Lean 4), partial. The property is false of the code today (findings F03: LIKE wildcards and ASCII case; F07: rename into own subtree accepted; F06: rename onto existing does not move) and the witnesses are theorems evaluated by the kernel on the model and replayed on the implementation. Proved for all names: SQLite's `name LIKE '<dir>/%'` on a wildcard-free directory name is exactly the case-folded prefix test (like_is_folded_prefix), every true descendant is selected (every_descendant_selected), prefix-related siblings are not, and outside the trigger region (no wildcard in the stored directory name, no case-variant sibling) GetHeaderChildren — the set RemoveAll/Rename delete or move — is exactly the live rows textually beneath the directory (children_exact_partial). Not yet proved in Lean: that Delete/Move then change exactly those rows and nothing else (decided by the oracle on the real code: tree before/after every RemoveAll/Rename), and Move's new-name arithmetic.",
        "design_ref": "DESIGN.md §8 C12",
        "note": "trusted: Lean kernel (+propext, Classical.choice, Quot.sound), correspondence harness (validates the LIKE model against the real SQLite on names with _ % . space non-ASCII and prefix-related siblings)",
        "technique": "Lean 4 proof of the LIKE pattern semantics + kernel-evaluated counter-witnesses; differential correspondence; tree-diff oracle",
    },
    "C13": {
        "text": "Proof (Lean 4), partial. False of the code today (F04 parent may be a file, F05 MkdirAll creates only the leaf, F07, F10 listing by replace(), F11 symlinks, F15 root removable); witnesses are kernel-evaluated theorems. Proved for all tables, spellings and limits: a count-limited listing returns at most n entries (limited_listing_le, readdir_count_le through the handle), and a listing never contains the directory itself (listing_excludes_self). The tree invariant itself (reachable = live, parents are directories, listing = children exactly once, listing agrees with stat/open) is decided by the oracle on the real code after every call, classified through the model's triggers (listingDeviates is evaluated on every state).",
        "design_ref": "DESIGN.md §8 C13",
        "note": "trusted: Lean kernel (+propext, Classical.choice, Quot.sound), correspondence harness (validates the direct-children query model — replace(), depth, limit, link pass — against the real SQLite)",
        "technique": "Lean 4 proof of the limit arithmetic and self-exclusion + kernel-evaluated counter-witnesses; differential correspondence; tree-walk oracle",
    },
}
NOT_APPLICABLE = {}
