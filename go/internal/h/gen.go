package h

import (
	"fmt"
	"math/rand"
	"os"
	"path"
	"strings"
)

// Profile steers the history generator.
type Profile struct {
	// Wild enables the regions in which known findings live (wildcard characters, case
	// variants, rename onto existing entries, multi-level MkdirAll, symlinks, ...).
	Wild     bool
	Symlinks bool
	MaxLen   int
	// MaxContent is the largest content length written through a handle.
	MaxContent int
	ReadOnly   bool
}

var plainComps = []string{"a", "b", "ab", "c", "d.txt", "e f", "é", "xy"}
var wildComps = []string{"a_", "a%", "A", "AB", "a.", "long" + strings.Repeat("n", 110)}

// Gen produces one history: a list of calls.  It keeps a shadow of the names it has tried to
// create so that later calls mostly hit existing entries; it never looks at results.
type Gen struct {
	R       *rand.Rand
	P       Profile
	dirs    []string
	files   []string
	nextH   int64
	clock   int64
	pending []Call
	sizeOf  map[string]int
	removed []string        // names that were removed (re-creating them exercises tombstones)
	used    map[string]bool // every name ever handed out (clean mode never renames onto one)
	sized   map[string]bool // files that (probably) have content
	// likeDone: the LIKE-confusable sibling scenario was issued in this history
	likeDone bool
}

func NewGen(seed int64, p Profile) *Gen {
	return &Gen{R: rand.New(rand.NewSource(seed)), P: p, dirs: []string{"/"}, clock: 1_600_000_000_000_000_000,
		used: map[string]bool{}, sized: map[string]bool{}}
}

func (g *Gen) comp() string {
	if g.P.Wild && g.R.Intn(3) == 0 {
		return wildComps[g.R.Intn(len(wildComps))]
	}
	return plainComps[g.R.Intn(len(plainComps))]
}

func (g *Gen) pickDir() string { return g.dirs[g.R.Intn(len(g.dirs))] }

func (g *Gen) pickExisting() string {
	all := append(append([]string{}, g.dirs[1:]...), g.files...)
	if len(all) == 0 || g.R.Intn(8) == 0 {
		return path.Join(g.pickDir(), g.comp())
	}
	return all[g.R.Intn(len(all))]
}

func (g *Gen) newName() string {
	// now and then re-create a name that was removed earlier (delete-then-recreate histories)
	if len(g.removed) > 0 && g.R.Intn(6) == 0 {
		n := g.removed[g.R.Intn(len(g.removed))]
		if g.isShadowDir(path.Dir(n)) && !g.isShadowDir(n) && !g.isShadowFile(n) {
			return n
		}
	}
	d := g.pickDir()
	if strings.Count(d, "/") > 3 {
		d = "/"
	}
	n := path.Join(d, g.comp())
	g.used[n] = true
	return n
}

// freshName returns a name that was never handed out before (clean mode: rename targets).
func (g *Gen) freshName() string {
	for k := 0; k < 50; k++ {
		d := g.pickDir()
		if strings.Count(d, "/") > 3 {
			d = "/"
		}
		n := path.Join(d, g.comp())
		if k > 10 {
			n += fmt.Sprint(g.R.Intn(1000))
		}
		if !g.used[n] {
			g.used[n] = true
			return n
		}
	}
	n := fmt.Sprintf("/fresh%d", g.R.Intn(1<<30))
	g.used[n] = true
	return n
}

func (g *Gen) isShadowFile(p string) bool {
	for _, d := range g.files {
		if d == p {
			return true
		}
	}
	return false
}

func (g *Gen) isShadowDir(p string) bool {
	for _, d := range g.dirs {
		if d == p {
			return true
		}
	}
	return false
}

func (g *Gen) spell(p string) string {
	// caller spellings: mostly absolute clean, sometimes with a trailing slash or "./"
	switch g.R.Intn(12) {
	case 0:
		return p + "/"
	case 1:
		if p != "/" {
			return strings.TrimPrefix(p, "/")
		}
	case 2:
		return "/." + p
	}
	return p
}

func (g *Gen) perm() int64 {
	perms := []int64{0o777, 0o755, 0o644, 0o600, 0o700, 0o666, 0o444, 0}
	return perms[g.R.Intn(len(perms))]
}

func (g *Gen) removeShadow(p string) {
	if p != "/" && len(g.removed) < 64 {
		g.removed = append(g.removed, p)
	}
	keep := func(xs []string) []string {
		out := xs[:0:0]
		for _, x := range xs {
			if x != p && !strings.HasPrefix(x, p+"/") {
				out = append(out, x)
			}
		}
		return out
	}
	g.dirs = append([]string{"/"}, keep(g.dirs[1:])...)
	g.files = keep(g.files)
}

func enc(s string) string { return EncName(s) }

// Next returns the next call of the history.
func (g *Gen) Next() Call {
	if len(g.pending) > 0 {
		c := g.pending[0]
		g.pending = g.pending[1:]
		return c
	}
	g.clock += 1_000_000_007
	if g.P.Wild && !g.P.ReadOnly && !g.likeDone && g.R.Intn(6) == 0 {
		// sibling directories that SQLite's LIKE does not tell apart (wildcards _ and %, ASCII
		// case), each with a child, and then a recursive remove or a rename of one of them
		g.likeDone = true
		pair := [][2]string{{"/a_", "/ab"}, {"/a%", "/axy"}, {"/ab", "/AB"}, {"/a_", "/a_b"}}[g.R.Intn(4)]
		var seq []Call
		for k, d := range pair {
			g.nextH++
			id := fmt.Sprint(g.nextH)
			if !g.isShadowDir(d) {
				g.dirs = append(g.dirs, d)
			}
			f := d + "/" + []string{"x", "y"}[k]
			g.files = append(g.files, f)
			g.sized[f] = true
			seq = append(seq, Call{"mkdir", []string{enc(d), "493"}}, Call{"create", []string{id, enc(f)}},
				Call{"hwrite", []string{id, fmt.Sprint(10 + k), fmt.Sprint(g.R.Intn(1 << 20))}}, Call{"hclose", []string{id}})
		}
		if g.R.Intn(2) == 0 {
			seq = append(seq, Call{"removeall", []string{enc(pair[0])}})
			g.removeShadow(pair[0])
		} else {
			to := g.freshName()
			seq = append(seq, Call{"rename", []string{enc(pair[0]), enc(to)}})
			g.removeShadow(pair[0])
			g.dirs = append(g.dirs, to)
		}
		g.pending = seq[1:]
		return seq[0]
	}
	r := g.R.Intn(100)
	ro := g.P.ReadOnly
	switch {
	case r < 16:
		p := g.newName()
		if !g.P.Wild && g.isShadowFile(p) {
			return Call{"stat", []string{enc(p)}}
		}
		g.dirs = append(g.dirs, p)
		return Call{"mkdir", []string{enc(g.spell(p)), fmt.Sprint(g.perm())}}
	case r < 38:
		// create (or reopen for writing), write, close
		var p string
		reopen := false
		if len(g.files) > 0 && g.R.Intn(3) == 0 {
			p = g.files[g.R.Intn(len(g.files))]
			reopen = true
		} else {
			p = g.newName()
			if !g.P.Wild && g.isShadowDir(p) {
				return Call{"stat", []string{enc(p)}}
			}
			if !g.isShadowFile(p) {
				g.files = append(g.files, p)
			} else {
				reopen = true
			}
		}
		g.nextH++
		id := fmt.Sprint(g.nextH)
		n := 0
		switch g.R.Intn(6) {
		case 0:
			n = 0
		case 1:
			n = 1 + g.R.Intn(20)
		case 2:
			n = 511 + g.R.Intn(3)
		default:
			n = g.R.Intn(g.P.MaxContent + 1)
		}
		var open Call
		if reopen && !g.P.Wild && g.sized[p] {
			// clean mode: rewrite an existing non-empty file in place (no O_TRUNC, see finding F08)
			open = Call{"openfile", []string{id, enc(p), fmt.Sprint(os.O_RDWR | os.O_CREATE), fmt.Sprint(g.perm())}}
		} else if g.R.Intn(4) == 0 && !ro {
			flag := os.O_RDWR | os.O_CREATE
			if g.R.Intn(2) == 0 && (g.P.Wild || !g.sized[p]) {
				flag |= os.O_TRUNC
			}
			if g.P.Wild && g.R.Intn(3) == 0 {
				flag |= os.O_APPEND
			}
			open = Call{"openfile", []string{id, enc(p), fmt.Sprint(flag), fmt.Sprint(g.perm())}}
		} else {
			open = Call{"create", []string{id, enc(g.spell(p))}}
		}
		writes := []Call{}
		if n > 0 || g.R.Intn(2) == 0 {
			if n > 600 && g.R.Intn(2) == 0 {
				writes = append(writes, Call{"hwrite", []string{id, fmt.Sprint(n / 2), fmt.Sprint(g.R.Intn(1 << 20))}})
				writes = append(writes, Call{"hwrite", []string{id, fmt.Sprint(n - n/2), fmt.Sprint(g.R.Intn(1 << 20))}})
			} else {
				writes = append(writes, Call{"hwrite", []string{id, fmt.Sprint(n), fmt.Sprint(g.R.Intn(1 << 20))}})
			}
		}
		if n > 0 {
			g.sized[p] = true
		}
		if g.R.Intn(4) == 0 {
			for k := range writes {
				writes[k].Method = "hwritestr"
			}
		}
		g.pending = append(writes, Call{"hclose", []string{id}})
		if g.P.Wild && g.R.Intn(10) == 0 {
			g.pending = append(append([]Call{}, writes...), Call{"hsync", []string{id}}, Call{"hclose", []string{id}})
		}
		return open
	case r < 46:
		p := g.pickExisting()
		g.removeShadow(p)
		return Call{"remove", []string{enc(g.spell(p))}}
	case r < 50:
		p := g.pickExisting()
		if !g.P.Wild {
			all := append(append([]string{}, g.dirs[1:]...), g.files...)
			if len(all) == 0 {
				return Call{"stat", []string{enc("/")}}
			}
			p = all[g.R.Intn(len(all))]
		}
		g.removeShadow(p)
		return Call{"removeall", []string{enc(g.spell(p))}}
	case r < 60:
		from := g.pickExisting()
		var to string
		if g.P.Wild && g.R.Intn(3) == 0 {
			to = g.pickExisting()
		} else if g.P.Wild {
			to = g.newName()
		} else {
			to = g.freshName()
			for k := 0; k < 20 && (strings.HasPrefix(to, from+"/") || to == from); k++ {
				to = g.freshName()
			}
		}
		isDir := false
		for _, d := range g.dirs {
			if d == from {
				isDir = true
			}
		}
		sub := []string{}
		for _, x := range append(append([]string{}, g.dirs...), g.files...) {
			if strings.HasPrefix(x, from+"/") {
				sub = append(sub, x)
			}
		}
		g.removeShadow(from)
		if isDir {
			g.dirs = append(g.dirs, to)
		} else {
			g.files = append(g.files, to)
			if g.sized[from] {
				g.sized[to] = true
			}
		}
		_ = sub
		return Call{"rename", []string{enc(g.spell(from)), enc(g.spell(to))}}
	case r < 65:
		return Call{"chmod", []string{enc(g.spell(g.pickExisting())), fmt.Sprint(g.perm())}}
	case r < 68:
		p := g.pickExisting()
		if !g.P.Wild && !g.isShadowDir(p) {
			p = g.pickDir()
		}
		return Call{"chown", []string{enc(p), fmt.Sprint(g.R.Intn(3) * 500), fmt.Sprint(g.R.Intn(3) * 100)}}
	case r < 72:
		return Call{"chtimes", []string{enc(g.pickExisting()), fmt.Sprint(g.clock - 5_000_000_000), fmt.Sprint(g.clock - 7_000_000_321)}}
	case r < 78:
		return Call{"stat", []string{enc(g.spell(g.pickExisting()))}}
	case r < 84:
		if len(g.files) > 0 {
			return Call{"cat", []string{enc(g.files[g.R.Intn(len(g.files))])}}
		}
		return Call{"stat", []string{enc("/")}}
	case r < 92:
		g.nextH++
		id := fmt.Sprint(g.nextH)
		lim := []int64{-1, 0, 1, 2, 5}[g.R.Intn(5)]
		g.pending = []Call{{"hreaddir", []string{id, fmt.Sprint(lim)}}, {"hclose", []string{id}}}
		return Call{"open", []string{id, enc(g.spell(g.pickDir()))}}
	case r < 96:
		var p string
		if g.P.Wild {
			p = path.Join(g.newName(), g.comp())
		} else {
			p = g.newName()
		}
		g.dirs = append(g.dirs, p)
		return Call{"mkdirall", []string{enc(p), fmt.Sprint(g.perm())}}
	default:
		if g.P.Symlinks {
			target := g.pickExisting()
			l := g.newName()
			g.nextH++
			id := fmt.Sprint(g.nextH)
			g.pending = []Call{{"open", []string{id, enc(path.Dir(l))}}, {"hreaddir", []string{id, fmt.Sprint(1 + g.R.Intn(3))}}, {"hclose", []string{id}}}
			return Call{"symlink", []string{enc(target), enc(l)}}
		}
		return Call{"lstat", []string{enc(g.pickExisting())}}
	}
}

// SyncShadow copies another generator's idea of which names exist (once).
func (g *Gen) SyncShadow(o *Gen) {
	if len(g.dirs) > 1 || len(g.files) > 0 {
		return
	}
	g.dirs = append([]string{}, o.dirs...)
	g.files = append([]string{}, o.files...)
	g.nextH = o.nextH + 100
}

// NextFile produces the handle-centred histories of the C14 stream: a few files with known
// content, then handles opened with every flag combination and driven with reads, positioned
// reads, seeks (negative, zero, inside, at and beyond the end), writes, positioned writes,
// truncations and stats, then closed and read back.
func (g *Gen) NextFile() Call {
	if len(g.pending) > 0 {
		c := g.pending[0]
		g.pending = g.pending[1:]
		return c
	}
	sizes := []int{0, 1, 7, 300, 511, 512, 513, 1400}
	if len(g.files) < 3 {
		p := fmt.Sprintf("/f%d", len(g.files))
		g.files = append(g.files, p)
		g.nextH++
		id := fmt.Sprint(g.nextH)
		n := sizes[g.R.Intn(len(sizes))]
		g.fsize(p, n)
		g.pending = []Call{}
		if n > 0 {
			g.pending = append(g.pending, Call{"hwrite", []string{id, fmt.Sprint(n), fmt.Sprint(g.R.Intn(1 << 20))}})
		}
		g.pending = append(g.pending, Call{"hclose", []string{id}})
		return Call{"create", []string{id, enc(p)}}
	}
	p := g.files[g.R.Intn(len(g.files))]
	size := g.sizeOf[p]
	g.nextH++
	id := fmt.Sprint(g.nextH)
	acc := []int{os.O_RDONLY, os.O_WRONLY, os.O_RDWR, os.O_RDWR, os.O_RDWR}[g.R.Intn(5)]
	flag := acc
	if g.R.Intn(6) == 0 {
		flag |= os.O_APPEND
	}
	if g.R.Intn(6) == 0 {
		flag |= os.O_TRUNC
	}
	if g.R.Intn(3) == 0 {
		flag |= os.O_CREATE
	}
	off := func() int64 {
		switch g.R.Intn(7) {
		case 0:
			return -int64(1 + g.R.Intn(5))
		case 1:
			return 0
		case 2:
			return int64(size)
		case 3:
			return int64(size + 1 + g.R.Intn(600))
		default:
			if size > 0 {
				return int64(g.R.Intn(size))
			}
			return int64(g.R.Intn(4))
		}
	}
	cnt := func() int {
		return []int{0, 1, 5, 100, 512, 600, size, size + 10}[g.R.Intn(8)]
	}
	ops := []Call{}
	nops := 1 + g.R.Intn(7)
	for k := 0; k < nops; k++ {
		switch g.R.Intn(9) {
		case 0, 1:
			ops = append(ops, Call{"hread", []string{id, fmt.Sprint(cnt())}})
		case 2:
			ops = append(ops, Call{"hreadat", []string{id, fmt.Sprint(cnt()), fmt.Sprint(off())}})
		case 3:
			ops = append(ops, Call{"hseek", []string{id, fmt.Sprint(off()), fmt.Sprint(g.R.Intn(3))}})
		case 4, 5:
			ops = append(ops, Call{"hwrite", []string{id, fmt.Sprint(cnt() % 700), fmt.Sprint(g.R.Intn(1 << 20))}})
		case 6:
			ops = append(ops, Call{"hwriteat", []string{id, fmt.Sprint(cnt() % 700), fmt.Sprint(g.R.Intn(1 << 20)), fmt.Sprint(off())}})
		case 7:
			ops = append(ops, Call{"htruncate", []string{id, fmt.Sprint(off())}})
		case 8:
			ops = append(ops, Call{"hstat", []string{id}})
		}
	}
	if g.R.Intn(8) == 0 {
		ops = append(ops, Call{"hsync", []string{id}})
	}
	ops = append(ops, Call{"hclose", []string{id}}, Call{"cat", []string{enc(p)}}, Call{"stat", []string{enc(p)}})
	g.pending = ops
	return Call{"openfile", []string{id, enc(p), fmt.Sprint(flag), "420"}}
}

func (g *Gen) fsize(p string, n int) {
	if g.sizeOf == nil {
		g.sizeOf = map[string]int{}
	}
	g.sizeOf[p] = n
}
