// Package h is the in-process harness around the real STFS code: environment set-up,
// canonical observation of the index and the tape, error classification, and the shared
// line protocol (see lean/Stfs/Driver.lean).
package h

import (
	"archive/tar"
	"database/sql"
	"errors"
	"fmt"
	"io"
	"os"
	"os/user"
	"path/filepath"
	"reflect"
	"sort"
	"strconv"
	"strings"
	"time"
	"unsafe"

	golog "github.com/fclairamb/go-log"
	"github.com/pojntfx/stfs/pkg/cache"
	"github.com/pojntfx/stfs/pkg/config"
	"github.com/pojntfx/stfs/pkg/encryption"
	"github.com/pojntfx/stfs/pkg/fs"
	"github.com/pojntfx/stfs/pkg/mtio"
	"github.com/pojntfx/stfs/pkg/operations"
	"github.com/pojntfx/stfs/pkg/persisters"
	"github.com/pojntfx/stfs/pkg/recovery"
	"github.com/pojntfx/stfs/pkg/signature"
	"github.com/pojntfx/stfs/pkg/tape"
	_ "modernc.org/sqlite"
)

// NopLogger implements logging.StructuredLogger.
type NopLogger struct{}

func (NopLogger) Trace(string, ...interface{})       {}
func (NopLogger) Debug(string, ...interface{})       {}
func (NopLogger) Info(string, ...interface{})        {}
func (NopLogger) Warn(string, ...interface{})        {}
func (NopLogger) Error(string, ...interface{})       {}
func (NopLogger) Panic(string, ...interface{})       {}
func (l NopLogger) With(...interface{}) golog.Logger { return l }

// Cfg is an instance configuration.
type Cfg struct {
	RS          int
	Compression string
	Encryption  string
	Signature   string
	ReadOnly    bool
	WPIRP       bool
	CacheType   string // config.WriteCacheTypeFile or Memory
	Level       string
	Crypto      config.CryptoConfig // write side
	CryptoRead  config.CryptoConfig // read side
	NoWriteOps  bool
	// optional seams for fault injection (the production code takes interfaces / function values here)
	WrapPersister func(config.MetadataPersister) config.MetadataPersister `json:"-"`
	WrapBackend   func(config.BackendConfig) config.BackendConfig         `json:"-"`
}

func DefaultCfg() Cfg {
	return Cfg{RS: 20, WPIRP: true, CacheType: config.WriteCacheTypeFile, Level: config.CompressionLevelFastestKey}
}

// Env is one STFS instance over a drive file and an index file.
type Env struct {
	Cfg     Cfg
	Dir     string
	Drive   string
	DBPath  string
	TM      *tape.TapeManager
	MP      *persisters.MetadataPersister
	ReadOps *operations.Operations
	WriteOp *operations.Operations
	FS      *fs.STFS
	ro      *sql.DB
}

var userOnce struct {
	uid, gid     int
	uname, gname string
	done         bool
}

// User returns what mknodeWithoutLocking will record as owner.
func User() (uid, gid int, uname, gname string) {
	if !userOnce.done {
		u, err := user.Current()
		if err == nil {
			userOnce.uid, _ = strconv.Atoi(u.Uid)
			userOnce.gid, _ = strconv.Atoi(u.Gid)
			userOnce.uname = u.Username
			if gs, err := u.GroupIds(); err == nil && len(gs) >= 1 {
				userOnce.gname = gs[0]
			}
		}
		userOnce.done = true
	}
	return userOnce.uid, userOnce.gid, userOnce.uname, userOnce.gname
}

// NewEnv builds an instance in dir (drive.tar, index.sqlite) without initializing it.
func NewEnv(dir string, c Cfg) (*Env, error) {
	return NewEnvAt(dir, filepath.Join(dir, "drive.tar"), filepath.Join(dir, "index.sqlite"), c)
}

func NewEnvAt(dir, drive, db string, c Cfg) (*Env, error) {
	e := &Env{Cfg: c, Dir: dir, Drive: drive, DBPath: db}
	mt := mtio.MagneticTapeIO{}
	e.TM = tape.NewTapeManager(drive, mt, c.RS, false)
	e.MP = persisters.NewMetadataPersister(db)
	if err := e.MP.Open(); err != nil {
		return nil, err
	}
	var mpi config.MetadataPersister = e.MP
	if c.WrapPersister != nil {
		mpi = c.WrapPersister(mpi)
	}
	mc := config.MetadataConfig{Metadata: mpi}
	pc := config.PipeConfig{RecordSize: c.RS, Compression: c.Compression, Encryption: c.Encryption, Signature: c.Signature}
	bc := config.BackendConfig{GetWriter: e.TM.GetWriter, CloseWriter: e.TM.Close, GetReader: e.TM.GetReader, CloseReader: e.TM.Close, MagneticTapeIO: mt}
	if c.WrapBackend != nil {
		bc = c.WrapBackend(bc)
	}
	e.ReadOps = operations.NewOperations(bc, mc, pc, c.CryptoRead, func(*config.HeaderEvent) {})
	if !c.NoWriteOps {
		e.WriteOp = operations.NewOperations(bc, mc, pc, c.Crypto, func(*config.HeaderEvent) {})
	}
	ct := c.CacheType
	if ct == "" {
		ct = config.WriteCacheTypeFile
	}
	lvl := c.Level
	if lvl == "" {
		lvl = config.CompressionLevelFastestKey
	}
	e.FS = fs.NewSTFS(e.ReadOps, e.WriteOp, mc, lvl, func() (cache.WriteCache, func() error, error) {
		return cache.NewCacheWrite(filepath.Join(dir, "wc"), ct)
	}, c.ReadOnly, c.WPIRP, func(*config.Header) {}, NopLogger{})
	return e, nil
}

// NewEnvSharing builds a second STFS instance over the same drive manager and index as e (as
// a server process that hands a read-only and a writable view to different clients does).
func NewEnvSharing(e *Env, readOnly bool) (*Env, error) {
	c := e.Cfg
	c.ReadOnly = readOnly
	n := &Env{Cfg: c, Dir: e.Dir, Drive: e.Drive, DBPath: e.DBPath, TM: e.TM, MP: e.MP}
	mt := mtio.MagneticTapeIO{}
	mc := config.MetadataConfig{Metadata: n.MP}
	pc := config.PipeConfig{RecordSize: c.RS, Compression: c.Compression, Encryption: c.Encryption, Signature: c.Signature}
	bc := config.BackendConfig{GetWriter: n.TM.GetWriter, CloseWriter: n.TM.Close, GetReader: n.TM.GetReader, CloseReader: n.TM.Close, MagneticTapeIO: mt}
	n.ReadOps = operations.NewOperations(bc, mc, pc, c.CryptoRead, func(*config.HeaderEvent) {})
	n.WriteOp = operations.NewOperations(bc, mc, pc, c.Crypto, func(*config.HeaderEvent) {})
	n.FS = fs.NewSTFS(n.ReadOps, n.WriteOp, mc, config.CompressionLevelFastestKey, func() (cache.WriteCache, func() error, error) {
		return cache.NewCacheWrite(filepath.Join(e.Dir, "wc2"), config.WriteCacheTypeFile)
	}, readOnly, c.WPIRP, func(*config.Header) {}, NopLogger{})
	return n, nil
}

// Close releases the read-only observer connection (the instance itself has no Close).
func (e *Env) Close() {
	if e.ro != nil {
		e.ro.Close()
		e.ro = nil
	}
}

// Shutdown is Close for an instance that will not be used again: it also closes the
// persister's own database connection (the project gives it no Close; streams that build
// thousands of short-lived instances would otherwise run out of file descriptors).
func (e *Env) Shutdown() {
	e.Close()
	defer func() { recover() }()
	v := reflect.ValueOf(e.MP).Elem().FieldByName("sqlite")
	if !v.IsValid() || v.IsNil() {
		return
	}
	db := v.Elem().FieldByName("DB")
	if !db.IsValid() || db.IsNil() {
		return
	}
	if c, ok := reflect.NewAt(db.Type(), unsafe.Pointer(db.UnsafeAddr())).Elem().Interface().(*sql.DB); ok && c != nil {
		c.Close()
	}
}

// ---- canonical encodings shared with the Lean driver ----

func EncName(s string) string {
	if s == "" {
		return "-"
	}
	parts := []string{}
	for _, r := range s {
		parts = append(parts, strconv.FormatInt(int64(r), 16))
	}
	return strings.Join(parts, ".")
}

func DecName(s string) string {
	if s == "-" || s == "" {
		return ""
	}
	var b strings.Builder
	for _, p := range strings.Split(s, ".") {
		v, _ := strconv.ParseInt(p, 16, 32)
		b.WriteRune(rune(v))
	}
	return b.String()
}

func EncPax(m map[string]string) string {
	keys := []string{}
	for k := range m {
		// signatures and the encrypted-header wrapper are random per record: not compared
		if strings.HasPrefix(k, "STFS.") && k != "STFS.Signature" && k != "STFS.EmbeddedHeader" {
			keys = append(keys, k)
		}
	}
	if len(keys) == 0 {
		return "-"
	}
	sort.Strings(keys)
	out := []string{}
	for _, k := range keys {
		out = append(out, EncName(k)+"="+EncName(m[k]))
	}
	return strings.Join(out, ",")
}

// TimeInt encodes a time as UnixNano, the zero time as 0.
func TimeInt(t time.Time) int64 {
	if t.IsZero() {
		return 0
	}
	return t.UnixNano()
}

// ClassOf maps an error to the small enum of the model.
func ClassOf(err error) string {
	switch {
	case err == nil:
		return "ok"
	case errors.Is(err, ErrStuck):
		return "stuck"
	case errors.Is(err, os.ErrNotExist):
		return "notexist"
	case errors.Is(err, os.ErrExist):
		return "exist"
	case errors.Is(err, os.ErrPermission):
		return "permission"
	case errors.Is(err, os.ErrInvalid):
		return "invalid"
	case errors.Is(err, config.ErrIsDirectory):
		return "isdir"
	case errors.Is(err, config.ErrIsFile):
		return "isfile"
	case errors.Is(err, config.ErrDirectoryNotEmpty):
		return "notempty"
	case errors.Is(err, sql.ErrNoRows):
		return "norows"
	case errors.Is(err, config.ErrTarHeaderMissing):
		return "hdrmissing"
	case errors.Is(err, config.ErrNoRootDirectory):
		return "noroot"
	case errors.Is(err, config.ErrNotImplemented):
		return "notimpl"
	case errors.Is(err, config.ErrSTFSActionUnsupported):
		return "badaction"
	case errors.Is(err, config.ErrSTFSVersionUnsupported):
		return "badversion"
	case errors.Is(err, io.ErrUnexpectedEOF):
		return "ueof"
	case errors.Is(err, os.ErrClosed), strings.Contains(err.Error(), "file already closed"):
		return "closed"
	case strings.Contains(err.Error(), "UNIQUE constraint failed"):
		return "unique"
	}
	return "other"
}

var ErrStuck = errors.New("call did not return (watchdog)")

// ---- observation of the index ----

func (e *Env) roDB() (*sql.DB, error) {
	if e.ro == nil {
		db, err := sql.Open("sqlite", "file:"+e.DBPath+"?mode=ro")
		if err != nil {
			return nil, err
		}
		e.ro = db
	}
	return e.ro, nil
}

// RowLines dumps all rows (tombstones included) in rowid order in the protocol's format.
func (e *Env) RowLines() ([]string, error) {
	db, err := e.roDB()
	if err != nil {
		return nil, err
	}
	rows, err := db.Query(`select name, linkname, typeflag, size, record, block, lastknownrecord, lastknownblock, deleted, mode, uid, gid, uname, gname, modtime, accesstime, changetime, paxrecords from headers order by rowid`)
	if err != nil {
		return nil, err
	}
	defer rows.Close()
	out := []string{}
	for rows.Next() {
		var name, linkname, uname, gname, pax string
		var tf, size, rec, blk, lkr, lkb, del, mode, uid, gid int64
		var mt, at, ct time.Time
		if err := rows.Scan(&name, &linkname, &tf, &size, &rec, &blk, &lkr, &lkb, &del, &mode, &uid, &gid, &uname, &gname, &mt, &at, &ct, &pax); err != nil {
			return nil, err
		}
		pm := map[string]string{}
		_ = jsonUnmarshal(pax, &pm)
		out = append(out, strings.Join([]string{"row", EncName(name), EncName(linkname), fmt.Sprint(tf), fmt.Sprint(size),
			fmt.Sprint(rec), fmt.Sprint(blk), fmt.Sprint(lkr), fmt.Sprint(lkb), fmt.Sprint(del),
			fmt.Sprint(mode), fmt.Sprint(uid), fmt.Sprint(gid), EncName(uname), EncName(gname),
			fmt.Sprint(TimeInt(mt)), fmt.Sprint(TimeInt(at)), fmt.Sprint(TimeInt(ct)), EncPax(pm)}, "\t"))
	}
	return out, rows.Err()
}

// RootLine reads the persister's two cached fields without calling any of its methods.
func (e *Env) RootLine() string {
	v := reflect.ValueOf(e.MP).Elem()
	root := v.FieldByName("root").String()
	rie := v.FieldByName("rootIsEmptyString").Bool()
	b := "0"
	if rie {
		b = "1"
	}
	return "root\t" + EncName(root) + "\t" + b
}

// RootCache reads the persister's two cached fields; SetRootCache writes them back.  The
// harness uses the pair to make its own observation walks (Stat/Readdir/Open through the
// public API, which fill that cache as a side effect) invisible to the history under test.
func (e *Env) RootCache() (string, bool) {
	v := reflect.ValueOf(e.MP).Elem()
	return v.FieldByName("root").String(), v.FieldByName("rootIsEmptyString").Bool()
}

func (e *Env) SetRootCache(root string, isEmpty bool) {
	v := reflect.ValueOf(e.MP).Elem()
	f1 := v.FieldByName("root")
	reflect.NewAt(f1.Type(), unsafe.Pointer(f1.UnsafeAddr())).Elem().SetString(root)
	f2 := v.FieldByName("rootIsEmptyString")
	reflect.NewAt(f2.Type(), unsafe.Pointer(f2.UnsafeAddr())).Elem().SetBool(isEmpty)
}

// ---- observation of the tape ----

// TapeItem is what the independent block scanner finds at a block offset.
type TapeItem struct {
	Block      int64
	Trailer    bool
	HB         int64 // header blocks
	DataBlocks int64
	Stored     int64
	Hdr        *tar.Header
}

type countingReader struct {
	r io.Reader
	n int64
}

func (c *countingReader) Read(p []byte) (int, error) {
	n, err := c.r.Read(p)
	c.n += int64(n)
	return n, err
}

// ScanTape lists every item from block offset `from` to the end of the drive file.  It is
// independent of pkg/recovery: one archive/tar reader per block offset.
func ScanTape(path string, from int64) (items []TapeItem, blocks int64, err error) {
	f, err := os.Open(path)
	if err != nil {
		if os.IsNotExist(err) {
			return nil, 0, nil
		}
		return nil, 0, err
	}
	defer f.Close()
	st, err := f.Stat()
	if err != nil {
		return nil, 0, err
	}
	size := st.Size()
	blocks = (size + 511) / 512
	b := from
	for b*512 < size {
		if _, err := f.Seek(b*512, io.SeekStart); err != nil {
			return nil, blocks, err
		}
		buf := make([]byte, 1024)
		n, _ := io.ReadFull(f, buf)
		if n >= 512 && allZero(buf[:512]) {
			if n == 1024 && allZero(buf[512:]) {
				items = append(items, TapeItem{Block: b, Trailer: true})
				b += 2
				continue
			}
			// a lone zero block
			items = append(items, TapeItem{Block: b, Trailer: true, HB: 1})
			b++
			continue
		}
		if _, err := f.Seek(b*512, io.SeekStart); err != nil {
			return nil, blocks, err
		}
		cr := &countingReader{r: f}
		tr := tar.NewReader(cr)
		hdr, err := tr.Next()
		if err != nil {
			// unparsable block: report and skip one block
			items = append(items, TapeItem{Block: b, HB: -1})
			b++
			continue
		}
		hb := cr.n / 512
		db := (hdr.Size + 511) / 512
		items = append(items, TapeItem{Block: b, HB: hb, DataBlocks: db, Stored: hdr.Size, Hdr: hdr})
		b += hb + db
	}
	return items, blocks, nil
}

func allZero(b []byte) bool {
	for _, x := range b {
		if x != 0 {
			return false
		}
	}
	return true
}

// ItemLines renders scanned items in the protocol's format; plain is the decoded header to
// show for each record (identity when nothing is encrypted).
func ItemLines(items []TapeItem, plain func(*tar.Header) *tar.Header) []string {
	out := []string{}
	for _, it := range items {
		switch {
		case it.Trailer && it.HB == 0:
			out = append(out, fmt.Sprintf("trl\t%d", it.Block))
		case it.Trailer:
			out = append(out, fmt.Sprintf("zero\t%d", it.Block))
		case it.HB < 0:
			out = append(out, fmt.Sprintf("junk\t%d", it.Block))
		default:
			h := it.Hdr
			if plain != nil {
				h = plain(h)
			}
			out = append(out, strings.Join([]string{"rec", fmt.Sprint(it.Block), fmt.Sprint(it.HB), fmt.Sprint(it.DataBlocks),
				fmt.Sprint(int64(h.Typeflag)), EncName(h.Name), EncName(h.Linkname), fmt.Sprint(h.Size), EncPax(h.PAXRecords)}, "\t"))
		}
	}
	return out
}

// Replay runs recovery.Index over the whole tape into the instance's index, as
// `stfs recovery index` does (overwrite=false by default).
func Replay(e *Env, overwrite bool) error {
	// barrier: a streaming read's goroutine releases the drive a moment after its reader saw
	// EOF; Restore takes the same operation lock first, so returning from it means that is over
	_ = e.ReadOps.Restore(nil, nil, "/\x01 no such entry", "", true)
	reader, err := e.TM.GetReader()
	if err != nil {
		return err
	}
	defer e.TM.Close()
	pc := config.PipeConfig{RecordSize: e.Cfg.RS, Compression: e.Cfg.Compression, Encryption: e.Cfg.Encryption, Signature: e.Cfg.Signature}
	return recovery.Index(reader, mtio.MagneticTapeIO{}, config.MetadataConfig{Metadata: e.MP}, pc, e.Cfg.CryptoRead,
		0, 0, overwrite, false, 0,
		func(hdr *tar.Header, i int) error {
			return encryption.DecryptHeader(hdr, e.Cfg.Encryption, e.Cfg.CryptoRead.Identity)
		},
		func(hdr *tar.Header, isRegular bool) error {
			return signature.VerifyHeader(hdr, isRegular, e.Cfg.Signature, e.Cfg.CryptoRead.Recipient)
		},
		func(hdr *config.Header) {})
}
