package h

import (
	"bytes"
	"fmt"
	"io"
	"os"
	"os/exec"
	"path/filepath"
	"strconv"
	"strings"
)

type nopCloser struct{ w io.Writer }

func (n nopCloser) Write(p []byte) (int, error) { return n.w.Write(p) }
func (n nopCloser) Close() error                { return nil }

// RebuildCut copies the drive cut at byte c, rebuilds an index from it with the real
// recovery.Index (overwrite, real callbacks) under the watchdog and returns the result class,
// the resulting rows, and — as the C06 oracle — what is wrong with them compared with the
// rebuild of the tape cut at the last complete item boundary before c.
func RebuildCut(dir string, e *Env, c int64, tag int) (string, []string, []string) {
	sub := filepath.Join(dir, fmt.Sprintf("cut%d", tag))
	os.MkdirAll(sub, 0o755)
	defer os.RemoveAll(sub)
	data, _ := os.ReadFile(e.Drive)
	if c > int64(len(data)) {
		c = int64(len(data))
	}
	rebuild := func(n int64, name string) (string, []string, *Env) {
		drive := filepath.Join(sub, name+".tar")
		os.WriteFile(drive, data[:n], 0o644)
		e2, err := NewEnvAt(sub, drive, filepath.Join(sub, name+".sqlite"), e.Cfg)
		if err != nil {
			return "other", nil, nil
		}
		s2 := NewSession(e2)
		var rerr error
		if !s2.Guard(func() { rerr = Replay(e2, true) }) {
			return "stuck", nil, e2
		}
		rows, _ := e2.RowLines()
		return ClassOf(rerr), rows, e2
	}
	res, rows, e2 := rebuild(c, "cut")
	if e2 != nil {
		defer e2.Shutdown()
	}
	var msgs []string
	if res == "stuck" {
		return res, rows, []string{fmt.Sprintf("rebuilding the tape cut at byte %d did not terminate", c)}
	}
	// the last complete item boundary at or before c, by the independent scanner on the full tape
	items, _, _ := ScanTape(e.Drive, 0)
	boundary := int64(0)
	var torn *TapeItem
	for k := range items {
		it := items[k]
		blocks := int64(2)
		if !it.Trailer {
			blocks = it.HB + it.DataBlocks
		} else if it.HB == 1 {
			blocks = 1
		}
		end := (it.Block + blocks) * 512
		if end <= c {
			boundary = end
		} else {
			if !it.Trailer && c > it.Block*512 {
				torn = &items[k]
			}
			break
		}
	}
	bres, brows, e3 := rebuild(boundary, "boundary")
	if e3 != nil {
		defer e3.Shutdown()
	}
	if bres != "ok" {
		return res, rows, msgs // the complete prefix itself does not rebuild: other properties' business
	}
	tornName := ""
	contentCut := false
	if torn != nil && torn.Hdr != nil {
		tornName = torn.Hdr.Name
		contentCut = c >= (torn.Block+torn.HB)*512 && c < (torn.Block+torn.HB)*512+torn.Stored
	}
	if (res != "ok") != contentCut {
		if contentCut {
			msgs = append(msgs, fmt.Sprintf("cut at byte %d inside the content of %q but the rebuild reported no error", c, tornName))
		} else {
			msgs = append(msgs, fmt.Sprintf("cut at byte %d (not inside content) but the rebuild failed: %s", c, res))
		}
	}
	// every row other than the torn record's own must be exactly as in the rebuild of the complete prefix
	key := func(l string) string { f := strings.Split(l, "\t"); return f[1] + "\x00" + f[2] }
	want := map[string]string{}
	for _, l := range brows {
		want[key(l)] = l
	}
	got := map[string]string{}
	for _, l := range rows {
		got[key(l)] = l
	}
	tornKeys := func(l string) bool {
		if tornName == "" {
			return false
		}
		n := DecName(strings.Split(l, "\t")[1])
		base := strings.TrimPrefix(tornName, "/")
		replaces := ""
		if torn.Hdr.PAXRecords != nil {
			replaces = strings.TrimPrefix(torn.Hdr.PAXRecords["STFS.ReplacesName"], "/")
		}
		n = strings.TrimPrefix(n, "/")
		return n == base || (replaces != "" && n == replaces)
	}
	for k, l := range want {
		g, ok := got[k]
		if (!ok || g != l) && !tornKeys(l) {
			msgs = append(msgs, fmt.Sprintf("cut at byte %d: entry %q differs from the state after the last complete record", c, DecName(strings.Split(l, "\t")[1])))
			break
		}
	}
	if tornName != "" {
		action := ""
		if torn.Hdr.PAXRecords != nil {
			action = torn.Hdr.PAXRecords["STFS.Action"]
		}
		// the torn entry itself: it may show the torn record's metadata, but it must not vanish
		for _, l := range brows {
			f := strings.Split(l, "\t")
			if !tornKeys(l) || f[9] == "1" || action == "DELETE" {
				continue
			}
			if torn.Hdr.PAXRecords["STFS.ReplacesName"] != "" {
				continue
			}
			g, ok := got[key(l)]
			if !ok || strings.Split(g, "\t")[9] == "1" {
				msgs = append(msgs, fmt.Sprintf("cut at byte %d inside the record of %q: the entry vanished from the rebuilt index although an older complete version is on the tape", c, tornName))
			}
		}
		// restoring the torn entry must report an error rather than return wrong data
		if contentCut && e2 != nil {
			var buf bytes.Buffer
			var rerr error
			s3 := NewSession(e2)
			name := strings.TrimSuffix(tornName, filepath.Ext(""))
			ok := s3.Guard(func() {
				rerr = e2.ReadOps.Restore(func(string, os.FileMode) (io.WriteCloser, error) { return nopCloser{&buf}, nil },
					func(string, os.FileMode) error { return nil }, name, "", true)
			})
			if !ok {
				msgs = append(msgs, fmt.Sprintf("cut at byte %d: restoring the torn entry %q did not return", c, tornName))
			} else if rerr == nil && int64(buf.Len()) != torn.Stored {
				msgs = append(msgs, fmt.Sprintf("cut at byte %d: restoring the torn entry %q reported no error but returned %d of %d bytes", c, tornName, buf.Len(), torn.Stored))
			}
		}
	}
	for k, l := range got {
		if _, ok := want[k]; !ok && !tornKeys(l) {
			msgs = append(msgs, fmt.Sprintf("cut at byte %d: unexpected entry %q", c, DecName(strings.Split(l, "\t")[1])))
			break
		}
	}
	return res, rows, msgs
}

// CfgLine renders the instance configuration for the Lean driver.
func CfgLine(c Cfg) string {
	uid, gid, uname, gname := User()
	b := func(x bool) string {
		if x {
			return "1"
		}
		return "0"
	}
	return strings.Join([]string{"cfg", fmt.Sprintf("rs=%d", c.RS), "comp=" + EncName(c.Compression), "enc=" + EncName(c.Encryption),
		"sig=" + EncName(c.Signature), "ro=" + b(c.ReadOnly), "wpirp=" + b(c.WPIRP), fmt.Sprintf("uid=%d", uid), fmt.Sprintf("gid=%d", gid),
		"uname=" + EncName(uname), "gname=" + EncName(gname)}, "\t")
}

// Step is everything observed around one call on the implementation.
type Step struct {
	Call  Call
	Env   string   // env line handed to the model
	Obs   []string // res, rows, recs, root, blocks
	Tree  []string // tree walk through the public API (nil when not taken)
	TreeE string   // error of the tree walk, if any
	Res   string   // result class
	// Directive: an event around the instance (observations are self-contained)
	Directive bool
	// LateWedge: the call returned, but the instance turned out to be wedged afterwards.
	LateWedge bool
	// OracleMsgs collects "<property>\x00<message>" from the oracles that ran after this call.
	OracleMsgs []string
}

// History is one executed history.
type History struct {
	ID    string
	Cfg   Cfg
	Steps []Step
	// Hook, when set, runs after every call with the live session (oracles use it).
	Wedged bool
}

// CompleteBlocks is the number of blocks covered by complete items from the start of the drive.
func CompleteBlocks(drive string) int64 {
	its, _, _ := ScanTape(drive, 0)
	fi, err := os.Stat(drive)
	if err != nil {
		return 0
	}
	blocks := int64(0)
	for _, it := range its {
		if it.HB < 0 {
			break
		}
		nb := it.HB + it.DataBlocks
		if it.Trailer {
			nb = 2
			if it.HB == 1 {
				break
			}
		}
		if (it.Block+nb)*512 > fi.Size() {
			break
		}
		blocks = it.Block + nb
	}
	return blocks
}

// RunHistory executes calls on a fresh instance in dir, observing after every call.
// after(step index, session) is called after each call's observation (may be nil).
func RunHistory(dir string, c Cfg, id string, next func() (Call, bool), wantTree bool, after func(i int, s *Session, st *Step)) (*History, error) {
	return RunHistoryB(dir, c, id, next, wantTree, after, nil)
}

// RunHistoryB is RunHistory with a hook that runs before every call (with the env lines and
// call lines of the history so far), used for crash attribution.
func RunHistoryB(dir string, c Cfg, id string, next func() (Call, bool), wantTree bool, after func(i int, s *Session, st *Step),
	before func(i int, call Call, sofar []string)) (*History, error) {
	e, err := NewEnv(dir, c)
	if err != nil {
		return nil, err
	}
	defer func() { e.Shutdown() }()
	s := NewSession(e)
	hist := &History{ID: id, Cfg: c}
	prevBlocks := int64(0)
	var snapshot []byte
	var foreignItems []string
	for i := 0; ; i++ {
		call, ok := next()
		if !ok {
			break
		}
		if strings.HasPrefix(call.Method, "@") {
			// directives: not calls on the instance but events around it
			switch call.Method {
			case "@rebuildcut":
				// a from-scratch rebuild of a copy of the drive cut at the given byte
				st := Step{Call: call, Env: "env\tnow=0\trecs=-"}
				c, _ := strconv.ParseInt(call.Args[0], 10, 64)
				res, rows, msgs := RebuildCut(dir, e, c, i)
				st.Res = res
				st.Obs = append([]string{"res\t" + res}, rows...)
				for _, m := range msgs {
					st.OracleMsgs = append(st.OracleMsgs, "C06\x00"+m)
				}
				st.Directive = true
				hist.Steps = append(hist.Steps, st)
				continue
			case "@cuttape":
				// a crash: the drive keeps only its first c bytes
				c, _ := strconv.ParseInt(call.Args[0], 10, 64)
				os.Truncate(e.Drive, c)
				prevBlocks = 0
			case "@snapshot":
				e.Close()
				snapshot, _ = os.ReadFile(e.DBPath)
			case "@foreign":
				// the drive becomes an archive written by a standard tar writer; a fresh process
				// with an empty index opens it
				spec, perr := ParseForeign(call.Args)
				if perr != nil {
					return nil, perr
				}
				e.Shutdown()
				os.Remove(e.Drive)
				if werr := WriteForeign(e.Drive, spec); werr != nil {
					return nil, fmt.Errorf("@foreign: %w", werr)
				}
				ne, err := NewEnvAt(dir, e.Drive, e.DBPath+fmt.Sprintf(".%d", i), c)
				if err != nil {
					return nil, err
				}
				e = ne
				defer ne.Shutdown()
				s = NewSession(e)
				items, _, serr := ScanTape(e.Drive, 0)
				if serr != nil {
					return nil, serr
				}
				foreignItems = ForeignItemLines(items, spec)
				prevBlocks = CompleteBlocks(e.Drive)
			case "@reopen":
				// a fresh process over the same drive: new managers, new persister, no handles
				e.Shutdown()
				mode := "keep"
				nc := c
				for _, a := range call.Args {
					switch {
					case strings.HasPrefix(a, "index="):
						mode = strings.TrimPrefix(a, "index=")
					case a == "ro=1":
						nc.ReadOnly = true
					case a == "ro=0":
						nc.ReadOnly = false
					case a == "nowrite=1":
						nc.NoWriteOps = true
					}
				}
				db := e.DBPath + fmt.Sprintf(".%d", i)
				switch mode {
				case "keep":
					data, _ := os.ReadFile(e.DBPath)
					os.WriteFile(db, data, 0o644)
				case "snap":
					os.WriteFile(db, snapshot, 0o644)
				case "drop":
				}
				ne, err := NewEnvAt(dir, e.Drive, db, nc)
				if err != nil {
					return nil, err
				}
				e = ne
				defer ne.Shutdown()
				s = NewSession(e)
				c = nc
			}
			st := Step{Call: call, Res: "ok", Env: "env\tnow=0\trecs=-"}
			if call.Method == "@foreign" {
				// the driver learns the archive's items (as read by the harness's own tar reader)
				st.Env = strings.Join(append(foreignItems, st.Env), "\n")
			}
			st.Obs = append(st.Obs, "res\tok")
			rows, err := e.RowLines()
			if err != nil {
				return nil, err
			}
			st.Obs = append(st.Obs, rows...)
			// only whole items count for the model; a torn tail is not an item
			blocks := CompleteBlocks(e.Drive)
			if call.Method == "@cuttape" {
				prevBlocks = blocks
			}
			st.Obs = append(st.Obs, e.RootLine(), fmt.Sprintf("blocks\t%d", blocks))
			st.Directive = true
			if after != nil {
				s.Guard(func() { after(i, s, &st) })
			}
			hist.Steps = append(hist.Steps, st)
			continue
		}
		if before != nil {
			sofar := []string{}
			for _, ps := range hist.Steps {
				sofar = append(sofar, ps.Env, ps.Call.Line())
			}
			before(i, call, sofar)
		}
		res := s.Exec(call)
		st := Step{Call: call, Res: strings.TrimPrefix(strings.SplitN(res+"\t", "\t", 3)[1], "")}
		var items []TapeItem
		var blocks int64
		if !s.Wedged {
			items, blocks, err = ScanTape(e.Drive, prevBlocks)
			if err != nil {
				return nil, err
			}
			// a torn tail (after a simulated crash) is not an item: keep the complete ones only
			if cb := CompleteBlocks(e.Drive); cb < blocks {
				keep := items[:0:0]
				for _, it := range items {
					nb := it.HB + it.DataBlocks
					if it.Trailer {
						nb = 2
					}
					if it.HB < 0 || (it.Trailer && it.HB == 1) || it.Block+nb > cb {
						break
					}
					keep = append(keep, it)
				}
				items = keep
				blocks = cb
			}
		}
		st.Env = EnvLine(items, e.Cfg.PlainHeader)
		st.Obs = append(st.Obs, res)
		if !s.Wedged {
			rows, err := e.RowLines()
			if err != nil {
				return nil, err
			}
			st.Obs = append(st.Obs, rows...)
			st.Obs = append(st.Obs, ItemLines(items, e.Cfg.PlainHeader)...)
			st.Obs = append(st.Obs, e.RootLine(), fmt.Sprintf("blocks\t%d", blocks))
			prevBlocks = blocks
			if wantTree && len(s.Streaming) == 0 {
				if !s.Guard(func() {
					t, terr := s.TreeLines()
					if terr != nil {
						st.TreeE = terr.Error()
					}
					st.Tree = t
				}) {
					st.TreeE = "stuck"
					st.Tree = nil
				}
			}
		}
		// a call may return normally and still leave the drive locked (the watchdog then fires
		// on the observation, not on the call): the history ends here as well
		if after != nil && !s.Wedged && len(s.Streaming) == 0 {
			s.Guard(func() { after(i, s, &st) })
		}
		if !s.Wedged {
			// the observation walks above went through the public API and filled the persister's
			// root cache as a side effect: put back what the call under test left there
			if len(st.Obs) >= 2 {
				for _, l := range st.Obs {
					if strings.HasPrefix(l, "root\t") {
						f := strings.Split(l, "\t")
						e.SetRootCache(DecName(f[1]), f[2] == "1")
					}
				}
			}
		}
		st.LateWedge = s.Wedged && st.Res != "stuck"
		hist.Steps = append(hist.Steps, st)
		if s.Wedged {
			hist.Wedged = true
			break
		}
	}
	return hist, nil
}

// DriverInput renders the histories for the Lean driver.
func DriverInput(hs []*History) []byte {
	var b bytes.Buffer
	for _, h := range hs {
		b.WriteString(CfgLine(h.Cfg) + "\n")
		b.WriteString("hist\t" + h.ID + "\n")
		for _, st := range h.Steps {
			b.WriteString(st.Env + "\n")
			b.WriteString(st.Call.Line() + "\n")
		}
	}
	return b.Bytes()
}

// ModelStep is the model's output for one call.
type ModelStep struct {
	Unmodelled bool
	Obs        []string
	RefRes     string
	Tree       []string
	Trig       []string
	Br         []string
}

// RunDriver pipes the histories through the compiled Lean driver and parses its output.
func RunDriver(driver string, hs []*History) (map[string][]ModelStep, error) {
	cmd := exec.Command(driver)
	cmd.Stdin = bytes.NewReader(DriverInput(hs))
	var out, errb bytes.Buffer
	cmd.Stdout = &out
	cmd.Stderr = &errb
	if err := cmd.Run(); err != nil {
		return nil, fmt.Errorf("driver: %v: %s", err, errb.String())
	}
	res := map[string][]ModelStep{}
	cur := ""
	var ms *ModelStep
	for _, line := range strings.Split(out.String(), "\n") {
		switch {
		case strings.HasPrefix(line, "hist\t"):
			cur = strings.TrimPrefix(line, "hist\t")
			res[cur] = nil
		case strings.HasPrefix(line, "call\t"):
			ms = &ModelStep{}
		case line == "end":
			if ms != nil {
				res[cur] = append(res[cur], *ms)
				ms = nil
			}
		case ms == nil:
		case line == "unmodelled":
			ms.Unmodelled = true
		case strings.HasPrefix(line, "refres\t"):
			ms.RefRes = strings.TrimPrefix(line, "refres\t")
		case strings.HasPrefix(line, "tree\t"):
			ms.Tree = append(ms.Tree, line)
		case strings.HasPrefix(line, "trig\t"):
			ms.Trig = append(ms.Trig, strings.Split(strings.TrimPrefix(line, "trig\t"), "\t")...)
		case strings.HasPrefix(line, "br\t"):
			ms.Br = append(ms.Br, strings.Split(strings.TrimPrefix(line, "br\t"), "\t")...)
		default:
			ms.Obs = append(ms.Obs, line)
		}
	}
	return res, nil
}

// Mismatch is the first place where model and implementation differ in one history.
type Mismatch struct {
	Hist  string   `json:"hist"`
	Step  int      `json:"step"`
	Kind  string   `json:"kind"`
	Impl  []string `json:"impl"`
	Model []string `json:"model"`
	Calls []string `json:"calls"`
}

func eqLines(a, b []string) bool {
	if len(a) != len(b) {
		return false
	}
	for i := range a {
		if a[i] != b[i] {
			return false
		}
	}
	return true
}

// CompareCorr returns the first step at which the observations differ, or nil.
func CompareCorr(h *History, m []ModelStep) *Mismatch {
	calls := func(n int) []string {
		out := []string{}
		for i := 0; i <= n && i < len(h.Steps); i++ {
			out = append(out, h.Steps[i].Env, h.Steps[i].Call.Line())
		}
		return out
	}
	for i, st := range h.Steps {
		if i >= len(m) {
			return &Mismatch{Hist: h.ID, Step: i, Kind: "corr-missing", Calls: calls(i)}
		}
		if m[i].Unmodelled {
			return nil // the model has given up on the rest of this history (stated region)
		}
		impl := st.Obs
		model := m[i].Obs
		if h.Wedged && i == len(h.Steps)-1 && !st.LateWedge {
			// only the result class is observable on a wedged instance
			if len(model) > 0 {
				model = model[:1]
			}
		}
		if !eqLines(impl, model) {
			return &Mismatch{Hist: h.ID, Step: i, Kind: "corr", Impl: impl, Model: model, Calls: calls(i)}
		}
	}
	return nil
}

func WriteLines(path string, lines []string) error {
	return os.WriteFile(path, []byte(strings.Join(lines, "\n")+"\n"), 0o644)
}
