package h

import (
	"bytes"
	"fmt"
	"os"
	"os/exec"
	"strings"
)

// CfgLine renders the instance configuration for the Lean driver.
func CfgLine(c Cfg) string {
	uid, gid, uname, gname := User()
	b := func(x bool) string {
		if x {
			return "1"
		}
		return "0"
	}
	return strings.Join([]string{"cfg", fmt.Sprintf("rs=%d", c.RS), "comp=" + EncName(c.Compression), "enc=" + EncName(c.Encryption),
		"sig=" + EncName(c.Signature), "ro=" + b(c.ReadOnly), "wpirp=" + b(c.WPIRP), fmt.Sprintf("uid=%d", uid), fmt.Sprintf("gid=%d", gid),
		"uname=" + EncName(uname), "gname=" + EncName(gname)}, "\t")
}

// Step is everything observed around one call on the implementation.
type Step struct {
	Call  Call
	Env   string   // env line handed to the model
	Obs   []string // res, rows, recs, root, blocks
	Tree  []string // tree walk through the public API (nil when not taken)
	TreeE string   // error of the tree walk, if any
	Res   string   // result class
	// LateWedge: the call returned, but the instance turned out to be wedged afterwards.
	LateWedge bool
	// OracleMsgs collects "<property>\x00<message>" from the oracles that ran after this call.
	OracleMsgs []string
}

// History is one executed history.
type History struct {
	ID    string
	Cfg   Cfg
	Steps []Step
	// Hook, when set, runs after every call with the live session (oracles use it).
	Wedged bool
}

// RunHistory executes calls on a fresh instance in dir, observing after every call.
// after(step index, session) is called after each call's observation (may be nil).
func RunHistory(dir string, c Cfg, id string, next func() (Call, bool), wantTree bool, after func(i int, s *Session, st *Step)) (*History, error) {
	return RunHistoryB(dir, c, id, next, wantTree, after, nil)
}

// RunHistoryB is RunHistory with a hook that runs before every call (with the env lines and
// call lines of the history so far), used for crash attribution.
func RunHistoryB(dir string, c Cfg, id string, next func() (Call, bool), wantTree bool, after func(i int, s *Session, st *Step),
	before func(i int, call Call, sofar []string)) (*History, error) {
	e, err := NewEnv(dir, c)
	if err != nil {
		return nil, err
	}
	defer e.Close()
	s := NewSession(e)
	hist := &History{ID: id, Cfg: c}
	prevBlocks := int64(0)
	var snapshot []byte
	for i := 0; ; i++ {
		call, ok := next()
		if !ok {
			break
		}
		if strings.HasPrefix(call.Method, "@") {
			// directives: not calls on the instance but events around it
			switch call.Method {
			case "@snapshot":
				e.Close()
				snapshot, _ = os.ReadFile(e.DBPath)
			case "@reopen":
				// a fresh process over the same drive: new managers, new persister, no handles
				e.Close()
				mode := "keep"
				nc := c
				for _, a := range call.Args {
					switch {
					case strings.HasPrefix(a, "index="):
						mode = strings.TrimPrefix(a, "index=")
					case a == "ro=1":
						nc.ReadOnly = true
					case a == "ro=0":
						nc.ReadOnly = false
					case a == "nowrite=1":
						nc.NoWriteOps = true
					}
				}
				db := e.DBPath + fmt.Sprintf(".%d", i)
				switch mode {
				case "keep":
					data, _ := os.ReadFile(e.DBPath)
					os.WriteFile(db, data, 0o644)
				case "snap":
					os.WriteFile(db, snapshot, 0o644)
				case "drop":
				}
				ne, err := NewEnvAt(dir, e.Drive, db, nc)
				if err != nil {
					return nil, err
				}
				e = ne
				defer ne.Close()
				s = NewSession(e)
				c = nc
			}
			st := Step{Call: call, Res: "ok", Env: "env\tnow=0\trecs=-"}
			st.Obs = append(st.Obs, "res\tok")
			rows, err := e.RowLines()
			if err != nil {
				return nil, err
			}
			st.Obs = append(st.Obs, rows...)
			_, blocks, _ := ScanTape(e.Drive, prevBlocks)
			st.Obs = append(st.Obs, e.RootLine(), fmt.Sprintf("blocks\t%d", blocks))
			hist.Steps = append(hist.Steps, st)
			continue
		}
		if before != nil {
			sofar := []string{}
			for _, ps := range hist.Steps {
				sofar = append(sofar, ps.Env, ps.Call.Line())
			}
			before(i, call, sofar)
		}
		res := s.Exec(call)
		st := Step{Call: call, Res: strings.TrimPrefix(strings.SplitN(res+"\t", "\t", 3)[1], "")}
		var items []TapeItem
		var blocks int64
		if !s.Wedged {
			items, blocks, err = ScanTape(e.Drive, prevBlocks)
			if err != nil {
				return nil, err
			}
		}
		st.Env = EnvLine(items)
		st.Obs = append(st.Obs, res)
		if !s.Wedged {
			rows, err := e.RowLines()
			if err != nil {
				return nil, err
			}
			st.Obs = append(st.Obs, rows...)
			st.Obs = append(st.Obs, ItemLines(items, nil)...)
			st.Obs = append(st.Obs, e.RootLine(), fmt.Sprintf("blocks\t%d", blocks))
			prevBlocks = blocks
			if wantTree {
				if !s.Guard(func() {
					t, terr := s.TreeLines()
					if terr != nil {
						st.TreeE = terr.Error()
					}
					st.Tree = t
				}) {
					st.TreeE = "stuck"
					st.Tree = nil
				}
			}
		}
		// a call may return normally and still leave the drive locked (the watchdog then fires
		// on the observation, not on the call): the history ends here as well
		if after != nil && !s.Wedged {
			s.Guard(func() { after(i, s, &st) })
		}
		st.LateWedge = s.Wedged && st.Res != "stuck"
		hist.Steps = append(hist.Steps, st)
		if s.Wedged {
			hist.Wedged = true
			break
		}
	}
	return hist, nil
}

// DriverInput renders the histories for the Lean driver.
func DriverInput(hs []*History) []byte {
	var b bytes.Buffer
	for _, h := range hs {
		b.WriteString(CfgLine(h.Cfg) + "\n")
		b.WriteString("hist\t" + h.ID + "\n")
		for _, st := range h.Steps {
			b.WriteString(st.Env + "\n")
			b.WriteString(st.Call.Line() + "\n")
		}
	}
	return b.Bytes()
}

// ModelStep is the model's output for one call.
type ModelStep struct {
	Obs    []string
	RefRes string
	Tree   []string
	Trig   []string
	Br     []string
}

// RunDriver pipes the histories through the compiled Lean driver and parses its output.
func RunDriver(driver string, hs []*History) (map[string][]ModelStep, error) {
	cmd := exec.Command(driver)
	cmd.Stdin = bytes.NewReader(DriverInput(hs))
	var out, errb bytes.Buffer
	cmd.Stdout = &out
	cmd.Stderr = &errb
	if err := cmd.Run(); err != nil {
		return nil, fmt.Errorf("driver: %v: %s", err, errb.String())
	}
	res := map[string][]ModelStep{}
	cur := ""
	var ms *ModelStep
	for _, line := range strings.Split(out.String(), "\n") {
		switch {
		case strings.HasPrefix(line, "hist\t"):
			cur = strings.TrimPrefix(line, "hist\t")
			res[cur] = nil
		case strings.HasPrefix(line, "call\t"):
			ms = &ModelStep{}
		case line == "end":
			if ms != nil {
				res[cur] = append(res[cur], *ms)
				ms = nil
			}
		case ms == nil:
		case strings.HasPrefix(line, "refres\t"):
			ms.RefRes = strings.TrimPrefix(line, "refres\t")
		case strings.HasPrefix(line, "tree\t"):
			ms.Tree = append(ms.Tree, line)
		case strings.HasPrefix(line, "trig\t"):
			ms.Trig = append(ms.Trig, strings.Split(strings.TrimPrefix(line, "trig\t"), "\t")...)
		case strings.HasPrefix(line, "br\t"):
			ms.Br = append(ms.Br, strings.Split(strings.TrimPrefix(line, "br\t"), "\t")...)
		default:
			ms.Obs = append(ms.Obs, line)
		}
	}
	return res, nil
}

// Mismatch is the first place where model and implementation differ in one history.
type Mismatch struct {
	Hist  string   `json:"hist"`
	Step  int      `json:"step"`
	Kind  string   `json:"kind"`
	Impl  []string `json:"impl"`
	Model []string `json:"model"`
	Calls []string `json:"calls"`
}

func eqLines(a, b []string) bool {
	if len(a) != len(b) {
		return false
	}
	for i := range a {
		if a[i] != b[i] {
			return false
		}
	}
	return true
}

// CompareCorr returns the first step at which the observations differ, or nil.
func CompareCorr(h *History, m []ModelStep) *Mismatch {
	calls := func(n int) []string {
		out := []string{}
		for i := 0; i <= n && i < len(h.Steps); i++ {
			out = append(out, h.Steps[i].Env, h.Steps[i].Call.Line())
		}
		return out
	}
	for i, st := range h.Steps {
		if i >= len(m) {
			return &Mismatch{Hist: h.ID, Step: i, Kind: "corr-missing", Calls: calls(i)}
		}
		impl := st.Obs
		model := m[i].Obs
		if h.Wedged && i == len(h.Steps)-1 && !st.LateWedge {
			// only the result class is observable on a wedged instance
			if len(model) > 0 {
				model = model[:1]
			}
		}
		if !eqLines(impl, model) {
			return &Mismatch{Hist: h.ID, Step: i, Kind: "corr", Impl: impl, Model: model, Calls: calls(i)}
		}
	}
	return nil
}

func WriteLines(path string, lines []string) error {
	return os.WriteFile(path, []byte(strings.Join(lines, "\n")+"\n"), 0o644)
}
