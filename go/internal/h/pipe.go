package h

import (
	"archive/tar"
	"fmt"
	"os"
	"path/filepath"
	"strings"
	"sync"

	"github.com/pojntfx/stfs/pkg/config"
	"github.com/pojntfx/stfs/pkg/encryption"
	"github.com/pojntfx/stfs/pkg/keys"
	"github.com/pojntfx/stfs/pkg/signature"
	"github.com/pojntfx/stfs/pkg/utility"
)

// KeyPair is one generated key pair in parsed form.
type KeyPair struct {
	Priv, Pub           []byte
	Recipient, Identity interface{}
}

var keyMu sync.Mutex
var keyCache = map[string]*KeyPair{}

// Keys returns (generating and caching on disk under dir) the key pair number n for an
// encryption ("enc:<format>") or signature ("sig:<format>") format with the given password.
func Keys(dir, kind, format, password string, n int) (*KeyPair, error) {
	if format == "" {
		return &KeyPair{}, nil
	}
	keyMu.Lock()
	defer keyMu.Unlock()
	id := fmt.Sprintf("%s-%s-%x-%d", kind, format, password, n)
	if kp, ok := keyCache[id]; ok {
		return kp, nil
	}
	os.MkdirAll(dir, 0o755)
	privPath, pubPath := filepath.Join(dir, id+".priv"), filepath.Join(dir, id+".pub")
	priv, err1 := os.ReadFile(privPath)
	pub, err2 := os.ReadFile(pubPath)
	if err1 != nil || err2 != nil {
		pc := config.PipeConfig{}
		if kind == "enc" {
			pc.Encryption = format
		} else {
			pc.Signature = format
		}
		var err error
		priv, pub, err = utility.Keygen(pc, config.PasswordConfig{Password: password})
		if err != nil {
			return nil, err
		}
		tmp := privPath + fmt.Sprintf(".%d", os.Getpid())
		os.WriteFile(tmp, priv, 0o600)
		os.Rename(tmp, privPath)
		tmp = pubPath + fmt.Sprintf(".%d", os.Getpid())
		os.WriteFile(tmp, pub, 0o644)
		os.Rename(tmp, pubPath)
		// another process may have won the race: use what is on disk
		priv, _ = os.ReadFile(privPath)
		pub, _ = os.ReadFile(pubPath)
	}
	kp := &KeyPair{Priv: priv, Pub: pub}
	var err error
	if kind == "enc" {
		if kp.Recipient, err = keys.ParseRecipient(format, pub); err != nil {
			return nil, err
		}
		if kp.Identity, err = keys.ParseIdentity(format, priv, password); err != nil {
			return nil, err
		}
	} else {
		if kp.Recipient, err = keys.ParseSignerRecipient(format, pub); err != nil {
			return nil, err
		}
		if kp.Identity, err = keys.ParseSignerIdentity(format, priv, password); err != nil {
			return nil, err
		}
	}
	keyCache[id] = kp
	return kp, nil
}

// WithPipe fills a configuration's pipeline and crypto parts: "compression+encryption+signature"
// (empty parts allowed, e.g. "gzip++", "+age+minisign").
func WithPipe(c Cfg, spec, keyDir string) (Cfg, error) {
	parts := strings.Split(spec+"++++", "+")
	c.Compression, c.Encryption, c.Signature = parts[0], parts[1], parts[2]
	// optional: compression level and write-cache type ("gzip+age+pgp+smallest+memory")
	if parts[3] != "" {
		c.Level = parts[3]
	}
	if parts[4] != "" {
		c.CacheType = parts[4]
	}
	if c.Compression == "none" {
		c.Compression = ""
	}
	enc, err := Keys(keyDir, "enc", c.Encryption, "verifpw", 0)
	if err != nil {
		return c, err
	}
	sig, err := Keys(keyDir, "sig", c.Signature, "verifpw", 0)
	if err != nil {
		return c, err
	}
	// as the project's own tests wire it: the write side encrypts to the recipient and signs with
	// the signer identity; the read side decrypts with the identity and verifies with the signer's
	// public half
	c.Crypto = config.CryptoConfig{Recipient: enc.Recipient, Identity: sig.Identity}
	c.CryptoRead = config.CryptoConfig{Recipient: sig.Recipient, Identity: enc.Identity}
	return c, nil
}

// PlainHeader undoes EncryptHeader and SignHeader for observation (the scanner shows what
// the indexer will see).  Returns the header unchanged when it cannot be decoded.
func (c Cfg) PlainHeader(h *tar.Header) *tar.Header {
	if c.Encryption == "" && c.Signature == "" {
		return h
	}
	cp := *h
	if h.PAXRecords != nil {
		cp.PAXRecords = map[string]string{}
		for k, v := range h.PAXRecords {
			cp.PAXRecords[k] = v
		}
	}
	if err := encryption.DecryptHeader(&cp, c.Encryption, c.CryptoRead.Identity); err != nil {
		return h
	}
	if err := signature.VerifyHeader(&cp, true, c.Signature, c.CryptoRead.Recipient); err != nil {
		return h
	}
	return &cp
}
