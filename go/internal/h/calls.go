package h

import (
	"archive/tar"
	"bytes"
	"encoding/json"
	"fmt"
	"io"
	"os"
	"path"
	"sort"
	"strconv"
	"strings"
	"time"

	stfs "github.com/pojntfx/stfs/pkg/fs"
	"github.com/spf13/afero"
)

func jsonUnmarshal(s string, v interface{}) error { return json.Unmarshal([]byte(s), v) }

// Call is one line of the protocol: method and already encoded arguments.
type Call struct {
	Method string
	Args   []string
}

func (c Call) Line() string { return "call\t" + c.Method + "\t" + strings.Join(c.Args, "\t") }

func (c Call) name(i int) string {
	if i >= len(c.Args) {
		return ""
	}
	return DecName(c.Args[i])
}

func (c Call) int(i int) int64 {
	if i >= len(c.Args) {
		return 0
	}
	v, _ := strconv.ParseInt(c.Args[i], 10, 64)
	return v
}

// GenBytes is the byte generator shared with the Lean driver.
// GenBytes is the content generator shared with the Lean driver.  The seed selects the byte
// distribution: below 2^20 pseudo-random bytes (incompressible), from 2^20 low-entropy text,
// from 2^21 zeros.
func GenBytes(n int, seed int64) []byte {
	out := make([]byte, n)
	s := seed
	for i := 0; i < n; i++ {
		s = (s*1103515245 + 12345) % 2147483648
		switch {
		case seed >= 2097152:
			out[i] = 0
		case seed >= 1048576:
			out[i] = byte(97 + s/65536%4)
		default:
			out[i] = byte(s / 65536 % 256)
		}
	}
	return out
}

func PolyHash(b []byte) int64 {
	var acc int64
	for _, x := range b {
		acc = (acc*257 + int64(x) + 1) % 1000000007
	}
	return acc
}

// InfoString renders an os.FileInfo as the model renders `Info`.
func InfoString(i os.FileInfo) string {
	kind := "f"
	if i.IsDir() {
		kind = "d"
	} else if i.Mode()&os.ModeSymlink != 0 {
		kind = "l"
	}
	uid, gid := int64(0), int64(0)
	if st, ok := i.Sys().(*stfs.Stat); ok {
		uid, gid = int64(st.Uid), int64(st.Gid)
	}
	return strings.Join([]string{EncName(i.Name()), fmt.Sprint(i.Size()), fmt.Sprint(int64(i.Mode().Perm())), kind,
		fmt.Sprint(TimeInt(i.ModTime())), fmt.Sprint(uid), fmt.Sprint(gid)}, " ")
}

func timeOf(ns int64) time.Time {
	if ns == 0 {
		return time.Time{}
	}
	return time.Unix(0, ns)
}

// Session holds the open handles of one history.
type Session struct {
	E       *Env
	Handles map[int64]afero.File
	Timeout time.Duration
	Wedged  bool
	// Streaming: handles on which a streaming read may be in progress (its goroutine holds the
	// drive until the stream is drained or the handle closed): while there are any, the harness
	// does not walk the filesystem for its own observations (the walk would never return)
	Streaming map[int64]bool
}

func NewSession(e *Env) *Session {
	return &Session{E: e, Handles: map[int64]afero.File{}, Timeout: 10 * time.Second, Streaming: map[int64]bool{}}
}

// Exec runs one call against the real code under a watchdog and returns the `res` line.
func (s *Session) Exec(c Call) string {
	type out struct {
		vals string
		err  error
	}
	ch := make(chan out, 1)
	go func() {
		defer func() {
			if r := recover(); r != nil {
				ch <- out{"", fmt.Errorf("panic: %v", r)}
			}
		}()
		v, err := s.exec(c)
		switch c.Method {
		case "hwrite", "hwritestr", "hwriteat", "htruncate":
			// entering write mode closes a streaming read — but only when the guards let the
			// call get that far (a handle without the write flag keeps its stream)
			if err == nil || ClassOf(err) != "permission" {
				delete(s.Streaming, c.int(0))
			}
		}
		ch <- out{v, err}
	}()
	select {
	case o := <-ch:
		if o.err != nil {
			if strings.HasPrefix(o.err.Error(), "panic: ") {
				return "res\tcrash"
			}
			if o.err == errBadHandle {
				return "res\tbadhandle"
			}
			if os.Getenv("VERIF_DEBUG") != "" && ClassOf(o.err) == "other" {
				fmt.Fprintf(os.Stderr, "DEBUG %s: %v\n", c.Method, o.err)
			}
			return "res\t" + ClassOf(o.err)
		}
		if o.vals == "" {
			return "res\tok"
		}
		return "res\tok\t" + o.vals
	case <-time.After(s.Timeout):
		s.Wedged = true
		return "res\tstuck"
	}
}

var errBadHandle = fmt.Errorf("bad handle")

// Guard runs f under the watchdog; it reports false (and marks the session wedged) when f
// does not return in time.  Every observation that touches the drive goes through it.
func (s *Session) Guard(f func()) bool {
	done := make(chan struct{})
	go func() {
		defer func() {
			recover()
			close(done)
		}()
		f()
	}()
	select {
	case <-done:
		return true
	case <-time.After(s.Timeout):
		s.Wedged = true
		return false
	}
}

func (s *Session) exec(c Call) (string, error) {
	switch c.Method {
	case "hread", "hreadat", "hseek":
		s.Streaming[c.int(0)] = true
	case "hclose":
		delete(s.Streaming, c.int(0))
	}
	f := s.E.FS
	switch c.Method {
	case "initialize":
		root, err := f.Initialize(c.name(0), os.FileMode(c.int(1)))
		if err != nil {
			return "", err
		}
		return EncName(root), nil
	case "mkdir":
		return "", f.Mkdir(c.name(0), os.FileMode(c.int(1)))
	case "mkdirall":
		return "", f.MkdirAll(c.name(0), os.FileMode(c.int(1)))
	case "remove":
		return "", f.Remove(c.name(0))
	case "removeall":
		return "", f.RemoveAll(c.name(0))
	case "rename":
		return "", f.Rename(c.name(0), c.name(1))
	case "chmod":
		return "", f.Chmod(c.name(0), os.FileMode(c.int(1)))
	case "chown":
		return "", f.Chown(c.name(0), int(c.int(1)), int(c.int(2)))
	case "chtimes":
		return "", f.Chtimes(c.name(0), timeOf(c.int(1)), timeOf(c.int(2)))
	case "symlink":
		return "", f.SymlinkIfPossible(c.name(0), c.name(1))
	case "stat":
		i, err := f.Stat(c.name(0))
		if err != nil {
			return "", err
		}
		return InfoString(i), nil
	case "lstat":
		i, _, err := f.LstatIfPossible(c.name(0))
		if err != nil {
			return "", err
		}
		return InfoString(i), nil
	case "readlink":
		l, err := f.ReadlinkIfPossible(c.name(0))
		if err != nil {
			return "", err
		}
		return EncName(l), nil
	case "cat":
		b, err := s.Cat(c.name(0))
		if err != nil {
			return "", err
		}
		return fmt.Sprintf("%d %d", len(b), PolyHash(b)), nil
	case "create", "open", "openfile":
		var file afero.File
		var err error
		switch c.Method {
		case "create":
			file, err = f.Create(c.name(1))
		case "open":
			file, err = f.Open(c.name(1))
		default:
			file, err = f.OpenFile(c.name(1), int(c.int(2)), os.FileMode(c.int(3)))
		}
		if err != nil {
			return "", err
		}
		s.Handles[c.int(0)] = file
		return "", nil
	case "hwrite":
		file, ok := s.Handles[c.int(0)]
		if !ok {
			return "", errBadHandle
		}
		n, err := file.Write(GenBytes(int(c.int(1)), c.int(2)))
		if err != nil {
			return "", err
		}
		return fmt.Sprint(n), nil
	case "hwritestr":
		file, ok := s.Handles[c.int(0)]
		if !ok {
			return "", errBadHandle
		}
		// code points 0..255 as one byte each would not survive string conversion: use Latin-1 safe bytes
		n, err := file.WriteString(string(GenBytes(int(c.int(1)), c.int(2))))
		if err != nil {
			return "", err
		}
		return fmt.Sprint(n), nil
	case "hread", "hreadat":
		file, ok := s.Handles[c.int(0)]
		if !ok {
			return "", errBadHandle
		}
		buf := make([]byte, c.int(1))
		var k int
		var err error
		if c.Method == "hread" {
			k, err = file.Read(buf)
		} else {
			k, err = file.ReadAt(buf, c.int(2))
		}
		if err != nil && err != io.EOF {
			return "", err
		}
		if k < 0 {
			k = 0
		}
		eof := "0"
		if err == io.EOF {
			eof = "1"
		}
		return fmt.Sprintf("%d %d %s", k, PolyHash(buf[:k]), eof), nil
	case "hseek":
		file, ok := s.Handles[c.int(0)]
		if !ok {
			return "", errBadHandle
		}
		o, err := file.Seek(c.int(1), int(c.int(2)))
		if err != nil {
			return "", err
		}
		return fmt.Sprint(o), nil
	case "hwriteat":
		file, ok := s.Handles[c.int(0)]
		if !ok {
			return "", errBadHandle
		}
		n, err := file.WriteAt(GenBytes(int(c.int(1)), c.int(2)), c.int(3))
		if err != nil {
			return "", err
		}
		return fmt.Sprint(n), nil
	case "htruncate":
		file, ok := s.Handles[c.int(0)]
		if !ok {
			return "", errBadHandle
		}
		return "", file.Truncate(c.int(1))
	case "hstat":
		file, ok := s.Handles[c.int(0)]
		if !ok {
			return "", errBadHandle
		}
		i, err := file.Stat()
		if err != nil {
			return "", err
		}
		return InfoString(i), nil
	case "hname":
		file, ok := s.Handles[c.int(0)]
		if !ok {
			return "", errBadHandle
		}
		return EncName(file.Name()), nil
	case "hsync":
		file, ok := s.Handles[c.int(0)]
		if !ok {
			return "", errBadHandle
		}
		return "", file.Sync()
	case "hclose":
		file, ok := s.Handles[c.int(0)]
		if !ok {
			return "", errBadHandle
		}
		err := file.Close()
		if err == nil {
			delete(s.Handles, c.int(0))
		}
		return "", err
	case "hreaddir":
		file, ok := s.Handles[c.int(0)]
		if !ok {
			return "", errBadHandle
		}
		is, err := file.Readdir(int(c.int(1)))
		if err != nil {
			return "", err
		}
		parts := []string{}
		for _, i := range is {
			parts = append(parts, InfoString(i))
		}
		return strings.Join(parts, ";"), nil
	}
	return "", fmt.Errorf("bad call %q", c.Method)
}

// cat = Open; ReadAll; Close.  A read error after a partial read would leave the streaming
// goroutine holding the drive, so the handle is always drained or closed.
func (s *Session) Cat(name string) ([]byte, error) {
	file, err := s.E.FS.Open(name)
	if err != nil {
		return nil, err
	}
	info, err := file.Stat()
	if err == nil && info.IsDir() {
		_, err := file.Read(make([]byte, 1))
		file.Close()
		return nil, err
	}
	// not io.ReadAll: File.Read returns -1 together with an error, which ReadAll turns into a
	// panic of its own (part of finding F23); the loop below reads like io.Copy does
	var b []byte
	err = nil
	buf := make([]byte, 4096)
	for {
		n, rerr := file.Read(buf)
		if n > 0 {
			b = append(b, buf[:n]...)
		}
		if rerr == io.EOF {
			break
		}
		if rerr != nil {
			err = rerr
			break
		}
		if n == 0 {
			break
		}
	}
	cerr := file.Close()
	if err != nil {
		return nil, err
	}
	return b, cerr
}

type bufCloser struct{ b *bytes.Buffer }

func (c bufCloser) Write(p []byte) (int, error) { return c.b.Write(p) }
func (c bufCloser) Close() error                { return nil }

// SafeCat reads a file's content through Operations.Restore (the archive interface).
func (s *Session) SafeCat(name string) ([]byte, error) {
	var buf bytes.Buffer
	err := s.E.ReadOps.Restore(func(string, os.FileMode) (io.WriteCloser, error) { return bufCloser{&buf}, nil },
		func(string, os.FileMode) error { return nil }, name, "", true)
	if err != nil {
		return nil, err
	}
	return buf.Bytes(), nil
}

// TreeLines walks the filesystem through its public API from "/" and renders what a user
// sees, in the format of the reference filesystem's tree dump.
func (s *Session) TreeLines() ([]string, error) {
	type ent struct {
		p    string
		line string
	}
	var ents []ent
	rootInfo, err := s.E.FS.Stat("/")
	if err != nil {
		return nil, fmt.Errorf("stat /: %w", err)
	}
	add := func(p string, i os.FileInfo, hash int64) {
		kind := "f"
		if i.IsDir() {
			kind = "d"
		}
		uid, gid := int64(0), int64(0)
		if st, ok := i.Sys().(*stfs.Stat); ok {
			uid, gid = int64(st.Uid), int64(st.Gid)
		}
		size := i.Size()
		if i.IsDir() {
			size = 0
		}
		ents = append(ents, ent{p, strings.Join([]string{"tree", EncName(p), kind, fmt.Sprint(size), fmt.Sprint(int64(i.Mode().Perm())),
			fmt.Sprint(uid), fmt.Sprint(gid), fmt.Sprint(TimeInt(i.ModTime())), "-", fmt.Sprint(hash)}, "\t")})
	}
	add("/", rootInfo, 0)
	var walk func(dir string, depth int) error
	walk = func(dir string, depth int) error {
		if depth > 12 {
			return fmt.Errorf("tree deeper than 12 at %q", dir)
		}
		d, err := s.E.FS.Open(dir)
		if err != nil {
			return fmt.Errorf("open %q: %w", dir, err)
		}
		infos, err := d.Readdir(-1)
		d.Close()
		if err != nil {
			return fmt.Errorf("readdir %q: %w", dir, err)
		}
		for _, i := range infos {
			p := path.Join(dir, i.Name())
			if i.IsDir() {
				add(p, i, 0)
				if err := walk(p, depth+1); err != nil {
					return err
				}
			} else {
				// contents through the archive interface: a read error comes back as an error there
				// (the handle's streaming goroutine would panic on it and take the process down)
				b, err := s.SafeCat(p)
				if err != nil && i.Size() == 0 {
					// an empty file under a pipeline that cannot decode the empty stream (finding F18,
					// reported under C03/C10): its content is taken to be empty here, so that this
					// known deviation does not drown every other comparison of the tree
					add(p, i, 0)
				} else if err != nil {
					add(p, i, -int64(len(ClassOf(err)))-1000)
				} else {
					add(p, i, PolyHash(b))
				}
			}
		}
		return nil
	}
	if err := walk("/", 0); err != nil {
		return nil, err
	}
	sort.SliceStable(ents, func(a, b int) bool { return lessRunes(ents[a].p, ents[b].p) })
	out := []string{}
	for _, e := range ents {
		out = append(out, e.line)
	}
	return out, nil
}

func lessRunes(a, b string) bool {
	ra, rb := []rune(a), []rune(b)
	for i := 0; i < len(ra) && i < len(rb); i++ {
		if ra[i] != rb[i] {
			return ra[i] < rb[i]
		}
	}
	return len(ra) < len(rb)
}

// EnvLine derives the oracle inputs of a call from what it appended.
func EnvLine(items []TapeItem, plain func(*tar.Header) *tar.Header) string {
	now := int64(0)
	recs := []string{}
	for _, it := range items {
		if it.Trailer || it.HB < 0 {
			continue
		}
		if now == 0 {
			hh := it.Hdr
			if plain != nil {
				hh = plain(hh)
			}
			now = TimeInt(hh.ModTime)
		}
		recs = append(recs, fmt.Sprintf("%d:%d", it.HB, it.Stored))
	}
	r := "-"
	if len(recs) > 0 {
		r = strings.Join(recs, ",")
	}
	return fmt.Sprintf("env\tnow=%d\trecs=%s", now, r)
}

var _ = tar.TypeReg
