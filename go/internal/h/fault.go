package h

import (
	"context"
	"errors"
	"io"
	"sync"

	"github.com/pojntfx/stfs/pkg/config"
)

// ErrInjected is the error every injected fault returns.
var ErrInjected = errors.New("injected fault")

// Faults counts the calls that cross the three seams (index store, drive writes, drive reads)
// and fails the k-th one of the armed kind.
type Faults struct {
	mu         sync.Mutex
	Kind       string // "", "persister", "write", "read"
	K          int    // 1-based ordinal of the call to fail
	Counts     map[string]int
	Fired      bool
	FiredAt    string // which method/operation was failed
	WriterOpen bool   // a writer had been handed out and not yet closed when the fault fired
	writerOpen bool
	// Jitter, when set, runs at every seam crossing (before the call goes through): the
	// concurrency stream uses it to yield or sleep there
	Jitter func(kind, what string)
}

func NewFaults() *Faults { return &Faults{Counts: map[string]int{}} }

func (f *Faults) Reset(kind string, k int) {
	f.mu.Lock()
	defer f.mu.Unlock()
	f.Kind, f.K, f.Fired, f.FiredAt, f.WriterOpen = kind, k, false, "", false
	f.Counts = map[string]int{}
}

func (f *Faults) hit(kind, what string) error {
	if f.Jitter != nil {
		f.Jitter(kind, what)
	}
	f.mu.Lock()
	defer f.mu.Unlock()
	f.Counts[kind]++
	if f.Kind == kind && f.Counts[kind] == f.K && !f.Fired {
		f.Fired = true
		f.FiredAt = what
		f.WriterOpen = f.writerOpen
		return ErrInjected
	}
	return nil
}

type faultyPersister struct {
	config.MetadataPersister
	f *Faults
}

func (p faultyPersister) UpsertHeader(ctx context.Context, h *config.Header, init bool) error {
	if err := p.f.hit("persister", "UpsertHeader"); err != nil {
		return err
	}
	return p.MetadataPersister.UpsertHeader(ctx, h, init)
}
func (p faultyPersister) UpdateHeaderMetadata(ctx context.Context, h *config.Header) error {
	if err := p.f.hit("persister", "UpdateHeaderMetadata"); err != nil {
		return err
	}
	return p.MetadataPersister.UpdateHeaderMetadata(ctx, h)
}
func (p faultyPersister) MoveHeader(ctx context.Context, a, b string, r, bl int64) error {
	if err := p.f.hit("persister", "MoveHeader"); err != nil {
		return err
	}
	return p.MetadataPersister.MoveHeader(ctx, a, b, r, bl)
}
func (p faultyPersister) GetHeader(ctx context.Context, n string) (*config.Header, error) {
	if err := p.f.hit("persister", "GetHeader"); err != nil {
		return nil, err
	}
	return p.MetadataPersister.GetHeader(ctx, n)
}
func (p faultyPersister) GetHeaderByLinkname(ctx context.Context, n string) (*config.Header, error) {
	if err := p.f.hit("persister", "GetHeaderByLinkname"); err != nil {
		return nil, err
	}
	return p.MetadataPersister.GetHeaderByLinkname(ctx, n)
}
func (p faultyPersister) GetHeaderChildren(ctx context.Context, n string) ([]*config.Header, error) {
	if err := p.f.hit("persister", "GetHeaderChildren"); err != nil {
		return nil, err
	}
	return p.MetadataPersister.GetHeaderChildren(ctx, n)
}
func (p faultyPersister) GetHeaderDirectChildren(ctx context.Context, n string, l int) ([]*config.Header, error) {
	if err := p.f.hit("persister", "GetHeaderDirectChildren"); err != nil {
		return nil, err
	}
	return p.MetadataPersister.GetHeaderDirectChildren(ctx, n, l)
}
func (p faultyPersister) DeleteHeader(ctx context.Context, n string, r, b int64) (*config.Header, error) {
	if err := p.f.hit("persister", "DeleteHeader"); err != nil {
		return nil, err
	}
	return p.MetadataPersister.DeleteHeader(ctx, n, r, b)
}
func (p faultyPersister) GetLastIndexedRecordAndBlock(ctx context.Context, rs int) (int64, int64, error) {
	if err := p.f.hit("persister", "GetLastIndexedRecordAndBlock"); err != nil {
		return 0, 0, err
	}
	return p.MetadataPersister.GetLastIndexedRecordAndBlock(ctx, rs)
}
func (p faultyPersister) GetRootPath(ctx context.Context) (string, error) {
	if err := p.f.hit("persister", "GetRootPath"); err != nil {
		return "", err
	}
	return p.MetadataPersister.GetRootPath(ctx)
}
func (p faultyPersister) PurgeAllHeaders(ctx context.Context) error {
	if err := p.f.hit("persister", "PurgeAllHeaders"); err != nil {
		return err
	}
	return p.MetadataPersister.PurgeAllHeaders(ctx)
}

type faultyWriter struct {
	w io.Writer
	f *Faults
}

func (w faultyWriter) Write(p []byte) (int, error) {
	if err := w.f.hit("write", "drive.Write"); err != nil {
		return 0, err
	}
	return w.w.Write(p)
}

type faultyReader struct {
	config.ReadSeekFder
	f *Faults
}

func (r faultyReader) Read(p []byte) (int, error) {
	if err := r.f.hit("read", "drive.Read"); err != nil {
		return 0, err
	}
	return r.ReadSeekFder.Read(p)
}

// Install returns a configuration whose seams go through the fault counters.
func (f *Faults) Install(c Cfg) Cfg {
	c.WrapPersister = func(p config.MetadataPersister) config.MetadataPersister { return faultyPersister{p, f} }
	c.WrapBackend = func(b config.BackendConfig) config.BackendConfig {
		gw, cw, gr := b.GetWriter, b.CloseWriter, b.GetReader
		b.GetWriter = func() (config.DriveWriterConfig, error) {
			w, err := gw()
			if err != nil {
				return w, err
			}
			f.mu.Lock()
			f.writerOpen = true
			f.mu.Unlock()
			w.Drive = faultyWriter{w.Drive, f}
			return w, nil
		}
		b.CloseWriter = func() error {
			f.mu.Lock()
			f.writerOpen = false
			f.mu.Unlock()
			return cw()
		}
		b.GetReader = func() (config.DriveReaderConfig, error) {
			r, err := gr()
			if err != nil {
				return r, err
			}
			r.Drive = faultyReader{r.Drive, f}
			return r, nil
		}
		return b
	}
	return c
}
