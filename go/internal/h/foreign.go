package h

import (
	"archive/tar"
	"fmt"
	"math/rand"
	"os"
	"path"
	"sort"
	"strings"
	"time"
)

// C17: foreign tar archives.  A tree is generated, written by archive/tar (not by STFS) in one
// of the three formats and one of the root styles, and then opened through the documented
// composition: fs.NewSTFS over the tape with an empty index, Initialize("/"), and the base-path
// view of cache.NewCacheFilesystem when the returned root is not a root spelling.

// ForeignMember is one member of a generated archive, named relative to the top directory
// ("" is the top directory itself).
type ForeignMember struct {
	Rel  string
	Dir  bool
	Len  int
	Seed int
	Mode int64
}

type ForeignSpec struct {
	Format tar.Format
	Style  string // "./" | "/" | "top/" | "." | "top" (how the top directory and members are named)
	Top    string // name of the top directory for the named styles
	// Pad: zero blocks appended after the end-of-archive marker (tar -b N pads an archive to a
	// whole record)
	Pad     int
	Members []ForeignMember
}

func (s ForeignSpec) FormatName() string {
	switch s.Format {
	case tar.FormatUSTAR:
		return "ustar"
	case tar.FormatPAX:
		return "pax"
	case tar.FormatGNU:
		return "gnu"
	}
	return "?"
}

// TarName gives the name a standard tar writer records for a member.
func (s ForeignSpec) TarName(m ForeignMember) string {
	switch s.Style {
	case "./":
		// `tar -cf x.tar .`
		if m.Rel == "" {
			return "./"
		}
		if m.Dir {
			return "./" + m.Rel + "/"
		}
		return "./" + m.Rel
	case "/":
		// `tar -P -cf x.tar /`
		if m.Rel == "" {
			return "/"
		}
		if m.Dir {
			return "/" + m.Rel + "/"
		}
		return "/" + m.Rel
	case "abs":
		// `tar -P -cf x.tar /top`
		if m.Rel == "" {
			return "/" + s.Top + "/"
		}
		if m.Dir {
			return "/" + s.Top + "/" + m.Rel + "/"
		}
		return "/" + s.Top + "/" + m.Rel
	default:
		// `tar -cf x.tar top`
		if m.Rel == "" {
			return s.Top + "/"
		}
		if m.Dir {
			return s.Top + "/" + m.Rel + "/"
		}
		return s.Top + "/" + m.Rel
	}
}

var foreignStyles = []string{"./", "/", "top", "abs"}
var foreignFormats = []tar.Format{tar.FormatUSTAR, tar.FormatPAX, tar.FormatGNU}

func GenForeign(r *rand.Rand, j int) ForeignSpec {
	s := ForeignSpec{Format: foreignFormats[j%3], Style: foreignStyles[(j/3)%len(foreignStyles)], Top: []string{"top", "data", "backup-2021"}[r.Intn(3)]}
	if j%5 == 4 {
		// a record-padded archive: 1..2*20 extra zero blocks (odd and even counts)
		s.Pad = 1 + r.Intn(40)
	}
	s.Members = append(s.Members, ForeignMember{Rel: "", Dir: true, Mode: 0o755})
	dirs := []string{""}
	// an archive padded by an odd number of blocks cannot be represented by the model's tape (no
	// item of one zero block), so nothing the model would have to explain is generated there:
	// plain names only, none of them repeated along a path
	safe := s.Pad%2 == 1
	safeN := 0
	nameOf := func() string {
		if safe {
			safeN++
			return fmt.Sprintf("%s%d", []string{"a", "b", "c", "f", "x", "y"}[r.Intn(6)], safeN)
		}
		switch r.Intn(12) {
		case 0:
			if s.Format != tar.FormatUSTAR {
				// long-name territory (beyond the 100-byte name field)
				return strings.Repeat("n", 60+r.Intn(80)) + fmt.Sprint(r.Intn(10))
			}
		case 1:
			if s.Format == tar.FormatUSTAR {
				// ustar cannot encode non-ASCII names
				return []string{"a b", "x.tar", "UPPER", "a%b", "a_b"}[r.Intn(5)]
			}
			return []string{"a b", "x.tar", "ü", "UPPER", "a%b", "a_b"}[r.Intn(6)]
		}
		return []string{"a", "b", "c", "docs", "f1", "f2", "img", "src", "lib", "x", "y", ".profile", "profile", ".env", "Docs", "rel_1", "rel-1", "100%", "100x"}[r.Intn(19)]
	}
	have := map[string]bool{"": true}
	if j%7 == 6 && !safe {
		// sibling directories whose names SQLite's LIKE does not tell apart (ASCII case, the
		// wildcards _ and %), each with a child of its own
		pair := [][2]string{{"Docs", "docs"}, {"rel_1", "rel-1"}, {"100%", "100x"}}[r.Intn(3)]
		{
			for k, d := range pair {
				s.Members = append(s.Members, ForeignMember{Rel: d, Dir: true, Mode: 0o755},
					ForeignMember{Rel: d + "/" + []string{"left", "right"}[k], Len: 100 + 100*k, Seed: r.Intn(1000), Mode: 0o644})
				have[d], have[d+"/"+[]string{"left", "right"}[k]] = true, true
				dirs = append(dirs, d)
			}
		}
	}
	n := 2 + r.Intn(9)
	for k := 0; k < n; k++ {
		d := dirs[r.Intn(len(dirs))]
		nm := nameOf()
		rel := nm
		if d != "" {
			rel = d + "/" + nm
		}
		if have[rel] || len(rel) > 230 {
			continue
		}
		have[rel] = true
		if r.Intn(3) == 0 && strings.Count(rel, "/") < 3 {
			s.Members = append(s.Members, ForeignMember{Rel: rel, Dir: true, Mode: 0o755})
			dirs = append(dirs, rel)
		} else {
			ln := []int{0, 1, 100, 511, 512, 513, 1400, 3000}[r.Intn(8)]
			s.Members = append(s.Members, ForeignMember{Rel: rel, Len: ln, Seed: r.Intn(1000), Mode: []int64{0o644, 0o600, 0o755}[r.Intn(3)]})
		}
	}
	return s
}

// WriteForeign writes the archive with archive/tar, as a standard tar writer would.
func WriteForeign(p string, s ForeignSpec) error {
	f, err := os.Create(p)
	if err != nil {
		return err
	}
	defer f.Close()
	tw := tar.NewWriter(f)
	for _, m := range s.Members {
		hdr := &tar.Header{Name: s.TarName(m), Mode: m.Mode, ModTime: time.Unix(1600000000+int64(m.Seed), 0), Format: s.Format,
			Uid: 1000, Gid: 1000, Uname: "user", Gname: "users"}
		if m.Dir {
			hdr.Typeflag = tar.TypeDir
		} else {
			hdr.Typeflag = tar.TypeReg
			hdr.Size = int64(m.Len)
		}
		if err := tw.WriteHeader(hdr); err != nil {
			return fmt.Errorf("%s: %w", hdr.Name, err)
		}
		if !m.Dir {
			if _, err := tw.Write(GenBytes(m.Len, int64(m.Seed))); err != nil {
				return err
			}
		}
	}
	if err := tw.Close(); err != nil {
		return err
	}
	if s.Pad > 0 {
		if _, err := f.Write(make([]byte, 512*s.Pad)); err != nil {
			return err
		}
	}
	return nil
}

// encode / decode of a spec as directive arguments (so that a replay file is self-contained)
func (s ForeignSpec) Args() []string {
	out := []string{"fmt=" + s.FormatName(), "style=" + EncName(s.Style), "top=" + EncName(s.Top), fmt.Sprintf("pad=%d", s.Pad)}
	for _, m := range s.Members {
		k := "f"
		if m.Dir {
			k = "d"
		}
		out = append(out, fmt.Sprintf("%s:%s:%d:%d:%d", k, EncName(m.Rel), m.Len, m.Seed, m.Mode))
	}
	return out
}

func ParseForeign(args []string) (ForeignSpec, error) {
	var s ForeignSpec
	for _, a := range args {
		switch {
		case strings.HasPrefix(a, "fmt="):
			switch strings.TrimPrefix(a, "fmt=") {
			case "ustar":
				s.Format = tar.FormatUSTAR
			case "pax":
				s.Format = tar.FormatPAX
			case "gnu":
				s.Format = tar.FormatGNU
			}
		case strings.HasPrefix(a, "style="):
			s.Style = DecName(strings.TrimPrefix(a, "style="))
		case strings.HasPrefix(a, "top="):
			s.Top = DecName(strings.TrimPrefix(a, "top="))
		case strings.HasPrefix(a, "pad="):
			fmt.Sscan(strings.TrimPrefix(a, "pad="), &s.Pad)
		default:
			f := strings.Split(a, ":")
			if len(f) != 5 {
				return s, fmt.Errorf("bad member %q", a)
			}
			m := ForeignMember{Rel: DecName(f[1]), Dir: f[0] == "d"}
			fmt.Sscan(f[2], &m.Len)
			fmt.Sscan(f[3], &m.Seed)
			fmt.Sscan(f[4], &m.Mode)
			s.Members = append(s.Members, m)
		}
	}
	return s, nil
}

// expectedTree renders the generated tree the way walkComposed renders what it finds.
func (s ForeignSpec) ExpectedTree() []string {
	out := []string{}
	for _, m := range s.Members {
		if m.Rel == "" {
			continue
		}
		if m.Dir {
			out = append(out, fmt.Sprintf("d %s", "/"+m.Rel))
		} else {
			out = append(out, fmt.Sprintf("f %s %d %d", "/"+m.Rel, m.Len, PolyHash(GenBytes(m.Len, int64(m.Seed)))))
		}
	}
	sort.Strings(out)
	return out
}

var _ = path.Join

// ForeignItemLines renders the scanned items of a foreign archive for the Lean driver:
// item rec hb stored typeflag name linkname size mode uid gid uname gname mtime atime ctime len seed
func ForeignItemLines(items []TapeItem, spec ForeignSpec) []string {
	bySeed := map[string]ForeignMember{}
	for _, m := range spec.Members {
		bySeed[spec.TarName(m)] = m
	}
	out := []string{}
	for _, it := range items {
		switch {
		case it.Trailer && it.HB == 0:
			out = append(out, "item\ttrl")
		case it.Trailer:
			out = append(out, "item\tzero")
		case it.HB < 0:
			out = append(out, "item\tjunk")
		default:
			hd := it.Hdr
			m := bySeed[hd.Name]
			out = append(out, strings.Join([]string{"item", "rec", fmt.Sprint(it.HB), fmt.Sprint(it.Stored), fmt.Sprint(int64(hd.Typeflag)),
				EncName(hd.Name), EncName(hd.Linkname), fmt.Sprint(hd.Size), fmt.Sprint(hd.Mode), fmt.Sprint(hd.Uid), fmt.Sprint(hd.Gid),
				EncName(hd.Uname), EncName(hd.Gname), fmt.Sprint(TimeInt(hd.ModTime)), fmt.Sprint(TimeInt(hd.AccessTime)), fmt.Sprint(TimeInt(hd.ChangeTime)),
				fmt.Sprint(m.Len), fmt.Sprint(m.Seed)}, "\t"))
		}
	}
	return out
}
