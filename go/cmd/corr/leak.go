package main

import (
	"bytes"
	"encoding/base64"
	"encoding/hex"
	"fmt"
	"math/rand"
	"os"
	"path/filepath"
	"strings"
	"sync"

	"verifharness/internal/h"
)

// C09: the confidentiality stream.  Histories over names, link targets and contents that embed
// unique high-entropy markers run under every encryption format; after every call the raw tape
// is searched for every marker handed out so far (raw, base64 at all three alignments, hex),
// for the distinctive owner ids and timestamps used, and for the STFS action keys; every outer
// header on the tape (read by the harness's own tar reader) must be the fixed wrapper: PAX
// format, a size, and the single record STFS.EmbeddedHeader.  At the end a rebuild and a
// restore with a different private key must both fail.

func b64Forms(m string) []string {
	out := []string{}
	for pad := 0; pad < 3; pad++ {
		e := base64.StdEncoding.EncodeToString([]byte(strings.Repeat("\x00", pad) + m + "\x00\x00"))
		// drop the characters that depend on the neighbours
		if len(e) > 12 {
			out = append(out, e[4:len(e)-8])
		}
	}
	return out
}

func leakForms(m string) map[string]string {
	f := map[string]string{"raw": m, "hex": hex.EncodeToString([]byte(m)), "HEX": strings.ToUpper(hex.EncodeToString([]byte(m)))}
	for i, b := range b64Forms(m) {
		f[fmt.Sprintf("base64/%d", i)] = b
	}
	return f
}

func runLeak(o fsOpts) *result {
	res := &result{Methods: map[string]int{}, Results: map[string]int{}, Triggers: map[string]int{}, Branches: map[string]int{},
		KnownHits: map[string]int{}, OracleChecks: map[string]int{}}
	var mu sync.Mutex
	var wg sync.WaitGroup
	jobs := make(chan int)
	for w := 0; w < o.workers; w++ {
		wg.Add(1)
		go func() {
			defer wg.Done()
			for j := range jobs {
				id := fmt.Sprintf("%d-%d", o.seed, j)
				dir := filepath.Join(o.scratch, "leak-"+id)
				os.MkdirAll(dir, 0o755)
				func() {
					defer os.RemoveAll(dir)
					spec := o.pipes[j%len(o.pipes)]
					c := h.DefaultCfg()
					c.RS = o.rs[(j/len(o.pipes))%len(o.rs)]
					c, err := h.WithPipe(c, spec, o.keyDir)
					if err != nil || c.Encryption == "" {
						mu.Lock()
						res.Mismatches = append(res.Mismatches, h.Mismatch{Hist: id, Kind: "harness-error", Impl: []string{fmt.Sprintf("pipe %q: %v", spec, err)}})
						mu.Unlock()
						return
					}
					otherKey, err := h.Keys(o.keyDir, "enc", c.Encryption, "verifpw", 1)
					if err != nil {
						return
					}
					e, err := h.NewEnv(dir, c)
					if err != nil {
						return
					}
					defer e.Shutdown()
					s := h.NewSession(e)
					s.Timeout = o.watchdog
					r := rand.New(rand.NewSource(o.seed*1_000_003 + int64(j)))
					markers := []string{}
					mk := func() string {
						b := make([]byte, 10)
						r.Read(b)
						m := "mk" + hex.EncodeToString(b)
						// hex of random bytes would be found by the hex search of another marker only by
						// chance; markers are mixed-case to be distinct from any hex dump
						m = strings.ToUpper(m[:7]) + m[7:]
						markers = append(markers, m)
						return m
					}
					en := h.EncName
					d1, f1, f2, d2, lk := mk(), mk(), mk(), mk(), mk()
					content := func(n int) (int64, string) {
						// the content generator is seeded; its first bytes are searched for as a marker
						seed := int64(r.Intn(1 << 20))
						b := h.GenBytes(n, seed)
						if n >= 24 {
							markers = append(markers, string(b[:24]))
						}
						return seed, ""
					}
					calls := []h.Call{
						{Method: "initialize", Args: []string{en("/"), "511"}},
						{Method: "mkdir", Args: []string{en("/" + d1), "493"}},
						{Method: "create", Args: []string{"1", en("/" + d1 + "/" + f1)}},
					}
					sd, _ := content(700)
					calls = append(calls,
						h.Call{Method: "hwrite", Args: []string{"1", "700", fmt.Sprint(sd)}},
						h.Call{Method: "hclose", Args: []string{"1"}},
						h.Call{Method: "chmod", Args: []string{en("/" + d1 + "/" + f1), "384"}},
						h.Call{Method: "chown", Args: []string{en("/" + d1 + "/" + f1), "54321", "61234"}},
						h.Call{Method: "chtimes", Args: []string{en("/" + d1), "2000000000000000000", "2000000001000000000"}},
						h.Call{Method: "rename", Args: []string{en("/" + d1 + "/" + f1), en("/" + d1 + "/" + f2)}},
						h.Call{Method: "mkdir", Args: []string{en("/" + d2), "448"}},
						h.Call{Method: "rename", Args: []string{en("/" + d1), en("/" + d2 + "/" + d1)}},
						h.Call{Method: "create", Args: []string{"2", en("/" + d2 + "/" + f1)}},
					)
					sd2, _ := content(1500)
					calls = append(calls,
						h.Call{Method: "hwrite", Args: []string{"2", "1500", fmt.Sprint(sd2)}},
						h.Call{Method: "hclose", Args: []string{"2"}},
						h.Call{Method: "symlink", Args: []string{en("/" + d2 + "/" + f1), en("/" + lk)}},
						h.Call{Method: "remove", Args: []string{en("/" + d2 + "/" + f1)}},
					)
					if r.Intn(2) == 0 {
						calls = append(calls, h.Call{Method: "removeall", Args: []string{en("/" + d2)}})
					}
					fixed := []string{"STFS.Action", "STFS.Replaces", "STFS.UncompressedSize", "STFS.Version", "STFS.Signature",
						"54321", "61234", "2033-05-18T", "\"Name\"", "\"Uname\"", "ModTime"}
					lines := []string{}
					report := func(i int, what string) {
						mu.Lock()
						res.OracleFails = append(res.OracleFails, OracleFail{Property: "C09", Hist: id, Step: i, Calls: append([]string{}, lines...),
							What: what + " [pipeline " + spec + "]"})
						mu.Unlock()
					}
					bad := false
					for i, call := range calls {
						lines = append(lines, call.Line())
						out := s.Exec(call)
						mu.Lock()
						res.Calls++
						res.Methods[call.Method]++
						res.Results[call.Method+":"+strings.SplitN(out+"\t", "\t", 3)[1]]++
						res.OracleChecks["C09"]++
						mu.Unlock()
						if s.Wedged {
							break
						}
						data, _ := os.ReadFile(e.Drive)
						for _, m := range markers {
							for form, needle := range leakForms(m) {
								if bytes.Contains(data, []byte(needle)) {
									report(i, fmt.Sprintf("after %s the tape contains %q (%s form of a name, link target or content that was written)", call.Method, needle, form))
									bad = true
								}
							}
						}
						for _, needle := range fixed {
							if bytes.Contains(data, []byte(needle)) {
								report(i, fmt.Sprintf("after %s the tape contains %q in clear (owner id, timestamp, header field name or STFS action record)", call.Method, needle))
								bad = true
							}
						}
						items, _, _ := h.ScanTape(e.Drive, 0)
						for _, it := range items {
							if it.Hdr == nil {
								continue
							}
							hd := it.Hdr
							keys := []string{}
							for k := range hd.PAXRecords {
								keys = append(keys, k)
							}
							if hd.Name != "" || hd.Linkname != "" || hd.Uid != 0 || hd.Gid != 0 || hd.Uname != "" || hd.Gname != "" || hd.Mode != 0 ||
								(!hd.ModTime.IsZero() && hd.ModTime.Unix() != 0) || len(keys) != 1 || keys[0] != "STFS.EmbeddedHeader" {
								report(i, fmt.Sprintf("after %s the record at block %d is not the fixed wrapper: name=%q mode=%o uid=%d mtime=%v pax keys=%v", call.Method, it.Block, hd.Name, hd.Mode, hd.Uid, hd.ModTime, keys))
								bad = true
								break
							}
						}
						if bad {
							break
						}
					}
					if !bad && !s.Wedged {
						// a different private key: neither a rebuild nor a restore may succeed
						wc := c
						wc.CryptoRead.Identity = otherKey.Identity
						rr := rebuildTape(dir, wc, e.Drive, "wrongkey", s)
						mu.Lock()
						res.OracleChecks["C09"]++
						res.Results["wrong-key rebuild: "+map[bool]string{true: "rejected", false: "succeeded"}[rr.err != ""]]++
						mu.Unlock()
						if rr.err == "" {
							report(len(calls), "an index rebuild with a different private key succeeded")
						} else if len(rr.accepted) > 0 {
							report(len(calls), fmt.Sprintf("an index rebuild with a different private key accepted %d headers before failing", len(rr.accepted)))
						}
						// restore through an instance that has the right index but the wrong key
						we, werr := h.NewEnvAt(dir, e.Drive, e.DBPath, wc)
						if werr == nil {
							ws := h.NewSession(we)
							ws.Timeout = o.watchdog
							target := "/" + d2 + "/" + d1 + "/" + f2
							var cerr error
							var b []byte
							if ws.Guard(func() { b, cerr = ws.SafeCat(target) }) {
								mu.Lock()
								res.Results["wrong-key restore: "+map[bool]string{true: "rejected", false: "succeeded"}[cerr != nil]]++
								mu.Unlock()
								if cerr == nil {
									report(len(calls), fmt.Sprintf("a restore with a different private key returned %d bytes", len(b)))
								}
							}
							we.Shutdown()
						}
					}
					mu.Lock()
					res.Histories++
					if s.Wedged {
						res.Wedged++
					}
					mu.Unlock()
				}()
			}
		}()
	}
	for j := 0; j < o.n; j++ {
		jobs <- j
	}
	close(jobs)
	wg.Wait()
	res.Nontrivial = res.Histories
	return res
}
