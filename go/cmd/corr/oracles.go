package main

import (
	"archive/tar"
	"bytes"
	"crypto/sha256"
	"fmt"
	"io"
	"os"
	"path"
	"path/filepath"
	"sort"
	"strconv"
	"strings"

	"verifharness/internal/h"
)

// The oracles state the properties directly against the real code.  They are the *search*
// for a failing input; the theorems are what decides the property on the model.

type hookState struct {
	prevLen    int64
	prevHash   [32]byte
	started    bool
	roHash     [32]byte
	roRows     string
	roSeen     bool
	prevTree   []string
	cutSeen    bool
	indexAhead bool
}

// oracleHook returns the per-call hook that evaluates the property oracles which need the
// live instance (rebuild/reopen comparison, fetch by position, ...).
func oracleHook(o fsOpts, dir string) func(i int, s *h.Session, st *h.Step) {
	if len(o.oracles) == 0 {
		return nil
	}
	hs := &hookState{}
	return func(i int, s *h.Session, st *h.Step) {
		if st.Directive {
			// events around the instance: only the oracles that track the drive look at them
			if has(o.oracles, "C16") || has(o.oracles, "C05") {
				data, _ := os.ReadFile(s.E.Drive)
				hs.started = true
				hs.prevLen = int64(len(data))
				hs.prevHash = sha256.Sum256(data)
			}
			hs.prevTree = nil
			if st.Call.Method == "@cuttape" {
				hs.cutSeen = true
			}
			if st.Call.Method == "@reopen" && hs.cutSeen && has(st.Call.Args, "index=keep") {
				hs.indexAhead = true
			}
			return
		}
		for _, p := range o.oracles {
			var msgs []string
			switch p {
			case "C04":
				msgs = oracleC04(s, st)
			case "C05":
				msgs = oracleC05(hs, s, st)
			case "C15":
				msgs = oracleC15(hs, s, st)
			case "C12":
				msgs = oracleC12(hs, s, st)
			case "C01":
				msgs = oracleC01(i, dir, s, st)
			case "C16":
				msgs = oracleC16(hs, i, dir, s, st)
			case "C07":
				msgs = oracleC07(i, dir, s, st)
			case "C13":
				msgs = oracleC13(hs, s, st)
			}
			for _, m := range msgs {
				st.OracleMsgs = append(st.OracleMsgs, p+"\x00"+m)
			}
		}
	}
}

// judgeOracles turns oracle messages into failures and classifies them against the
// triggers the model reported for the history so far.
func judgeOracles(o fsOpts, hist *h.History, m []h.ModelStep, res *result) {
	// A listed finding explains a violation only while the implementation still behaves as the
	// model says (the finding *is* the model's behaviour in the trigger region): from the first
	// step on which model and implementation disagree, nothing is excused.
	divergedAt := len(hist.Steps) + 1
	if mm := h.CompareCorr(hist, m); mm != nil {
		divergedAt = mm.Step
	}
	fired := []string{}
	calls := []string{}
	for i, st := range hist.Steps {
		calls = append(calls, st.Env, st.Call.Line())
		if i < len(m) {
			for _, t := range m[i].Trig {
				if !has(fired, t) {
					fired = append(fired, t)
				}
			}
		}
		for _, p := range o.oracles {
			res.OracleChecks[p]++
		}
		if has(o.oracles, "C10") && (st.Res == "stuck" || st.LateWedge) {
			st.OracleMsgs = append(st.OracleMsgs, fmt.Sprintf("C10\x00%s never returned or left the drive locked for every later call", st.Call.Method))
		}
		if has(o.oracles, "C03") && !st.Directive && o.mode == "roundtrip" {
			// the round-trip generator only writes fresh files and stats them: every call succeeds
			switch {
			case st.Res == "stuck" || st.LateWedge:
				st.OracleMsgs = append(st.OracleMsgs, fmt.Sprintf("C03\x00%s never returned or left the drive locked while writing a file", st.Call.Method))
			case st.Res != "ok":
				st.OracleMsgs = append(st.OracleMsgs, fmt.Sprintf("C03\x00%s returned %s while writing a file", st.Call.Method, st.Res))
			}
		}
		if has(o.oracles, "C17") && !st.Directive {
			// every call the foreign-archive generator issues names an existing member or a fresh
			// name under an existing directory: on a filesystem it succeeds
			switch {
			case st.Res == "stuck" || st.LateWedge:
				st.OracleMsgs = append(st.OracleMsgs, fmt.Sprintf("C17\x00%s on the opened archive never returned or left the drive locked", st.Call.Method))
			case st.Res != "ok":
				st.OracleMsgs = append(st.OracleMsgs, fmt.Sprintf("C17\x00%s on the opened archive returned %s", st.Call.Method, st.Res))
			}
		}
		if has(o.oracles, "C14") && i < len(m) {
			if msg := judgeC14(st, m[i]); msg != "" {
				st.OracleMsgs = append(st.OracleMsgs, "C14\x00"+msg)
			}
		}
		if has(o.oracles, "C02") && i < len(m) {
			if msg := judgeC02(st, m[i]); msg != "" {
				st.OracleMsgs = append(st.OracleMsgs, "C02\x00"+msg)
			}
		}
		for _, pm := range st.OracleMsgs {
			parts := strings.SplitN(pm, "\x00", 2)
			if !has(o.oracles, parts[0]) {
				continue
			}
			// triggers named "only:…" delimit a region so common that they may excuse only the
			// oracle messages that name them ("…\x00only=<trigger>"): nothing else hides behind them
			msg := strings.SplitN(parts[1], "\x00only=", 2)
			usable := []string{}
			for _, t := range fired {
				if !strings.HasPrefix(t, "only:") || (len(msg) == 2 && has(strings.Split(msg[1], ","), t)) {
					usable = append(usable, t)
				}
			}
			if len(msg) == 2 {
				// a message that names its region is excused by that region only
				only := []string{}
				for _, t := range usable {
					if has(strings.Split(msg[1], ","), t) {
						only = append(only, t)
					}
				}
				usable = only
			}
			f := OracleFail{Property: parts[0], Hist: hist.ID, Step: i, What: msg[0], Triggers: append([]string{}, fired...),
				Calls: append([]string{}, calls...)}
			if i < divergedAt {
				f.Known = o.known.Explain(parts[0], usable)
			}
			if f.Known != "" {
				res.KnownHits[f.Known]++
			}
			res.OracleFails = append(res.OracleFails, f)
			break // one failure per step and property is enough
		}
	}
}

// ---------------------------------------------------------------------------------------
// C04: every row's positions are record starts; block < record size; content position is not
// after the last-known position; the record at a live regular row's content position holds
// the entry's content; the largest last-known position is the final record of the tape.
func oracleC04(s *h.Session, st *h.Step) []string {
	e := s.E
	rs := int64(e.Cfg.RS)
	items, _, err := h.ScanTape(e.Drive, 0)
	if err != nil {
		return []string{"scan: " + err.Error()}
	}
	starts := map[int64]h.TapeItem{}
	last := int64(-1)
	for _, it := range items {
		if !it.Trailer && it.HB > 0 {
			starts[it.Block] = it
			last = it.Block
		}
	}
	var msgs []string
	maxLK := int64(-1)
	rows := 0
	for _, l := range st.Obs {
		if !strings.HasPrefix(l, "row\t") {
			continue
		}
		rows++
		f := strings.Split(l, "\t")
		name := h.DecName(f[1])
		tf, _ := strconv.ParseInt(f[3], 10, 64)
		size, _ := strconv.ParseInt(f[4], 10, 64)
		rec, _ := strconv.ParseInt(f[5], 10, 64)
		blk, _ := strconv.ParseInt(f[6], 10, 64)
		lkr, _ := strconv.ParseInt(f[7], 10, 64)
		lkb, _ := strconv.ParseInt(f[8], 10, 64)
		del := f[9] == "1"
		if blk < 0 || blk >= rs || lkb < 0 || lkb >= rs {
			msgs = append(msgs, fmt.Sprintf("row %q: block component out of range (block=%d lastknownblock=%d rs=%d)", name, blk, lkb, rs))
		}
		b := rs*rec + blk
		lb := rs*lkr + lkb
		if lb > maxLK {
			maxLK = lb
		}
		if b > lb {
			msgs = append(msgs, fmt.Sprintf("row %q: content position %d after last-known position %d", name, b, lb))
		}
		it, ok := starts[b]
		if !ok {
			msgs = append(msgs, fmt.Sprintf("row %q: (record=%d, block=%d) is not the start of a record", name, rec, blk))
			continue
		}
		if _, ok := starts[lb]; !ok {
			msgs = append(msgs, fmt.Sprintf("row %q: last-known (%d,%d) is not the start of a record", name, lkr, lkb))
		}
		if del || tf != int64(tar.TypeReg) {
			continue
		}
		// the record at the content position must carry this entry's current content
		if e.Cfg.Compression == "" && e.Cfg.Encryption == "" && e.Cfg.Signature == "" {
			if it.Stored != size && !(it.Stored == 0 && size == 0) {
				msgs = append(msgs, fmt.Sprintf("row %q: size %d but the record at its position stores %d bytes", name, size, it.Stored))
				continue
			}
			want, err := s.Cat(name)
			if err != nil {
				continue // unreadable through the API: other properties' business
			}
			got, err := readAt(e.Drive, (it.Block+it.HB)*512, it.Stored)
			if err != nil || !bytes.Equal(got, want) {
				msgs = append(msgs, fmt.Sprintf("row %q: bytes at its content position differ from what the filesystem reads", name))
			}
		}
	}
	if rows > 0 && last >= 0 && maxLK != last {
		msgs = append(msgs, fmt.Sprintf("largest last-known position is block %d but the final record of the tape is at block %d", maxLK, last))
	}
	return msgs
}

func readAt(path string, off, n int64) ([]byte, error) {
	f, err := os.Open(path)
	if err != nil {
		return nil, err
	}
	defer f.Close()
	buf := make([]byte, n)
	_, err = io.ReadFull(io.NewSectionReader(f, off, n), buf)
	return buf, err
}

// ---------------------------------------------------------------------------------------
// C02: result class and visible tree equal those of the reference filesystem (the Lean
// `RefFs`, driven with the same calls by the driver).
func judgeC02(st h.Step, m h.ModelStep) string {
	if m.RefRes != "-" && m.RefRes != "" {
		got := st.Res
		want := strings.SplitN(m.RefRes, "\t", 2)[0]
		switch st.Call.Method {
		case "hread", "hreadat", "hseek", "hwriteat", "htruncate", "hstat", "hname":
			// byte-level handle calls are C14's business
		default:
			if got != want {
				return fmt.Sprintf("%s returned %s, the reference filesystem returns %s", st.Call.Method, got, want)
			}
		}
	}
	if st.TreeE != "" {
		return "walking the tree through the API failed: " + st.TreeE
	}
	if st.Tree == nil {
		return ""
	}
	if len(st.Tree) != len(m.Tree) {
		return fmt.Sprintf("tree has %d entries, the reference has %d: %s", len(st.Tree), len(m.Tree), firstTreeDiff(st.Tree, m.Tree))
	}
	for i := range st.Tree {
		if st.Tree[i] != m.Tree[i] {
			return "tree differs from the reference: " + firstTreeDiff(st.Tree, m.Tree)
		}
	}
	return ""
}

func firstTreeDiff(a, b []string) string {
	in := func(xs []string, x string) bool {
		for _, y := range xs {
			if y == x {
				return true
			}
		}
		return false
	}
	show := func(l string) string {
		f := strings.Split(l, "\t")
		if len(f) < 10 {
			return l
		}
		return fmt.Sprintf("%q kind=%s size=%s perm=%s uid=%s gid=%s mtime=%s hash=%s", h.DecName(f[1]), f[2], f[3], f[4], f[5], f[6], f[7], f[9])
	}
	for _, x := range a {
		if !in(b, x) {
			return "implementation shows " + show(x)
		}
	}
	for _, x := range b {
		if !in(a, x) {
			return "reference shows " + show(x)
		}
	}
	return "order differs"
}

// ---------------------------------------------------------------------------------------
// C05: previous bytes unchanged, whole blocks, nothing appended by a call that failed its
// precondition, and an independent tar reader iterates archives = records + trailer.
func oracleC05(hs *hookState, s *h.Session, st *h.Step) []string {
	var msgs []string
	data, err := os.ReadFile(s.E.Drive)
	if err != nil && !os.IsNotExist(err) {
		return []string{"read drive: " + err.Error()}
	}
	n := int64(len(data))
	if !hs.started {
		hs.started = true
		hs.prevHash = sha256.Sum256(nil)
	}
	if n < hs.prevLen {
		msgs = append(msgs, fmt.Sprintf("tape shrank from %d to %d bytes", hs.prevLen, n))
	} else if sha256.Sum256(data[:hs.prevLen]) != hs.prevHash {
		msgs = append(msgs, fmt.Sprintf("bytes already on the tape (first %d) were changed by %s", hs.prevLen, st.Call.Method))
	}
	if n%512 != 0 {
		msgs = append(msgs, fmt.Sprintf("tape length %d is not a whole number of 512-byte blocks", n))
	}
	switch st.Res {
	case "notexist", "exist", "permission", "invalid", "isdir", "isfile", "notempty":
		if n != hs.prevLen && st.Call.Method != "hclose" && st.Call.Method != "hsync" {
			msgs = append(msgs, fmt.Sprintf("%s failed its precondition (%s) but appended %d bytes", st.Call.Method, st.Res, n-hs.prevLen))
		}
	}
	items, _, err := h.ScanTape(s.E.Drive, 0)
	if err != nil {
		msgs = append(msgs, "scan: "+err.Error())
	}
	inArchive := false
	for _, it := range items {
		switch {
		case it.Trailer && it.HB == 0:
			if !inArchive {
				msgs = append(msgs, fmt.Sprintf("trailer at block %d does not close an archive", it.Block))
			}
			inArchive = false
		case it.Trailer:
			msgs = append(msgs, fmt.Sprintf("lone zero block at block %d", it.Block))
		case it.HB < 0:
			msgs = append(msgs, fmt.Sprintf("block %d is not a tar header", it.Block))
		default:
			inArchive = true
		}
	}
	if inArchive {
		msgs = append(msgs, "the last archive on the tape has no trailer")
	}
	hs.prevLen = n
	hs.prevHash = sha256.Sum256(data)
	if len(msgs) > 3 {
		msgs = msgs[:3]
	}
	return msgs
}

// ---------------------------------------------------------------------------------------
// C15: on a read-only instance the drive bytes and the table never change (apart from
// Initialize building a missing index) and every mutating call answers permission.
func oracleC15(hs *hookState, s *h.Session, st *h.Step) []string {
	if !s.E.Cfg.ReadOnly {
		return nil
	}
	var msgs []string
	data, _ := os.ReadFile(s.E.Drive)
	sum := sha256.Sum256(data)
	rows := []string{}
	for _, l := range st.Obs {
		if strings.HasPrefix(l, "row\t") {
			rows = append(rows, l)
		}
	}
	rj := strings.Join(rows, "\n")
	if !hs.roSeen {
		hs.roSeen = true
		hs.roHash = sum
		hs.roRows = rj
	}
	if sum != hs.roHash {
		msgs = append(msgs, fmt.Sprintf("%s changed the tape of a read-only instance", st.Call.Method))
		hs.roHash = sum
	}
	if rj != hs.roRows {
		if st.Call.Method == "initialize" {
			// building a missing index on first open is allowed
		} else {
			msgs = append(msgs, fmt.Sprintf("%s changed the index of a read-only instance", st.Call.Method))
		}
		hs.roRows = rj
	}
	switch st.Call.Method {
	case "mkdir", "mkdirall", "remove", "removeall", "rename", "chmod", "chown", "chtimes", "symlink", "create":
		if st.Res != "permission" {
			msgs = append(msgs, fmt.Sprintf("mutating call %s on a read-only instance returned %s instead of a permission error", st.Call.Method, st.Res))
		}
	case "hwrite", "hwritestr":
		if st.Res != "permission" && st.Res != "isdir" && st.Res != "badhandle" {
			msgs = append(msgs, fmt.Sprintf("write through a handle of a read-only instance returned %s", st.Res))
		}
	}
	return msgs
}

// ---------------------------------------------------------------------------------------
// C12: a successful RemoveAll / Rename changes exactly the named subtree of the visible tree;
// renaming a directory into its own subtree is refused.
func treeMap(lines []string) map[string]string {
	m := map[string]string{}
	for _, l := range lines {
		f := strings.SplitN(l, "\t", 3)
		if len(f) == 3 {
			m[h.DecName(f[1])] = f[2]
		}
	}
	return m
}

func within(d, p string) bool {
	if d == "/" {
		return true
	}
	return p == d || strings.HasPrefix(p, d+"/")
}

func oracleC12(hs *hookState, s *h.Session, st *h.Step) []string {
	defer func() { hs.prevTree = st.Tree }()
	var msgs []string
	if st.Res != "ok" || st.Tree == nil || hs.prevTree == nil {
		return nil
	}
	prev, cur := treeMap(hs.prevTree), treeMap(st.Tree)
	want := map[string]string{}
	switch st.Call.Method {
	case "removeall":
		d := path.Clean("/" + h.DecName(st.Call.Args[0]))
		for p, v := range prev {
			if !within(d, p) {
				want[p] = v
			}
		}
	case "rename":
		a := path.Clean("/" + h.DecName(st.Call.Args[0]))
		b := path.Clean("/" + h.DecName(st.Call.Args[1]))
		if strings.HasPrefix(b, a+"/") {
			return []string{fmt.Sprintf("renaming %q into its own subtree %q was not refused", a, b)}
		}
		if a == b {
			want = prev
			break
		}
		for p, v := range prev {
			switch {
			case within(a, p):
				want[b+strings.TrimPrefix(p, a)] = v
			case within(b, p):
				// replaced target
			default:
				want[p] = v
			}
		}
	default:
		return nil
	}
	keys := map[string]bool{}
	for k := range want {
		keys[k] = true
	}
	for k := range cur {
		keys[k] = true
	}
	ks := []string{}
	for k := range keys {
		ks = append(ks, k)
	}
	sort.Strings(ks)
	for _, k := range ks {
		w, okw := want[k]
		c, okc := cur[k]
		switch {
		case okw && !okc:
			msgs = append(msgs, fmt.Sprintf("%s: entry %q is gone although it should have been kept/moved there", st.Call.Method, k))
		case !okw && okc:
			msgs = append(msgs, fmt.Sprintf("%s: entry %q is present although it should have been removed/moved away", st.Call.Method, k))
		case w != c:
			msgs = append(msgs, fmt.Sprintf("%s: entry %q was altered", st.Call.Method, k))
		}
		if len(msgs) >= 2 {
			break
		}
	}
	return msgs
}

// ---------------------------------------------------------------------------------------
// C13: the entries reachable by listing from the root are exactly the live entries; every
// entry's parent is a directory; listings contain each child once; limited listings return at
// most n; every listed name stats/opens with matching kind and size.
func oracleC13(hs *hookState, s *h.Session, st *h.Step) []string {
	var msgs []string
	if st.TreeE != "" {
		return []string{"walking the tree through the API failed: " + st.TreeE}
	}
	if st.Tree == nil {
		return nil
	}
	tree := treeMap(st.Tree)
	// live entries according to the table (plain rows; symlink rows are keyed by their target)
	root := ""
	for _, l := range st.Obs {
		if strings.HasPrefix(l, "root\t") {
			root = h.DecName(strings.Split(l, "\t")[1])
		}
	}
	live := map[string]bool{}
	for _, l := range st.Obs {
		if !strings.HasPrefix(l, "row\t") {
			continue
		}
		f := strings.Split(l, "\t")
		if f[9] == "1" || f[2] != "-" {
			continue
		}
		name := h.DecName(f[1])
		live[path.Clean("/"+strings.TrimPrefix(name, root))] = true
	}
	for p := range live {
		if _, ok := tree[p]; !ok {
			msgs = append(msgs, fmt.Sprintf("live entry %q is not reachable by listing directories from the root", p))
			break
		}
	}
	seen := map[string]int{}
	for _, l := range st.Tree {
		seen[strings.SplitN(l, "\t", 3)[1]]++
	}
	for k, n := range seen {
		if n > 1 {
			msgs = append(msgs, fmt.Sprintf("entry %q is listed %d times", h.DecName(k), n))
			break
		}
	}
	for p, v := range tree {
		if !live[p] {
			msgs = append(msgs, fmt.Sprintf("listing shows %q which is not a live entry", p))
			break
		}
		if p != "/" {
			pv, ok := tree[path.Dir(p)]
			if !ok || !strings.HasPrefix(pv, "d\t") {
				msgs = append(msgs, fmt.Sprintf("entry %q has no directory parent", p))
				break
			}
		}
		// stat agrees with the listing
		info, err := s.E.FS.Stat(p)
		if err != nil {
			msgs = append(msgs, fmt.Sprintf("listed entry %q cannot be stat-ed: %v", p, err))
			break
		}
		kind := "f"
		if info.IsDir() {
			kind = "d"
		}
		f := strings.Split(v, "\t")
		if f[0] != kind || (kind == "f" && f[1] != fmt.Sprint(info.Size())) {
			msgs = append(msgs, fmt.Sprintf("listing and stat disagree on %q (listing %s/%s, stat %s/%d)", p, f[0], f[1], kind, info.Size()))
			break
		}
	}
	// count-limited listings of every directory
	for p, v := range tree {
		if !strings.HasPrefix(v, "d\t") {
			continue
		}
		full := 0
		for q := range tree {
			if q != "/" && path.Dir(q) == p {
				full++
			}
		}
		for _, n := range []int{1, 2, 3} {
			d, err := s.E.FS.Open(p)
			if err != nil {
				msgs = append(msgs, fmt.Sprintf("directory %q cannot be opened: %v", p, err))
				break
			}
			infos, err := d.Readdir(n)
			d.Close()
			if err != nil {
				msgs = append(msgs, fmt.Sprintf("Readdir(%d) of %q failed: %v", n, p, err))
				break
			}
			wantN := n
			if full < n {
				wantN = full
			}
			if len(infos) > n {
				msgs = append(msgs, fmt.Sprintf("Readdir(%d) of %q returned %d entries", n, p, len(infos)))
			} else if len(infos) < wantN {
				msgs = append(msgs, fmt.Sprintf("Readdir(%d) of %q returned %d entries although it has %d children", n, p, len(infos), full))
			}
			for _, i := range infos {
				if _, ok := tree[path.Join(p, i.Name())]; !ok {
					msgs = append(msgs, fmt.Sprintf("Readdir(%d) of %q returned %q which is not one of its children", n, p, i.Name()))
				}
			}
		}
		if len(msgs) > 0 {
			break
		}
	}
	if len(msgs) > 2 {
		msgs = msgs[:2]
	}
	return msgs
}

func copyFile(dst, src string) error {
	data, err := os.ReadFile(src)
	if err != nil {
		if os.IsNotExist(err) {
			return nil
		}
		return err
	}
	return os.WriteFile(dst, data, 0o644)
}

// treeOf opens a second instance over copies of the drive and (optionally) the index, runs
// Initialize and walks the tree through the public API.
func treeOf(dir, tag string, e *h.Env, withIndex bool) ([]string, string) {
	sub := filepath.Join(dir, tag)
	os.MkdirAll(sub, 0o755)
	defer os.RemoveAll(sub)
	drive := filepath.Join(sub, "drive.tar")
	db := filepath.Join(sub, "index.sqlite")
	if err := copyFile(drive, e.Drive); err != nil {
		return nil, err.Error()
	}
	if withIndex {
		e.Close()
		if err := copyFile(db, e.DBPath); err != nil {
			return nil, err.Error()
		}
	}
	e2, err := h.NewEnvAt(sub, drive, db, e.Cfg)
	if err != nil {
		return nil, "open: " + err.Error()
	}
	defer e2.Shutdown()
	s2 := h.NewSession(e2)
	var lines []string
	msg := ""
	ok := s2.Guard(func() {
		if _, err := e2.FS.Initialize("/", 0o777); err != nil {
			msg = "Initialize: " + err.Error()
			return
		}
		t, terr := s2.TreeLines()
		if terr != nil {
			msg = "walk: " + terr.Error()
		}
		lines = t
	})
	if !ok {
		return nil, "did not return"
	}
	return lines, msg
}

func diffTrees(what string, live, other []string) string {
	if len(live) != len(other) {
		return fmt.Sprintf("%s shows %d entries, the running instance %d: %s", what, len(other), len(live), firstTreeDiff(other, live))
	}
	for i := range live {
		if live[i] != other[i] {
			return fmt.Sprintf("%s differs from the running instance: %s", what, firstTreeDiff(other, live))
		}
	}
	return ""
}

// ---------------------------------------------------------------------------------------
// C01: after every call, (a) a fresh instance over a copy of the existing index and (b) a
// fresh instance that rebuilds the index from a copy of the tape show the tree and contents
// the running instance shows.
func oracleC01(i int, dir string, s *h.Session, st *h.Step) []string {
	if st.Tree == nil || st.TreeE != "" {
		if st.TreeE != "" {
			return []string{"the running instance cannot be walked: " + st.TreeE}
		}
		return nil
	}
	var msgs []string
	re, emsg := treeOf(dir, fmt.Sprintf("reopen%d", i), s.E, true)
	if emsg != "" {
		msgs = append(msgs, "reopening the existing index in a fresh instance failed: "+emsg)
	} else if d := diffTrees("a fresh instance over the existing index", st.Tree, re); d != "" {
		msgs = append(msgs, d)
	}
	rb, emsg := treeOf(dir, fmt.Sprintf("rebuild%d", i), s.E, false)
	if emsg != "" {
		msgs = append(msgs, "rebuilding the index from the tape failed: "+emsg)
	} else if d := diffTrees("an index rebuilt from the tape", st.Tree, rb); d != "" {
		msgs = append(msgs, d)
	}
	return msgs
}

// ---------------------------------------------------------------------------------------
// C07: replaying the whole tape into the live index (no wipe) reports no error and shows the
// same tree as a from-scratch rebuild; a second replay changes nothing.
func oracleC07(i int, dir string, s *h.Session, st *h.Step) []string {
	if st.Tree == nil || st.TreeE != "" {
		return nil
	}
	e := s.E
	sub := filepath.Join(dir, fmt.Sprintf("replay%d", i))
	os.MkdirAll(sub, 0o755)
	defer os.RemoveAll(sub)
	drive := filepath.Join(sub, "drive.tar")
	db := filepath.Join(sub, "index.sqlite")
	copyFile(drive, e.Drive)
	e.Close()
	copyFile(db, e.DBPath)
	e2, err := h.NewEnvAt(sub, drive, db, e.Cfg)
	if err != nil {
		return []string{"open: " + err.Error()}
	}
	defer e2.Shutdown()
	s2 := h.NewSession(e2)
	var msgs []string
	ok := s2.Guard(func() {
		for pass := 1; pass <= 2; pass++ {
			if err := h.Replay(e2, false); err != nil {
				msgs = append(msgs, fmt.Sprintf("replaying the tape into the existing index (pass %d) failed: %v", pass, err))
				return
			}
			t, terr := s2.TreeLines()
			if terr != nil {
				msgs = append(msgs, fmt.Sprintf("after replay pass %d the tree cannot be walked: %v", pass, terr))
				return
			}
			if d := diffTrees(fmt.Sprintf("the index after replay pass %d", pass), st.Tree, t); d != "" {
				msgs = append(msgs, d)
				return
			}
		}
	})
	if !ok {
		msgs = append(msgs, "replay did not return")
	}
	return msgs
}

// ---------------------------------------------------------------------------------------
// C16: Initialize over an existing tape never removes or rewrites tape content and appends
// nothing when a root exists on the tape; when it succeeds the filesystem shows what a
// from-scratch rebuild of that tape shows; later writes are retrievable and survive a rebuild
// (the last two through the C01 comparison, which runs after every later call as well).
func oracleC16(hs *hookState, i int, dir string, s *h.Session, st *h.Step) []string {
	var msgs []string
	data, _ := os.ReadFile(s.E.Drive)
	if st.Call.Method == "initialize" && hs.started {
		n := hs.prevLen
		if int64(len(data)) < n || sha256.Sum256(data[:n]) != hs.prevHash {
			msgs = append(msgs, "Initialize removed or rewrote tape content")
		} else if int64(len(data)) != n {
			// a root on the surviving tape?
			items, _, _ := h.ScanTape(s.E.Drive, 0)
			rootOnTape := false
			for _, it := range items {
				if it.Hdr != nil && it.Block*512 < n {
					switch it.Hdr.Name {
					case "/", "", ".", "./":
						rootOnTape = true
					}
				}
			}
			if rootOnTape {
				msgs = append(msgs, fmt.Sprintf("Initialize appended %d bytes although a root already exists on the tape", int64(len(data))-n))
			}
		}
	}
	hs.started = true
	hs.prevLen = int64(len(data))
	hs.prevHash = sha256.Sum256(data)
	if hs.indexAhead {
		return msgs // the index reflects records the crash took away: only non-destructiveness is in scope
	}
	if st.Res == "ok" || st.Call.Method != "initialize" {
		msgs = append(msgs, oracleC01(i, dir, s, st)...)
	}
	return msgs
}

// ---------------------------------------------------------------------------------------
// C14: bytes, counts, offsets and end-of-file signalling of every handle call equal those of
// the byte-array reference (`Spec/ByteFile.lean`, run by the driver on the same calls); after
// close the content read back and the size equal the reference's (tree comparison).
func judgeC14(st h.Step, m h.ModelStep) string {
	switch st.Call.Method {
	case "hread", "hreadat", "hseek", "hwrite", "hwritestr", "hwriteat", "htruncate":
	default:
		if st.Tree != nil && m.Tree != nil && (st.Call.Method == "hclose" || st.Call.Method == "hsync") {
			for i := range st.Tree {
				if i >= len(m.Tree) || st.Tree[i] != m.Tree[i] {
					return "after " + st.Call.Method + " the files differ from the reference: " + firstTreeDiff(st.Tree, m.Tree)
				}
			}
		}
		return ""
	}
	if m.RefRes == "" || m.RefRes == "-" || m.RefRes == "badhandle" {
		return ""
	}
	impl := ""
	for _, l := range st.Obs {
		if strings.HasPrefix(l, "res\t") {
			impl = strings.TrimPrefix(l, "res\t")
			break
		}
	}
	norm := func(s string) []string { return strings.Fields(strings.ReplaceAll(s, "\t", " ")) }
	a, b := norm(impl), norm(m.RefRes)
	if st.Call.Method == "hread" || st.Call.Method == "hreadat" {
		if len(a) > 3 {
			// end-of-file signalling: required when nothing was returned for a non-empty request
			if a[1] == "0" && a[3] == "0" && len(st.Call.Args) > 1 && st.Call.Args[1] != "0" && len(b) > 1 && b[0] == "ok" {
				return fmt.Sprintf("%s returned no bytes and no end-of-file", st.Call.Method)
			}
			a = a[:3]
		}
	}
	if strings.Join(a, " ") != strings.Join(b, " ") {
		return fmt.Sprintf("%s returned [%s], the byte-array reference [%s]", st.Call.Method, strings.Join(a, " "), strings.Join(b, " "))
	}
	return ""
}
