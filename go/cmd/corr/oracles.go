package main

import (
	"verifharness/internal/h"
)

// oracleHook returns the per-call hook that evaluates the property oracles which need the
// live instance (rebuild/reopen comparison, fetch by position, ...).
func oracleHook(o fsOpts, dir string) func(i int, s *h.Session, st *h.Step) {
	return nil
}

// judgeOracles evaluates the oracles that compare the implementation with the model's
// reference outputs, and classifies failures against the triggers the model reported.
func judgeOracles(o fsOpts, hist *h.History, m []h.ModelStep, res *result) {
}
