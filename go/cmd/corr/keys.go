package main

import (
	"bytes"
	"fmt"
	"math/rand"
	"os/exec"
	"strings"
	"sync"

	"github.com/pojntfx/stfs/pkg/config"
	"github.com/pojntfx/stfs/pkg/encryption"
	"github.com/pojntfx/stfs/pkg/keys"
	"github.com/pojntfx/stfs/pkg/signature"
	"github.com/pojntfx/stfs/pkg/utility"

	"verifharness/internal/h"
)

// C18: key generation and parsing.  Every case generates two fresh pairs of one format under
// one password with the real utility.Keygen, then parses the private half with the right
// password and with several different ones (keys.ParseIdentity / ParseSignerIdentity), uses
// what parsing returned (EncryptString/DecryptString or SignString/VerifyString) against its
// own public half and against the other pair's, and compares every outcome with the Lean
// model's prediction.  The oracle states the property on the real code.

type keyKind struct {
	name string // protocol name
	enc  bool
	fmt  string // config key
	mfmt string // model format
}

var keyKinds = []keyKind{
	{"enc-age", true, config.EncryptionFormatAgeKey, "age"},
	{"enc-pgp", true, config.EncryptionFormatPGPKey, "pgp"},
	{"sig-minisign", false, config.SignatureFormatMinisignKey, "minisign"},
	{"sig-pgp", false, config.SignatureFormatPGPKey, "pgp"},
}

func genPassword(r *rand.Rand) string {
	switch r.Intn(12) {
	case 0, 1:
		return ""
	case 2:
		return "pässwörd-日本語"
	case 3:
		return strings.Repeat("long-password-", 20+r.Intn(30))
	case 4:
		return " leading"
	case 5:
		return "trailing "
	case 6:
		return "tab\tin\tside"
	case 7:
		return " nbsp　"
	case 8:
		return "new\nline"
	case 9:
		return "x"
	}
	n := 1 + r.Intn(16)
	b := make([]byte, n)
	for i := range b {
		b[i] = byte(33 + r.Intn(94))
	}
	return string(b)
}

// otherPasswords: different passwords that a sloppy comparison would confuse with pw
func otherPasswords(r *rand.Rand, pw string) []string {
	c := []string{"", pw + "x", pw + " ", " " + pw, strings.TrimSpace(pw), strings.ToUpper(pw), "other"}
	if len(pw) > 1 {
		c = append(c, pw[:len(pw)-1])
	}
	out := []string{}
	seen := map[string]bool{pw: true}
	for _, x := range c {
		if !seen[x] {
			seen[x] = true
			out = append(out, x)
		}
	}
	r.Shuffle(len(out), func(i, j int) { out[i], out[j] = out[j], out[i] })
	if len(out) > 3 {
		out = out[:3]
	}
	return out
}

type keyProbe struct {
	kind    keyKind
	genPw   string
	parsePw string
	// outcomes on the real code
	parse  string // ok | err
	use    string // ok | fail | -   (against its own public half)
	cross  string // ok | fail | -   (against the other pair's public half)
	detail string
}

func (p keyProbe) line() string {
	return strings.Join([]string{"key", p.kind.mfmt, h.EncName(p.genPw), h.EncName(p.parsePw)}, "\t")
}

func (p keyProbe) obs() string {
	return fmt.Sprintf("keyres\tparse=%s\tuse=%s\tcross=%s", p.parse, p.use, p.cross)
}

func guardPanic(f func() error) (err error) {
	defer func() {
		if r := recover(); r != nil {
			err = fmt.Errorf("panic: %v", r)
		}
	}()
	return f()
}

// useKey reports whether the parsed identity works against the given public half.
func useKey(k keyKind, identity interface{}, pub []byte, msg string) (bool, string) {
	var why string
	ok := false
	err := guardPanic(func() error {
		if k.enc {
			rcpt, err := keys.ParseRecipient(k.fmt, pub)
			if err != nil {
				return fmt.Errorf("parse recipient: %w", err)
			}
			ct, err := encryption.EncryptString(msg, k.fmt, rcpt)
			if err != nil {
				return fmt.Errorf("encrypt: %w", err)
			}
			pt, err := encryption.DecryptString(ct, k.fmt, identity)
			if err != nil {
				return fmt.Errorf("decrypt: %w", err)
			}
			if pt != msg {
				return fmt.Errorf("decrypts to different data")
			}
			ok = true
			return nil
		}
		rcpt, err := keys.ParseSignerRecipient(k.fmt, pub)
		if err != nil {
			return fmt.Errorf("parse recipient: %w", err)
		}
		sig, err := signature.SignString(msg, true, k.fmt, identity)
		if err != nil {
			return fmt.Errorf("sign: %w", err)
		}
		if err := signature.VerifyString(msg, true, k.fmt, rcpt, sig); err != nil {
			return fmt.Errorf("verify: %w", err)
		}
		ok = true
		return nil
	})
	if err != nil {
		why = err.Error()
	}
	return ok, why
}

func runKeyCase(seed int64, j int) []keyProbe {
	r := rand.New(rand.NewSource(seed*1_000_003 + int64(j)))
	k := keyKinds[j%len(keyKinds)]
	pw := genPassword(r)
	pc := config.PipeConfig{}
	if k.enc {
		pc.Encryption = k.fmt
	} else {
		pc.Signature = k.fmt
	}
	var privA, pubA, pubB []byte
	var gerr error
	if e := guardPanic(func() error {
		privA, pubA, gerr = utility.Keygen(pc, config.PasswordConfig{Password: pw})
		if gerr != nil {
			return gerr
		}
		_, pubB, gerr = utility.Keygen(pc, config.PasswordConfig{Password: pw})
		return gerr
	}); e != nil {
		return []keyProbe{{kind: k, genPw: pw, parsePw: pw, parse: "keygen-failed", use: "-", cross: "-", detail: e.Error()}}
	}
	msg := fmt.Sprintf("message-%d-%d", seed, j)
	var out []keyProbe
	for _, ppw := range append([]string{pw}, otherPasswords(r, pw)...) {
		p := keyProbe{kind: k, genPw: pw, parsePw: ppw, use: "-", cross: "-"}
		var identity interface{}
		err := guardPanic(func() error {
			var e error
			if k.enc {
				identity, e = keys.ParseIdentity(k.fmt, privA, ppw)
			} else {
				identity, e = keys.ParseSignerIdentity(k.fmt, privA, ppw)
			}
			return e
		})
		if err != nil {
			p.parse = "err"
			p.detail = err.Error()
		} else {
			p.parse = "ok"
			ok, why := useKey(k, identity, pubA, msg)
			p.use = map[bool]string{true: "ok", false: "fail"}[ok]
			if !ok {
				p.detail = why
			}
			okc, _ := useKey(k, identity, pubB, msg)
			p.cross = map[bool]string{true: "ok", false: "fail"}[okc]
		}
		out = append(out, p)
	}
	return out
}

func runKeys(o fsOpts) *result {
	res := &result{Methods: map[string]int{}, Results: map[string]int{}, Triggers: map[string]int{}, Branches: map[string]int{},
		KnownHits: map[string]int{}, OracleChecks: map[string]int{}}
	var mu sync.Mutex
	var wg sync.WaitGroup
	jobs := make(chan int)
	var all []keyProbe
	for w := 0; w < o.workers; w++ {
		wg.Add(1)
		go func() {
			defer wg.Done()
			for j := range jobs {
				ps := runKeyCase(o.seed, j)
				mu.Lock()
				all = append(all, ps...)
				mu.Unlock()
			}
		}()
	}
	for j := 0; j < o.n; j++ {
		jobs <- j
	}
	close(jobs)
	wg.Wait()
	// the model's predictions
	var in bytes.Buffer
	for _, p := range all {
		in.WriteString(p.line() + "\n")
	}
	cmd := exec.Command(o.driver)
	cmd.Stdin = &in
	var outb, errb bytes.Buffer
	cmd.Stdout = &outb
	cmd.Stderr = &errb
	if err := cmd.Run(); err != nil {
		res.Mismatches = append(res.Mismatches, h.Mismatch{Kind: "driver-error", Impl: []string{err.Error() + ": " + errb.String()}})
		return res
	}
	lines := strings.Split(strings.TrimRight(outb.String(), "\n"), "\n")
	if len(lines) != len(all) {
		res.Mismatches = append(res.Mismatches, h.Mismatch{Kind: "driver-error", Impl: []string{fmt.Sprintf("%d probes, %d answers", len(all), len(lines))}})
		return res
	}
	for i, p := range all {
		res.Calls++
		res.Methods[p.kind.name]++
		res.OracleChecks["C18"]++
		f := strings.Split(lines[i], "\ttrig=")
		model := f[0]
		trig := []string{}
		if len(f) > 1 && f[1] != "" {
			trig = strings.Split(f[1], ",")
		}
		for _, t := range trig {
			res.Triggers[t]++
		}
		class := "same-password"
		if p.genPw != p.parsePw {
			class = "different-password"
		}
		res.Results[p.kind.name+":"+class+":"+p.obs()[7:]]++
		calls := []string{p.line()}
		agree := p.obs() == model
		if !agree {
			res.Mismatches = append(res.Mismatches, h.Mismatch{Hist: fmt.Sprintf("%d-%d", o.seed, i), Step: 0, Kind: "corr",
				Impl: []string{p.obs(), p.detail}, Model: []string{model}, Calls: calls})
		}
		// the property, on the real code
		var what string
		switch {
		case p.parse == "keygen-failed":
			what = "key generation failed: " + p.detail
		case p.genPw == p.parsePw && p.parse != "ok":
			what = "a freshly generated pair does not parse with its own password: " + p.detail
		case p.genPw == p.parsePw && p.use != "ok":
			what = "data encrypted/signed with one half is not decrypted/verified by the other: " + p.detail
		case p.genPw != p.parsePw && p.parse == "ok":
			what = "parsing the private half with a different password succeeded"
			if p.use == "ok" {
				what += " and the key works"
			}
		case p.cross == "ok":
			what = "a pair decrypted/verified data produced under another pair"
		}
		if what != "" {
			of := OracleFail{Property: "C18", Hist: fmt.Sprintf("%d-%d", o.seed, i), Step: 0, Triggers: trig, Calls: calls,
				What: fmt.Sprintf("%s [format %s, password %q, parsed with %q]", what, p.kind.name, p.genPw, p.parsePw)}
			if agree {
				of.Known = o.known.Explain("C18", trig)
			}
			if of.Known != "" {
				res.KnownHits[of.Known]++
			}
			res.OracleFails = append(res.OracleFails, of)
		}
	}
	res.Histories = o.n
	res.Nontrivial = len(res.Results)
	return res
}
