package main

import (
	"fmt"
	"math/rand"
	"os"
	"path"
	"sort"
	"strings"

	"verifharness/internal/h"
)

// walkComposed walks the composed filesystem from "/" and renders every entry; contents are
// read through the handle API (Open + ReadAll), as a client of the composed filesystem would.
func walkComposed(s *h.Session, fsys aferoFs) ([]string, error) {
	out := []string{}
	var walk func(dir string, depth int) error
	walk = func(dir string, depth int) error {
		if depth > 12 {
			return fmt.Errorf("deeper than 12 at %q", dir)
		}
		d, err := fsys.Open(dir)
		if err != nil {
			return fmt.Errorf("open %q: %w", dir, err)
		}
		infos, err := d.Readdir(-1)
		d.Close()
		if err != nil {
			return fmt.Errorf("readdir %q: %w", dir, err)
		}
		for _, i := range infos {
			p := path.Join(dir, i.Name())
			if i.IsDir() {
				out = append(out, "d "+p)
				if err := walk(p, depth+1); err != nil {
					return err
				}
				continue
			}
			f, err := fsys.Open(p)
			if err != nil {
				return fmt.Errorf("open %q: %w", p, err)
			}
			var b []byte
			if i.Size() > 0 {
				b, err = ioReadAll(f)
			}
			f.Close()
			if err != nil {
				return fmt.Errorf("read %q: %w", p, err)
			}
			out = append(out, fmt.Sprintf("f %s %d %d", p, i.Size(), h.PolyHash(b)))
		}
		return nil
	}
	err := walk("/", 0)
	sort.Strings(out)
	return out, err
}

func runForeignProbe(seed int64, n int, rs []int) {
	for j := 0; j < n; j++ {
		r := rand.New(rand.NewSource(seed*1000003 + int64(j)))
		spec := h.GenForeign(r, j)
		dir, _ := os.MkdirTemp("", "verif-foreign-")
		c := h.DefaultCfg()
		c.RS = rs[j%len(rs)]
		drive := dir + "/drive.tar"
		if err := h.WriteForeign(drive, spec); err != nil {
			fmt.Println(j, "write:", err)
			os.RemoveAll(dir)
			continue
		}
		e, err := h.NewEnvAt(dir, drive, dir+"/index.sqlite", c)
		if err != nil {
			fmt.Println(j, "env:", err)
			continue
		}
		s := h.NewSession(e)
		var root string
		var ierr error
		ok := s.Guard(func() { root, ierr = e.FS.Initialize("/", 0o777) })
		fmt.Printf("== %d fmt=%s style=%q top=%s rs=%d members=%d init: ok=%v root=%q err=%v\n", j, spec.FormatName(), spec.Style, spec.Top, c.RS, len(spec.Members), ok, root, ierr)
		if ok && ierr == nil {
			comp, cerr := composed(e, root)
			if cerr != nil {
				fmt.Println("  compose:", cerr)
			} else {
				var got []string
				var werr error
				if !s.Guard(func() { got, werr = walkComposed(s, comp) }) {
					fmt.Println("  walk: stuck")
				} else {
					want := spec.ExpectedTree()
					if werr != nil || strings.Join(got, "\n") != strings.Join(want, "\n") {
						fmt.Println("  walk err:", werr)
						fmt.Println("  want:", strings.Join(want, " | "))
						fmt.Println("  got :", strings.Join(got, " | "))
						rows, _ := e.RowLines()
						for _, l := range rows {
							f := strings.Split(l, "\t")
							fmt.Printf("    row %q del=%s\n", h.DecName(f[1]), f[9])
						}
					} else {
						fmt.Println("  tree ok")
					}
				}
			}
		}
		e.Close()
		os.RemoveAll(dir)
	}
}

// foreignGen produces the calls that follow the opening of a foreign archive, in STFS-level
// names (what the composition hands to the instance), and keeps the tree a user expects: the
// archive's members plus what later calls added, removed or renamed successfully.
type foreignGen struct {
	r       *rand.Rand
	spec    h.ForeignSpec
	root    string
	rooted  bool // Initialize has returned
	tree    map[string]h.ForeignMember
	pending []h.Call
	nextH   int64
	// the change the call sequence in flight makes to the tree when every step succeeds
	onOK    func()
	seqOK   bool
	seqLast bool   // the call just issued ends its sequence
	seqWhat string // what the sequence is, for messages; "" when failure is acceptable
	msgs    []string
}

func newForeignGen(r *rand.Rand, spec h.ForeignSpec) *foreignGen {
	g := &foreignGen{r: r, spec: spec, tree: map[string]h.ForeignMember{}}
	for _, m := range spec.Members {
		g.tree[m.Rel] = m
	}
	return g
}

func isRootSpelling(s string) bool { return s == "" || s == "." || s == "/" || s == "./" }

// real maps a client path (relative to the top directory) to the name the instance is called
// with: the composition passes names through when the root is a root spelling and joins them
// to the root otherwise (afero.BasePathFs).
func (g *foreignGen) real(rel string, spelled bool) string {
	if isRootSpelling(g.root) {
		if spelled {
			switch g.r.Intn(3) {
			case 0:
				return rel
			case 1:
				return "./" + rel
			}
		}
		return "/" + rel
	}
	return path.Clean(path.Join(g.root, "/"+rel))
}

func (g *foreignGen) pick(dir, file bool) (string, bool) {
	var c []string
	for rel, m := range g.tree {
		if rel == "" {
			continue
		}
		if (m.Dir && dir) || (!m.Dir && file) {
			c = append(c, rel)
		}
	}
	if len(c) == 0 {
		return "", false
	}
	sort.Strings(c)
	return c[g.r.Intn(len(c))], true
}

func (g *foreignGen) pickDir() string {
	c := []string{""}
	for rel, m := range g.tree {
		if m.Dir && rel != "" && strings.Count(rel, "/") < 3 {
			c = append(c, rel)
		}
	}
	sort.Strings(c)
	return c[g.r.Intn(len(c))]
}

func (g *foreignGen) fresh() string {
	for {
		d := g.pickDir()
		n := []string{"new", "n1", "n2", "added", "z", "later.txt"}[g.r.Intn(6)] + fmt.Sprint(g.r.Intn(50))
		rel := n
		if d != "" {
			rel = d + "/" + n
		}
		if _, ok := g.tree[rel]; !ok {
			return rel
		}
	}
}

func (g *foreignGen) Next() h.Call {
	if len(g.pending) > 0 {
		c := g.pending[0]
		g.pending = g.pending[1:]
		g.seqLast = len(g.pending) == 0
		return c
	}
	g.onOK, g.seqOK, g.seqLast, g.seqWhat = nil, true, true, ""
	e := h.EncName
	switch k := g.r.Intn(100); {
	case k < 18:
		if p, ok := g.pick(true, true); ok {
			return h.Call{Method: "stat", Args: []string{e(g.real(p, true))}}
		}
	case k < 30:
		if p, ok := g.pick(false, true); ok {
			return h.Call{Method: "cat", Args: []string{e(g.real(p, true))}}
		}
	case k < 42:
		g.nextH++
		id := fmt.Sprint(g.nextH)
		g.pending = []h.Call{{Method: "hreaddir", Args: []string{id, "-1"}}, {Method: "hclose", Args: []string{id}}}
		g.seqLast = false
		return h.Call{Method: "open", Args: []string{id, e(g.real(g.pickDir(), true))}}
	case k < 66:
		// a file added through the filesystem
		rel := g.fresh()
		g.nextH++
		id := fmt.Sprint(g.nextH)
		n := []int{0, 1, 300, 512, 700, 1400}[g.r.Intn(6)]
		seed := g.r.Intn(1 << 20)
		g.pending = []h.Call{{Method: "hwrite", Args: []string{id, fmt.Sprint(n), fmt.Sprint(seed)}}, {Method: "hclose", Args: []string{id}}}
		g.seqLast = false
		g.seqWhat = "adding the file " + rel
		g.onOK = func() { g.tree[rel] = h.ForeignMember{Rel: rel, Len: n, Seed: seed} }
		return h.Call{Method: "create", Args: []string{id, e(g.real(rel, false))}}
	case k < 76:
		rel := g.fresh()
		g.seqWhat = "adding the directory " + rel
		g.onOK = func() { g.tree[rel] = h.ForeignMember{Rel: rel, Dir: true} }
		return h.Call{Method: "mkdir", Args: []string{e(g.real(rel, false)), "493"}}
	case k < 84:
		if p, ok := g.pick(false, true); ok {
			g.onOK = func() { delete(g.tree, p) }
			return h.Call{Method: "remove", Args: []string{e(g.real(p, true))}}
		}
	case k < 92:
		if p, ok := g.pick(false, true); ok {
			to := g.fresh()
			m := g.tree[p]
			g.onOK = func() { delete(g.tree, p); m.Rel = to; g.tree[to] = m }
			return h.Call{Method: "rename", Args: []string{e(g.real(p, false)), e(g.real(to, false))}}
		}
	default:
		if p, ok := g.pick(true, true); ok {
			return h.Call{Method: "chmod", Args: []string{e(g.real(p, true)), "420"}}
		}
	}
	return h.Call{Method: "stat", Args: []string{e(g.real("", true))}}
}

func (g *foreignGen) expected() []string {
	s := g.spec
	s.Members = nil
	for _, m := range g.tree {
		s.Members = append(s.Members, m)
	}
	return s.ExpectedTree()
}

// hook is the C17 oracle.  After every call that returned it checks, on the real code through
// the documented composition, that (1) the tree a client sees is the expected one — every
// member listed under its directory, every regular member byte-identical —, (2) '/p', 'p' and
// './p' name the same entry for every member, and (3) additions succeed.
func (g *foreignGen) hook(i int, s *h.Session, st *h.Step) {
	add := func(m string) { st.OracleMsgs = append(st.OracleMsgs, "C17\x00"+m) }
	if st.Directive {
		g.rooted = false
		return
	}
	if st.Call.Method == "initialize" {
		if st.Res != "ok" {
			add("opening the archive failed: Initialize returned " + st.Res)
			return
		}
		f := strings.Split(st.Obs[0], "\t")
		if len(f) >= 3 {
			g.root = h.DecName(f[2])
		}
		g.rooted = true
	} else {
		if st.Res != "ok" {
			g.seqOK = false
		}
		if g.seqLast {
			if g.seqOK && g.onOK != nil {
				g.onOK()
			}
			if !g.seqOK && g.seqWhat != "" {
				add(g.seqWhat + " through the filesystem failed (" + st.Call.Method + ": " + st.Res + ")")
			}
		} else {
			return // in the middle of a create/write/close sequence
		}
	}
	if !g.rooted || len(s.Streaming) > 0 {
		return
	}
	comp, err := composed(s.E, g.root)
	if err != nil {
		add("composition failed: " + err.Error())
		return
	}
	got, werr := walkComposed(s, comp)
	want := g.expected()
	if werr != nil {
		add("walking the filesystem failed: " + werr.Error())
	} else if strings.Join(got, "\n") != strings.Join(want, "\n") {
		add("the filesystem does not show the archive's members plus later additions: " + diffLines(want, got))
	}
	// spellings (a sample of members each time)
	k := 0
	for rel, m := range g.tree {
		if rel == "" || k >= 4 {
			continue
		}
		k++
		var first string
		for _, sp := range []string{"/" + rel, rel, "./" + rel} {
			info, err := comp.Stat(sp)
			desc := ""
			if err != nil {
				desc = "error " + h.ClassOf(err)
			} else {
				desc = fmt.Sprintf("%s dir=%v size=%d", info.Name(), info.IsDir(), info.Size())
				if info.IsDir() {
					desc = fmt.Sprintf("%s dir=true", info.Name())
				}
			}
			if sp == "/"+rel {
				first = desc
				if err != nil || info.IsDir() != m.Dir {
					add(fmt.Sprintf("member %q: Stat(%q) gives %s", rel, sp, desc))
				}
			} else if desc != first {
				add(fmt.Sprintf("spellings of %q disagree: %q gives %s, %q gives %s", rel, "/"+rel, first, sp, desc))
			}
		}
	}
}

func diffLines(want, got []string) string {
	w := map[string]bool{}
	for _, l := range want {
		w[l] = true
	}
	gm := map[string]bool{}
	for _, l := range got {
		gm[l] = true
	}
	var miss, extra []string
	for _, l := range want {
		if !gm[l] {
			miss = append(miss, l)
		}
	}
	for _, l := range got {
		if !w[l] {
			extra = append(extra, l)
		}
	}
	if len(miss) > 4 {
		miss = miss[:4]
	}
	if len(extra) > 4 {
		extra = extra[:4]
	}
	return fmt.Sprintf("missing %q, unexpected %q", miss, extra)
}
