package main

import (
	"io"

	"github.com/pojntfx/stfs/pkg/cache"
	"github.com/pojntfx/stfs/pkg/config"
	"github.com/spf13/afero"

	"verifharness/internal/h"
)

type aferoFs = afero.Fs

func ioReadAll(f afero.File) ([]byte, error) { return io.ReadAll(f) }

// composed is the documented composition: the filesystem as served by `stfs serve …` with the
// cache switched off (cache.NewCacheFilesystem wraps the instance in a base-path view unless
// the root returned by Initialize is a root spelling).
func composed(e *h.Env, root string) (afero.Fs, error) {
	return cache.NewCacheFilesystem(e.FS, root, config.NoneKey, 0, "")
}
