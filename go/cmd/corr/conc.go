package main

import (
	"bytes"
	"encoding/json"
	"fmt"
	"math/rand"
	"os"
	"os/exec"
	"path/filepath"
	"runtime"
	"sort"
	"strings"
	"sync"
	"sync/atomic"
	"time"

	"verifharness/internal/h"
)

// C11: the concurrency stream.  After a sequential prefix that populates the instance, K
// clients (goroutines) run short programs at the same time over shared and disjoint paths;
// every seam crossing (index store, drive reads/writes) yields or sleeps at random.  Then:
//
//   - every call must have returned (watchdog);
//   - there must be a sequential order of all calls — respecting each client's program order and
//     real time (a call that returned before another was invoked comes first) — for which the
//     Lean model (the sequential specification, run through the driver) gives every call the
//     result it got and ends in the same index and tape;
//   - the final index must be reproducible from the tape (rebuild and compare);
//   - built with the race detector: any report is a failure.
//
// The search for the order is exhaustive over the valid interleavings (capped).

type concOp struct {
	client, idx int
	call        h.Call
	res         string
	inv, ret    int64
}

func normRes(s string) string {
	// stat and readdir results carry modification times, which depend on the wall clock: drop them
	f := strings.Split(s, "\t")
	if len(f) >= 3 && f[1] == "ok" {
		infos := strings.Split(f[2], ";")
		for k, inf := range infos {
			parts := strings.Split(inf, " ")
			if len(parts) == 7 {
				parts[4] = "T"
				infos[k] = strings.Join(parts, " ")
			}
		}
		f[2] = strings.Join(infos, ";")
	}
	return strings.Join(f, "\t")
}

func normRow(l string) string {
	f := strings.Split(l, "\t")
	if len(f) >= 18 && f[0] == "row" {
		f[15], f[16], f[17] = "T", "T", "T"
	}
	return strings.Join(f, "\t")
}

func normRows(ls []string) []string {
	out := []string{}
	for _, l := range ls {
		if strings.HasPrefix(l, "row\t") {
			out = append(out, normRow(l))
		}
		if strings.HasPrefix(l, "blocks\t") {
			out = append(out, l)
		}
	}
	return out
}

// clientPrograms builds the concurrent part: K programs over a small shared namespace.
func clientPrograms(r *rand.Rand, k int, perClient int, dirs []string, files []string, handleBase int64) [][]h.Call {
	progs := make([][]h.Call, k)
	e := h.EncName
	fresh := 0
	for c := 0; c < k; c++ {
		var p []h.Call
		for len(p) == 0 {
			switch x := r.Intn(100); {
			case x < 22:
				// the same new directory name from several clients: exactly one must win
				d := dirs[r.Intn(len(dirs))]
				p = append(p, h.Call{Method: "mkdir", Args: []string{e(strings.TrimSuffix(d, "/") + "/shared" + fmt.Sprint(r.Intn(2))), "493"}})
			case x < 40:
				fresh++
				id := fmt.Sprint(handleBase + int64(c*100+fresh))
				d := dirs[r.Intn(len(dirs))]
				n := []int{0, 1, 200, 700}[r.Intn(4)]
				p = append(p, h.Call{Method: "create", Args: []string{id, e(fmt.Sprintf("%s/c%dn%d", strings.TrimSuffix(d, "/"), c, fresh))}},
					h.Call{Method: "hwrite", Args: []string{id, fmt.Sprint(n), fmt.Sprint(r.Intn(1 << 20))}},
					h.Call{Method: "hclose", Args: []string{id}})
			case x < 52:
				if len(files) > 0 {
					p = append(p, h.Call{Method: "remove", Args: []string{e(files[r.Intn(len(files))])}})
				}
			case x < 60:
				// remove a (probably non-empty or just emptied) directory
				p = append(p, h.Call{Method: "remove", Args: []string{e(dirs[1+r.Intn(len(dirs)-1)])}})
			case x < 70:
				if len(files) > 0 {
					fresh++
					p = append(p, h.Call{Method: "rename", Args: []string{e(files[r.Intn(len(files))]), e(fmt.Sprintf("/r%dn%d", c, fresh))}})
				}
			case x < 80:
				all := append(append([]string{}, dirs[1:]...), files...)
				p = append(p, h.Call{Method: "chmod", Args: []string{e(all[r.Intn(len(all))]), fmt.Sprint([]int{448, 420, 493}[r.Intn(3)])}})
			case x < 92:
				all := append(append([]string{}, dirs...), files...)
				p = append(p, h.Call{Method: "stat", Args: []string{e(all[r.Intn(len(all))])}})
			default:
				fresh++
				id := fmt.Sprint(handleBase + int64(c*100+fresh))
				p = append(p, h.Call{Method: "open", Args: []string{id, e(dirs[r.Intn(len(dirs))])}},
					h.Call{Method: "hreaddir", Args: []string{id, "-1"}},
					h.Call{Method: "hclose", Args: []string{id}})
			}
		}
		// a second, single-call operation when there is room
		if len(p) < perClient {
			all := append(append([]string{}, dirs[1:]...), files...)
			switch r.Intn(3) {
			case 0:
				p = append(p, h.Call{Method: "stat", Args: []string{e(all[r.Intn(len(all))])}})
			case 1:
				p = append(p, h.Call{Method: "mkdir", Args: []string{e(strings.TrimSuffix(dirs[r.Intn(len(dirs))], "/") + "/shared" + fmt.Sprint(r.Intn(2))), "493"}})
			default:
				p = append(p, h.Call{Method: "chmod", Args: []string{e(all[r.Intn(len(all))]), "448"}})
			}
		}
		if len(p) > perClient && p[0].Method != "create" && p[0].Method != "open" {
			p = p[:perClient]
		}
		progs[c] = p
	}
	return progs
}

// validOrders enumerates the total orders of ops that respect program order and real time.
func validOrders(ops []concOp, limit int) [][]int {
	n := len(ops)
	var out [][]int
	used := make([]bool, n)
	cur := make([]int, 0, n)
	next := map[int]int{} // client -> next idx
	var rec func()
	rec = func() {
		if len(out) >= limit {
			return
		}
		if len(cur) == n {
			out = append(out, append([]int{}, cur...))
			return
		}
		// the earliest return among the unplaced ops: nothing invoked after it may come before it
		minRet := int64(1 << 62)
		for i := 0; i < n; i++ {
			if !used[i] && ops[i].ret < minRet {
				minRet = ops[i].ret
			}
		}
		for i := 0; i < n; i++ {
			if used[i] || ops[i].idx != next[ops[i].client] || ops[i].inv > minRet {
				continue
			}
			used[i] = true
			next[ops[i].client]++
			cur = append(cur, i)
			rec()
			cur = cur[:len(cur)-1]
			next[ops[i].client]--
			used[i] = false
		}
	}
	rec()
	return out
}

func runConc(o fsOpts) *result {
	res := &result{Methods: map[string]int{}, Results: map[string]int{}, Triggers: map[string]int{}, Branches: map[string]int{},
		KnownHits: map[string]int{}, OracleChecks: map[string]int{}}
	for j := o.from; j < o.to; j++ {
		fmt.Printf("P %d 0\n", j)
		id := fmt.Sprintf("%d-%d", o.seed, j)
		dir := filepath.Join(o.scratch, "conc-"+id)
		os.MkdirAll(dir, 0o755)
		runConcOne(o, res, j, id, dir)
		os.RemoveAll(dir)
	}
	return res
}

func runConcOne(o fsOpts, res *result, j int, id, dir string) {
	r := rand.New(rand.NewSource(o.seed*1_000_003 + int64(j)))
	c := h.DefaultCfg()
	c.RS = o.rs[j%len(o.rs)]
	faults := h.NewFaults()
	var jr uint64 = uint64(o.seed*977 + int64(j))
	var concurrent int32
	faults.Jitter = func(kind, what string) {
		if atomic.LoadInt32(&concurrent) == 0 {
			return
		}
		x := atomic.AddUint64(&jr, 0x9E3779B97F4A7C15)
		x ^= x >> 31
		switch x % 8 {
		case 0, 1, 2:
			runtime.Gosched()
		case 3:
			time.Sleep(time.Duration(x>>8%300) * time.Microsecond)
		}
	}
	c = faults.Install(c)
	e, err := h.NewEnv(dir, c)
	if err != nil {
		res.Mismatches = append(res.Mismatches, h.Mismatch{Hist: id, Kind: "harness-error", Impl: []string{err.Error()}})
		return
	}
	defer e.Shutdown()
	fail := func(what string, calls []string) {
		res.OracleFails = append(res.OracleFails, OracleFail{Property: "C11", Hist: id, What: what, Calls: calls})
	}
	// ---- sequential prefix
	s0 := h.NewSession(e)
	s0.Timeout = o.watchdog
	en := h.EncName
	dirs := []string{"/", "/d1", "/d2", "/e"}
	files := []string{}
	prefix := []h.Call{{Method: "initialize", Args: []string{en("/"), "511"}},
		{Method: "mkdir", Args: []string{en("/d1"), "493"}}, {Method: "mkdir", Args: []string{en("/d2"), "493"}},
		{Method: "mkdir", Args: []string{en("/e"), "493"}}}
	hid := int64(0)
	for k := 0; k < 2+r.Intn(3); k++ {
		hid++
		name := fmt.Sprintf("%s/p%d", dirs[r.Intn(3)], k)
		name = strings.Replace(name, "//", "/", 1)
		files = append(files, name)
		prefix = append(prefix, h.Call{Method: "create", Args: []string{fmt.Sprint(hid), en(name)}},
			h.Call{Method: "hwrite", Args: []string{fmt.Sprint(hid), fmt.Sprint(100 + r.Intn(600)), fmt.Sprint(r.Intn(1 << 20))}},
			h.Call{Method: "hclose", Args: []string{fmt.Sprint(hid)}})
	}
	var driverPrefix []string
	driverPrefix = append(driverPrefix, h.CfgLine(c))
	prevBlocks := int64(0)
	for _, call := range prefix {
		out := s0.Exec(call)
		if s0.Wedged || !strings.HasPrefix(out, "res\tok") {
			return // the prefix is not what is under test
		}
		items, blocks, _ := h.ScanTape(e.Drive, prevBlocks)
		prevBlocks = blocks
		driverPrefix = append(driverPrefix, h.EnvLine(items, nil), call.Line())
		res.Calls++
	}
	if j%4 == 3 {
		runConcBurst(o, res, r, e, s0, id, dir, c, driverPrefix, &concurrent)
		return
	}
	// ---- concurrent phase
	k := 2 + r.Intn(o.clients-1)
	per := 3
	if k >= 4 {
		per = 2
	}
	progs := clientPrograms(r, k, per, dirs, files, 1000)
	var ops []concOp
	var mu sync.Mutex
	var wg sync.WaitGroup
	start := make(chan struct{})
	t0 := time.Now()
	var stuck int32
	atomic.StoreInt32(&concurrent, 1)
	sessions := make([]*h.Session, k)
	for ci := 0; ci < k; ci++ {
		sessions[ci] = h.NewSession(e)
		sessions[ci].Timeout = o.watchdog
		wg.Add(1)
		go func(ci int) {
			defer wg.Done()
			<-start
			for idx, call := range progs[ci] {
				inv := time.Since(t0).Nanoseconds()
				out := sessions[ci].Exec(call)
				ret := time.Since(t0).Nanoseconds()
				mu.Lock()
				ops = append(ops, concOp{ci, idx, call, out, inv, ret})
				mu.Unlock()
				if sessions[ci].Wedged {
					atomic.StoreInt32(&stuck, 1)
					return
				}
			}
		}(ci)
	}
	close(start)
	wg.Wait()
	atomic.StoreInt32(&concurrent, 0)
	res.Histories++
	calls := append([]string{}, driverPrefix...)
	sort.Slice(ops, func(a, b int) bool { return ops[a].inv < ops[b].inv })
	for _, op := range ops {
		calls = append(calls, fmt.Sprintf("client %d [%d..%d µs]: %s -> %s", op.client, op.inv/1000, op.ret/1000, strings.ReplaceAll(op.call.Line(), "\t", " "), strings.ReplaceAll(op.res, "\t", " ")))
		res.Calls++
		res.Methods[op.call.Method]++
		res.Results[op.call.Method+":"+strings.SplitN(op.res+"\t", "\t", 3)[1]]++
	}
	res.OracleChecks["C11"]++
	if stuck != 0 {
		res.Wedged++
		fail("a call of a concurrent client never returned", calls)
		return
	}
	rows, _ := e.RowLines()
	finalObs := normRows(append(rows, fmt.Sprintf("blocks\t%d", h.CompleteBlocks(e.Drive))))
	// ---- the search for a sequential order
	orders := validOrders(ops, 4000)
	res.Results[fmt.Sprintf("orders<=%d", 1<<uint(len(fmt.Sprint(len(orders)))*3))]++
	var in bytes.Buffer
	for oi, ord := range orders {
		in.WriteString(driverPrefix[0] + "\n")
		in.WriteString(fmt.Sprintf("hist\t%d\n", oi))
		for _, l := range driverPrefix[1:] {
			in.WriteString(l + "\n")
		}
		for _, i := range ord {
			in.WriteString("env\tnow=0\trecs=-\n" + ops[i].call.Line() + "\n")
		}
	}
	cmd := exec.Command(o.driver)
	cmd.Stdin = &in
	var outb, errb bytes.Buffer
	cmd.Stdout = &outb
	cmd.Stderr = &errb
	if err := cmd.Run(); err != nil {
		res.Mismatches = append(res.Mismatches, h.Mismatch{Hist: id, Kind: "driver-error", Impl: []string{err.Error()}})
		return
	}
	// parse per history: the res line and rows of every step
	type mstep struct {
		res  string
		rows []string
	}
	hists := map[int][]mstep{}
	cur := -1
	var ms *mstep
	for _, l := range strings.Split(outb.String(), "\n") {
		switch {
		case strings.HasPrefix(l, "hist\t"):
			fmt.Sscan(strings.TrimPrefix(l, "hist\t"), &cur)
		case strings.HasPrefix(l, "call\t"):
			ms = &mstep{}
		case l == "end":
			if ms != nil {
				hists[cur] = append(hists[cur], *ms)
				ms = nil
			}
		case ms == nil:
		case strings.HasPrefix(l, "res\t"):
			ms.res = l
		case strings.HasPrefix(l, "row\t"), strings.HasPrefix(l, "blocks\t"):
			ms.rows = append(ms.rows, l)
		}
	}
	np := len(prefix)
	found := false
	bestMatch := 0
	for oi, ord := range orders {
		m := hists[oi]
		if len(m) != np+len(ord) {
			continue
		}
		ok := true
		matched := 0
		for pos, i := range ord {
			if normRes(m[np+pos].res) != normRes(ops[i].res) {
				ok = false
				break
			}
			matched++
		}
		if matched > bestMatch {
			bestMatch = matched
		}
		if ok && strings.Join(normRows(m[len(m)-1].rows), "\n") == strings.Join(finalObs, "\n") {
			found = true
			break
		}
	}
	if !found && len(orders) >= 4000 {
		// the enumeration was cut off: nothing can be concluded from this history
		res.Results["search cut off (not judged)"]++
		return
	}
	if !found {
		fail(fmt.Sprintf("no sequential order of the %d concurrent calls (of %d that respect program order and real time) gives every call its result and ends in the observed index and tape; the best order explains %d results", len(ops), len(orders), bestMatch), calls)
		return
	}
	res.Nontrivial++
	// ---- the final state is reproducible from the tape
	rb := rebuildTape(dir, c, e.Drive, "conc", s0)
	if rb.err != "" {
		fail("after the concurrent calls the tape does not rebuild: "+rb.err, calls)
	}
}

// runConcParent shards the histories over child processes (one process per worker, each
// running its histories one after the other so that the goroutines under test are the only
// concurrency in the process) and turns race-detector reports into failures.
func runConcParent(o fsOpts, args []string) *result {
	total := &result{Methods: map[string]int{}, Results: map[string]int{}, Triggers: map[string]int{}, Branches: map[string]int{},
		KnownHits: map[string]int{}, OracleChecks: map[string]int{}}
	self, _ := os.Executable()
	w := o.workers
	if w < 1 {
		w = 1
	}
	per := (o.n + w - 1) / w
	var mu sync.Mutex
	var wg sync.WaitGroup
	for a := 0; a < o.n; a += per {
		b := a + per
		if b > o.n {
			b = o.n
		}
		wg.Add(1)
		go func(a, b int) {
			defer wg.Done()
			outp := filepath.Join(o.scratch, fmt.Sprintf("conc-shard-%d.json", a))
			scr := filepath.Join(o.scratch, fmt.Sprintf("conc-shard-%d", a))
			os.MkdirAll(scr, 0o755)
			cargs := append([]string{"conc"}, args...)
			cargs = append(cargs, "-child", "-from", fmt.Sprint(a), "-to", fmt.Sprint(b), "-out", outp, "-work", scr)
			cmd := exec.Command(self, cargs...)
			cmd.Env = append(os.Environ(), "GORACE=halt_on_error=0 exitcode=0")
			var stdout, stderr bytes.Buffer
			cmd.Stdout = &stdout
			cmd.Stderr = &stderr
			err := cmd.Run()
			mu.Lock()
			defer mu.Unlock()
			if data, rerr := os.ReadFile(outp); rerr == nil {
				var r result
				if json.Unmarshal(data, &r) == nil {
					mergeResult(total, &r)
				}
				os.Remove(outp)
			} else if err != nil {
				total.Mismatches = append(total.Mismatches, h.Mismatch{Kind: "harness-error", Impl: []string{"conc child failed: " + tail(stderr.String(), 800)}})
			}
			if i := strings.Index(stderr.String(), "WARNING: DATA RACE"); i >= 0 {
				rep := stderr.String()[i:]
				if len(rep) > 3000 {
					rep = rep[:3000]
				}
				total.OracleFails = append(total.OracleFails, OracleFail{Property: "C11", Hist: fmt.Sprintf("%d-[%d,%d)", o.seed, a, b),
					What: "the race detector reports a data race while several clients use one filesystem instance", Calls: strings.Split(rep, "\n")})
			}
		}(a, b)
	}
	wg.Wait()
	return total
}

// runConcBurst: many clients, each creating, writing, closing and stat-ing its own files in
// its own directory.  The paths are disjoint, so every sequential order gives the same
// answer: every call succeeds, and afterwards every file is there with its content.  No
// enumeration is needed; what it adds is contention (index probes outside the filesystem lock
// overlapping index writes, many handles open at once).
func runConcBurst(o fsOpts, res *result, r *rand.Rand, e *h.Env, s0 *h.Session, id, dir string, c h.Cfg, driverPrefix []string, concurrent *int32) {
	k := o.clients
	if k < 4 {
		k = 4
	}
	perClient := 5
	en := h.EncName
	type want struct {
		name string
		n    int
		seed int64
	}
	wants := make([][]want, k)
	var mu sync.Mutex
	var failures []string
	var calls []string
	var wg sync.WaitGroup
	start := make(chan struct{})
	var stuck int32
	atomic.StoreInt32(concurrent, 1)
	for ci := 0; ci < k; ci++ {
		for f := 0; f < perClient; f++ {
			wants[ci] = append(wants[ci], want{fmt.Sprintf("/d%d/b%dn%d", 1+ci%2, ci, f), []int{0, 1, 300, 700, 2000}[r.Intn(5)], int64(r.Intn(1 << 20))})
		}
		wg.Add(1)
		go func(ci int) {
			defer wg.Done()
			s := h.NewSession(e)
			s.Timeout = o.watchdog
			<-start
			for f, w := range wants[ci] {
				hid := fmt.Sprint(5000 + ci*100 + f)
				seq := []h.Call{{Method: "create", Args: []string{hid, en(w.name)}},
					{Method: "hwrite", Args: []string{hid, fmt.Sprint(w.n), fmt.Sprint(w.seed)}},
					{Method: "hclose", Args: []string{hid}},
					{Method: "stat", Args: []string{en(w.name)}}}
				for _, call := range seq {
					out := s.Exec(call)
					mu.Lock()
					calls = append(calls, fmt.Sprintf("client %d: %s -> %s", ci, strings.ReplaceAll(call.Line(), "\t", " "), strings.ReplaceAll(out, "\t", " ")))
					res.Calls++
					res.Methods[call.Method]++
					res.Results["burst "+call.Method+":"+strings.SplitN(out+"\t", "\t", 3)[1]]++
					if !strings.HasPrefix(out, "res\tok") {
						failures = append(failures, fmt.Sprintf("client %d: %s on its own file %s returned %s", ci, call.Method, w.name, strings.TrimPrefix(out, "res\t")))
					}
					mu.Unlock()
					if s.Wedged {
						atomic.StoreInt32(&stuck, 1)
						return
					}
				}
			}
		}(ci)
	}
	close(start)
	wg.Wait()
	atomic.StoreInt32(concurrent, 0)
	res.Histories++
	res.OracleChecks["C11"]++
	fail := func(what string) {
		res.OracleFails = append(res.OracleFails, OracleFail{Property: "C11", Hist: id, What: what, Calls: append(append([]string{}, driverPrefix...), calls...)})
	}
	if stuck != 0 {
		res.Wedged++
		fail("a call of a concurrent client (disjoint paths) never returned")
		return
	}
	if len(failures) > 0 {
		fail("concurrent clients on disjoint paths: " + failures[0])
		return
	}
	for ci := range wants {
		for _, w := range wants[ci] {
			var b []byte
			var err error
			if !s0.Guard(func() { b, err = s0.SafeCat(w.name) }) {
				fail("reading back after the burst never returned")
				return
			}
			if w.n == 0 {
				continue // empty files: nothing to compare (and unreadable under codecs, F18)
			}
			if err != nil || !bytes.Equal(b, h.GenBytes(w.n, w.seed)) {
				fail(fmt.Sprintf("after concurrent clients on disjoint paths, %s does not read back what its client wrote (err=%v, %d bytes)", w.name, err, len(b)))
				return
			}
		}
	}
	res.Nontrivial++
	if rb := rebuildTape(dir, c, e.Drive, "burst", s0); rb.err != "" {
		fail("after the burst the tape does not rebuild: " + rb.err)
	}
}
