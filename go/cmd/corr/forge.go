package main

import (
	"archive/tar"
	"bytes"
	"encoding/base64"
	"encoding/json"
	"fmt"
	"io"
	"math/rand"
	"os"
	"os/exec"
	"path"
	"path/filepath"
	"sort"
	"strings"
	"sync"

	"github.com/pojntfx/stfs/pkg/config"
	"github.com/pojntfx/stfs/pkg/encryption"
	"github.com/pojntfx/stfs/pkg/recovery"
	"github.com/pojntfx/stfs/pkg/signature"
	"github.com/pojntfx/stfs/pkg/tape"

	"github.com/pojntfx/stfs/pkg/mtio"

	"verifharness/internal/h"
)

// C08: the adversarial stream.  A legitimate tape is written under a signature format (with or
// without encryption and compression) by a clean generated history.  Then the tape is altered:
// single bytes (a sample per tape in the quick tier, every position of small tapes in the
// thorough tier) and structured forgeries of single records.  Every altered tape is rebuilt
// from scratch with the real verifier and every file it shows is restored.
//
// Oracle (the property on the real code): every header the rebuild accepted is identical to
// one the rebuild of the legitimate tape accepted, and every restored content is a content
// the legitimate writer stored under that name, or the restore fails.
//
// Correspondence: for every structured forgery the class of the forged record is handed to
// the Lean model (`sig` lines) and its accept/reject verdict is compared with what the real
// signature.VerifyHeader returns on that record.

type rawItem struct {
	hdr  *tar.Header
	data []byte
}

func readTape(p string) ([]rawItem, error) {
	f, err := os.Open(p)
	if err != nil {
		return nil, err
	}
	defer f.Close()
	var items []rawItem
	st, _ := f.Stat()
	off := int64(0)
	for off < st.Size() {
		if _, err := f.Seek(off, io.SeekStart); err != nil {
			return nil, err
		}
		cr := &countR{r: f}
		tr := tar.NewReader(cr)
		hdr, err := tr.Next()
		if err == io.EOF {
			// trailer between archives: skip two blocks
			off += 1024
			continue
		}
		if err != nil {
			return nil, err
		}
		data, err := io.ReadAll(tr)
		if err != nil {
			return nil, err
		}
		items = append(items, rawItem{hdr, data})
		hb := cr.n
		if len(data) > 0 {
			hb = cr.n - int64(len(data))
		}
		// header blocks were consumed before the data; round the data up to whole blocks
		hb = (hb + 511) / 512 * 512
		off += hb + (int64(len(data))+511)/512*512
	}
	return items, nil
}

type countR struct {
	r io.Reader
	n int64
}

func (c *countR) Read(p []byte) (int, error) {
	n, err := c.r.Read(p)
	c.n += int64(n)
	return n, err
}

func writeTape(p string, items []rawItem) error {
	f, err := os.Create(p)
	if err != nil {
		return err
	}
	defer f.Close()
	tw := tar.NewWriter(f)
	for _, it := range items {
		hd := *it.hdr
		if hd.PAXRecords != nil {
			hd.Format = tar.FormatPAX
		}
		hd.Size = int64(len(it.data))
		if err := tw.WriteHeader(&hd); err != nil {
			return err
		}
		if _, err := tw.Write(it.data); err != nil {
			return err
		}
	}
	return tw.Close()
}

func clonePax(hd *tar.Header) *tar.Header {
	cp := *hd
	if hd.PAXRecords != nil {
		cp.PAXRecords = map[string]string{}
		for k, v := range hd.PAXRecords {
			cp.PAXRecords[k] = v
		}
	}
	return &cp
}

const recEmbedded = "STFS.EmbeddedHeader"
const recSignature = "STFS.Signature"

// rebuildResult is what a from-scratch rebuild of a tape accepted and what it then restores.
type rebuildResult struct {
	err      string
	accepted []string          // canonical accepted headers
	contents map[string]string // live regular name -> "len:hash" or "error:<class>"
}

func canonHeader(hd *config.Header) string {
	return strings.Join([]string{hd.Name, hd.Linkname, fmt.Sprint(hd.Typeflag), fmt.Sprint(hd.Size), fmt.Sprint(hd.Mode), fmt.Sprint(hd.UID), fmt.Sprint(hd.Gid),
		hd.Uname, hd.Gname, fmt.Sprint(hd.Modtime.UnixNano()), hd.Paxrecords, fmt.Sprint(hd.Deleted)}, "|")
}

func rebuildTape(dir string, c h.Cfg, drive string, tag string, s *h.Session) rebuildResult {
	res := rebuildResult{contents: map[string]string{}}
	e, err := h.NewEnvAt(dir, drive, filepath.Join(dir, "index-"+tag+".sqlite"), c)
	if err != nil {
		res.err = "env: " + err.Error()
		return res
	}
	defer e.Shutdown()
	defer os.Remove(filepath.Join(dir, "index-"+tag+".sqlite"))
	ss := h.NewSession(e)
	ss.Timeout = s.Timeout
	done := ss.Guard(func() {
		defer func() {
			if r := recover(); r != nil {
				res.err = fmt.Sprintf("panic: %v", r)
			}
		}()
		tm := tape.NewTapeManager(drive, mtio.MagneticTapeIO{}, c.RS, false)
		reader, err := tm.GetReader()
		if err != nil {
			res.err = err.Error()
			return
		}
		defer tm.Close()
		pc := config.PipeConfig{RecordSize: c.RS, Compression: c.Compression, Encryption: c.Encryption, Signature: c.Signature}
		ierr := recovery.Index(reader, mtio.MagneticTapeIO{}, config.MetadataConfig{Metadata: e.MP}, pc, c.CryptoRead,
			0, 0, true, false, 0,
			func(hdr *tar.Header, i int) error {
				return encryption.DecryptHeader(hdr, c.Encryption, c.CryptoRead.Identity)
			},
			func(hdr *tar.Header, isRegular bool) error {
				return signature.VerifyHeader(hdr, isRegular, c.Signature, c.CryptoRead.Recipient)
			},
			func(hdr *config.Header) { res.accepted = append(res.accepted, canonHeader(hdr)) })
		if ierr != nil {
			res.err = ierr.Error()
		}
	})
	if !done {
		res.err = "stuck"
		return res
	}
	// restore what the rebuilt index shows (whether or not the rebuild ended with an error)
	rows, rerr := e.RowLines()
	if rerr != nil {
		return res
	}
	for _, l := range rows {
		f := strings.Split(l, "\t")
		if f[9] != "0" || f[3] != "48" {
			continue
		}
		name := h.DecName(f[1])
		var b []byte
		var cerr error
		if !ss.Guard(func() { b, cerr = ss.SafeCat(name) }) {
			res.contents[name] = "error:stuck"
			break
		}
		if cerr != nil {
			res.contents[name] = "error"
		} else {
			res.contents[name] = fmt.Sprintf("%d:%d", len(b), h.PolyHash(b))
		}
	}
	return res
}

type forgery struct {
	kind  string // protocol class for the model
	what  string
	apply func(items []rawItem) ([]rawItem, int, bool) // new items, index of the forged record, applicable
}

// withSigned opens the encryption layer of record k, lets edit change the signed layer
// (PAX records STFS.EmbeddedHeader / STFS.Signature) and closes the encryption layer again
// with the recipient's public key (which an attacker has).
func withSigned(c h.Cfg, items []rawItem, k int, edit func(signed *tar.Header) bool) ([]rawItem, bool) {
	out := append([]rawItem{}, items...)
	hd := clonePax(items[k].hdr)
	if err := encryption.DecryptHeader(hd, c.Encryption, c.CryptoRead.Identity); err != nil {
		return nil, false
	}
	if hd.PAXRecords == nil {
		return nil, false
	}
	if !edit(hd) {
		return nil, false
	}
	if err := encryption.EncryptHeader(hd, c.Encryption, c.Crypto.Recipient); err != nil {
		return nil, false
	}
	hd.Size = items[k].hdr.Size
	out[k] = rawItem{hd, items[k].data}
	return out, true
}

func forgeries(c h.Cfg, r *rand.Rand, other *h.KeyPair) []forgery {
	pick := func(items []rawItem) int { return r.Intn(len(items)) }
	mk := func(kind, what string, edit func(signed *tar.Header) bool) forgery {
		return forgery{kind, what, func(items []rawItem) ([]rawItem, int, bool) {
			k0 := pick(items)
			for d := 0; d < len(items); d++ {
				k := (k0 + d) % len(items)
				if out, ok := withSigned(c, items, k, edit); ok {
					return out, k, true
				}
			}
			return nil, 0, false
		}}
	}
	garbagePacket := base64.StdEncoding.EncodeToString([]byte("this is not an OpenPGP packet nor a minisign signature"))
	// a well-formed OpenPGP packet that is not a signature: a literal-data packet (tag 11)
	literal := base64.StdEncoding.EncodeToString([]byte{0xcb, 0x08, 'b', 0x00, 0, 0, 0, 0, 'h', 'i'})
	fs := []forgery{
		mk("editedEmbedded", "embedded header edited, signature kept", func(s *tar.Header) bool {
			e := s.PAXRecords[recEmbedded]
			if e == "" {
				return false
			}
			i := strings.Index(e, `"Name":"`)
			if i < 0 {
				return false
			}
			s.PAXRecords[recEmbedded] = e[:i+8] + "X" + e[i+8:]
			return true
		}),
		mk("missingSig", "signature record removed", func(s *tar.Header) bool {
			delete(s.PAXRecords, recSignature)
			return true
		}),
		mk("missingEmbedded", "embedded-header record removed", func(s *tar.Header) bool {
			delete(s.PAXRecords, recEmbedded)
			return true
		}),
		mk("undecodable", "signature replaced by text that is not base64", func(s *tar.Header) bool {
			s.PAXRecords[recSignature] = "!!! not base64 !!!"
			return true
		}),
		mk("notPacket", "signature replaced by base64 of garbage", func(s *tar.Header) bool {
			s.PAXRecords[recSignature] = garbagePacket
			return true
		}),
		mk("notSignature", "signature replaced by a well-formed packet that is not a signature", func(s *tar.Header) bool {
			s.PAXRecords[recSignature] = literal
			return true
		}),
		mk("forgedNotPacket", "embedded header edited and the signature replaced by base64 of garbage", func(s *tar.Header) bool {
			e := s.PAXRecords[recEmbedded]
			i := strings.Index(e, `"Name":"`)
			if e == "" || i < 0 {
				return false
			}
			s.PAXRecords[recEmbedded] = e[:i+8] + "forged-" + e[i+8:]
			s.PAXRecords[recSignature] = garbagePacket
			return true
		}),
		mk("forgedUndecodable", "embedded header edited and the signature replaced by text that is not base64", func(s *tar.Header) bool {
			e := s.PAXRecords[recEmbedded]
			i := strings.Index(e, `"Name":"`)
			if e == "" || i < 0 {
				return false
			}
			s.PAXRecords[recEmbedded] = e[:i+8] + "forged-" + e[i+8:]
			s.PAXRecords[recSignature] = "!!! not base64 !!!"
			return true
		}),
		mk("reencoded", "embedded header re-encoded (same fields, different bytes), signature kept", func(s *tar.Header) bool {
			var v map[string]interface{}
			if json.Unmarshal([]byte(s.PAXRecords[recEmbedded]), &v) != nil {
				return false
			}
			b, _ := json.MarshalIndent(v, "", " ")
			if string(b) == s.PAXRecords[recEmbedded] {
				return false
			}
			s.PAXRecords[recEmbedded] = string(b)
			return true
		}),
		mk("otherKey", "record re-signed with a second key", func(s *tar.Header) bool {
			sig, err := signature.SignString(s.PAXRecords[recEmbedded], true, c.Signature, other.Identity)
			if err != nil {
				return false
			}
			s.PAXRecords[recSignature] = sig
			return true
		}),
		mk("outerExtras", "outer records STFS.Action=DELETE added around an untouched signed header", func(s *tar.Header) bool {
			s.PAXRecords["STFS.Version"] = "1"
			s.PAXRecords["STFS.Action"] = "DELETE"
			return true
		}),
		mk("outerExtras", "outer record STFS.ReplacesName added around an untouched signed header that has none", func(s *tar.Header) bool {
			e := s.PAXRecords[recEmbedded]
			// only where the signed header has PAX records of its own but no ReplacesName: a
			// verifier that merges instead of replacing would let the outer record through
			if !strings.Contains(e, `"STFS.Action":"UPDATE"`) || strings.Contains(e, "STFS.ReplacesName") {
				return false
			}
			s.PAXRecords["STFS.ReplacesName"] = "/"
			return true
		}),
		{"swapped", "signatures of two records swapped", func(items []rawItem) ([]rawItem, int, bool) {
			if len(items) < 2 {
				return nil, 0, false
			}
			a := r.Intn(len(items))
			b := (a + 1 + r.Intn(len(items)-1)) % len(items)
			var sa, sb, ea, eb string
			if _, ok := withSigned(c, items, a, func(s *tar.Header) bool { sa, ea = s.PAXRecords[recSignature], s.PAXRecords[recEmbedded]; return true }); !ok {
				return nil, 0, false
			}
			if _, ok := withSigned(c, items, b, func(s *tar.Header) bool { sb, eb = s.PAXRecords[recSignature], s.PAXRecords[recEmbedded]; return true }); !ok {
				return nil, 0, false
			}
			if ea == eb {
				return nil, 0, false
			}
			o1, ok := withSigned(c, items, a, func(s *tar.Header) bool { s.PAXRecords[recSignature] = sb; return true })
			if !ok {
				return nil, 0, false
			}
			o2, ok := withSigned(c, o1, b, func(s *tar.Header) bool { s.PAXRecords[recSignature] = sa; return true })
			return o2, a, ok
		}},
		{"noPax", "unsigned record appended by a plain tar writer", func(items []rawItem) ([]rawItem, int, bool) {
			out := append([]rawItem{}, items...)
			data := []byte("spliced in by a plain tar writer")
			out = append(out, rawItem{&tar.Header{Name: "/forged.txt", Typeflag: tar.TypeReg, Mode: 0o644, Size: int64(len(data)), Format: tar.FormatUSTAR}, data})
			return out, len(out) - 1, true
		}},
		{"outerSize", "outer size of an empty file's record raised and foreign content appended", func(items []rawItem) ([]rawItem, int, bool) {
			for k, it := range items {
				if len(it.data) == 0 && it.hdr.Typeflag == tar.TypeReg {
					plain := c.PlainHeader(it.hdr)
					if plain == it.hdr || plain.Typeflag != tar.TypeReg || plain.PAXRecords["STFS.Action"] == "DELETE" {
						continue
					}
					out := append([]rawItem{}, items...)
					out[k] = rawItem{clonePax(it.hdr), []byte("foreign bytes where an empty file was signed")}
					return out, k, true
				}
			}
			return nil, 0, false
		}},
	}
	return fs
}

func runForge(o fsOpts) *result {
	res := &result{Methods: map[string]int{}, Results: map[string]int{}, Triggers: map[string]int{}, Branches: map[string]int{},
		KnownHits: map[string]int{}, OracleChecks: map[string]int{}}
	var mu sync.Mutex
	var wg sync.WaitGroup
	jobs := make(chan int)
	type probe struct {
		line, impl string
		calls      []string
		hist       string
	}
	var probes []probe
	fail := func(of OracleFail) {
		mu.Lock()
		res.OracleFails = append(res.OracleFails, of)
		mu.Unlock()
	}
	for w := 0; w < o.workers; w++ {
		wg.Add(1)
		go func() {
			defer wg.Done()
			for j := range jobs {
				id := fmt.Sprintf("%d-%d", o.seed, j)
				dir := filepath.Join(o.scratch, "forge-"+id)
				os.MkdirAll(dir, 0o755)
				func() {
					defer os.RemoveAll(dir)
					spec := o.pipes[j%len(o.pipes)]
					c := h.DefaultCfg()
					c.RS = o.rs[(j/len(o.pipes))%len(o.rs)]
					c, err := h.WithPipe(c, spec, o.keyDir)
					if err != nil || c.Signature == "" {
						mu.Lock()
						res.Mismatches = append(res.Mismatches, h.Mismatch{Hist: id, Kind: "harness-error", Impl: []string{fmt.Sprintf("pipe %q: %v", spec, err)}})
						mu.Unlock()
						return
					}
					other, err := h.Keys(o.keyDir, "sig", c.Signature, "verifpw", 1)
					if err != nil {
						return
					}
					// the legitimate tape: a clean generated history
					g := h.NewGen(o.seed*1_000_003+int64(j), h.Profile{MaxContent: 900})
					i := 0
					legitContents := map[string]map[string]bool{}
					next := func() (h.Call, bool) {
						i++
						if i == 1 {
							return h.Call{Method: "initialize", Args: []string{h.EncName("/"), "511"}}, true
						}
						if i > o.length {
							return h.Call{}, false
						}
						return g.Next(), true
					}
					hist, err := h.RunHistoryB(dir, c, id, next, true, func(i int, s *h.Session, st *h.Step) {
						for _, l := range st.Tree {
							f := strings.Split(l, "\t")
							if len(f) >= 10 && f[2] == "f" {
								n := strings.TrimPrefix(h.DecName(f[1]), "/")
								if legitContents[n] == nil {
									legitContents[n] = map[string]bool{}
								}
								legitContents[n][f[3]+":"+f[9]] = true
							}
						}
					}, nil)
					if err != nil || hist.Wedged {
						return
					}
					drive := filepath.Join(dir, "drive.tar")
					s := h.NewSession(&h.Env{})
					s.Timeout = o.watchdog
					legit := rebuildTape(dir, c, drive, "legit", s)
					if legit.err != "" {
						mu.Lock()
						res.Mismatches = append(res.Mismatches, h.Mismatch{Hist: id, Kind: "harness-error", Impl: []string{"the legitimate tape does not rebuild: " + legit.err}})
						mu.Unlock()
						return
					}
					legitSet := map[string]bool{}
					for _, a := range legit.accepted {
						legitSet[a] = true
					}
					for n, v := range legit.contents {
						n = strings.TrimPrefix(n, "/")
						if legitContents[n] == nil {
							legitContents[n] = map[string]bool{}
						}
						legitContents[n][v] = true
					}
					calls := []string{}
					for _, st := range hist.Steps {
						calls = append(calls, st.Call.Line())
					}
					// An attacker can drop signed records (nothing unsigned is accepted by doing so), which
					// makes an older signed state visible: content signed under one name may then show
					// under a name the writer gave the file by a (signed) rename.  Contents are therefore
					// attributed to the whole set of names a file had.
					alias := map[string]string{}
					var find func(x string) string
					find = func(x string) string {
						if p, ok := alias[x]; ok && p != x {
							r := find(p)
							alias[x] = r
							return r
						}
						return x
					}
					for _, st := range hist.Steps {
						if st.Call.Method == "rename" && st.Res == "ok" && len(st.Call.Args) == 2 {
							a := strings.Trim(path.Clean("/"+h.DecName(st.Call.Args[0])), "/")
							b := strings.Trim(path.Clean("/"+h.DecName(st.Call.Args[1])), "/")
							alias[find(a)] = find(b)
						}
					}
					storedUnder := func(n, v string) bool {
						n = strings.TrimPrefix(n, "/")
						root := find(n)
						for m, vs := range legitContents {
							if find(m) == root && vs[v] {
								return true
							}
						}
						return false
					}
					if os.Getenv("VERIF_DEBUG") != "" {
						fmt.Fprintf(os.Stderr, "DEBUG legit rebuild contents=%v\nDEBUG legitContents=%v\n", legit.contents, legitContents)
						its, _, _ := h.ScanTape(drive, 0)
						for _, l := range h.ItemLines(its, c.PlainHeader) {
							f := strings.Split(l, "\t")
							if len(f) > 8 {
								fmt.Fprintf(os.Stderr, "DEBUG item %s blk=%s hb=%s db=%s name=%q size=%s pax=%s\n", f[0], f[1], f[2], f[3], h.DecName(f[5]), f[7], f[8][:min(len(f[8]), 200)])
							} else {
								fmt.Fprintf(os.Stderr, "DEBUG item %s\n", l)
							}
						}
						for _, st := range hist.Steps {
							fmt.Fprintf(os.Stderr, "DEBUG step %s -> %s\n", strings.ReplaceAll(st.Call.Line(), "\t", " "), st.Res)
						}
					}
					judge := func(tag, what string, rr rebuildResult) {
						if os.Getenv("VERIF_DEBUG") != "" && tag == "byteflip" {
							fmt.Fprintf(os.Stderr, "DEBUG %s: err=%q contents=%v accepted=%d\n", what, rr.err, rr.contents, len(rr.accepted))
						}
						mu.Lock()
						res.Calls++
						res.OracleChecks["C08"]++
						if rr.err != "" {
							res.Results[tag+":rebuild-rejected"]++
						} else {
							res.Results[tag+":rebuild-ok"]++
						}
						mu.Unlock()
						for _, a := range rr.accepted {
							if !legitSet[a] {
								fail(OracleFail{Property: "C08", Hist: id, Step: 0, Calls: append(append([]string{}, calls...), "forgery\t"+what),
									What: fmt.Sprintf("the rebuild of an altered tape (%s; pipeline %s) accepted a header the writer never signed: %s", what, spec, a)})
								return
							}
						}
						names := []string{}
						for n := range rr.contents {
							names = append(names, n)
						}
						sort.Strings(names)
						for _, n := range names {
							v := rr.contents[n]
							if strings.HasPrefix(v, "error") {
								continue
							}
							if !storedUnder(n, v) {
								fail(OracleFail{Property: "C08", Hist: id, Step: 0, Calls: append(append([]string{}, calls...), "forgery\t"+what),
									What: fmt.Sprintf("restoring %q from an altered tape (%s; pipeline %s) returned content (%s) the writer never stored under that name", n, what, spec, v)})
								return
							}
						}
					}
					items, err := readTape(drive)
					if err != nil || len(items) == 0 {
						return
					}
					r := rand.New(rand.NewSource(o.seed*7_000_003 + int64(j)))
					forged := filepath.Join(dir, "forged.tar")
					// ---- structured forgeries
					for _, fg := range forgeries(c, r, other) {
						out, k, ok := fg.apply(items)
						if !ok {
							continue
						}
						if err := writeTape(forged, out); err != nil {
							continue
						}
						// the forged record alone, through the real VerifyHeader
						hd := clonePax(out[k].hdr)
						verdict := "reject"
						if err := encryption.DecryptHeader(hd, c.Encryption, c.CryptoRead.Identity); err == nil {
							if err := signature.VerifyHeader(hd, true, c.Signature, c.CryptoRead.Recipient); err == nil {
								verdict = "accept"
							}
						}
						mu.Lock()
						probes = append(probes, probe{line: "sig\t" + c.Signature + "\t" + fg.kind, impl: "sigres\t" + verdict, hist: id,
							calls: append(append([]string{}, calls...), "forgery\t"+fg.what)})
						res.Methods[fg.kind]++
						mu.Unlock()
						judge(fg.kind, fg.what, rebuildTape(dir, c, forged, "f", s))
					}
					// ---- single-byte alterations
					data, _ := os.ReadFile(drive)
					var positions []int
					if o.thoroughCuts && len(data) <= 40*1024 {
						for p := 0; p < len(data); p++ {
							positions = append(positions, p)
						}
					} else {
						for k := 0; k < 48; k++ {
							positions = append(positions, r.Intn(len(data)))
						}
					}
					if fl := os.Getenv("VERIF_FLIPS"); fl != "" {
						positions = positions[:0]
						for _, x := range strings.Split(fl, ",") {
							var v int
							fmt.Sscan(x, &v)
							positions = append(positions, v)
						}
					}
					for _, p := range positions {
						mut := append([]byte{}, data...)
						mut[p] ^= byte(1 << uint(r.Intn(8)))
						if os.WriteFile(forged, mut, 0o644) != nil {
							continue
						}
						mu.Lock()
						res.Methods["byteflip"]++
						mu.Unlock()
						judge("byteflip", fmt.Sprintf("byte %d of %d altered", p, len(data)), rebuildTape(dir, c, forged, "b", s))
					}
					mu.Lock()
					res.Histories++
					mu.Unlock()
				}()
			}
		}()
	}
	for j := 0; j < o.n; j++ {
		if j < o.from || (o.to >= 0 && j >= o.to) {
			continue
		}
		jobs <- j
	}
	close(jobs)
	wg.Wait()
	// the model's verdicts on the structured forgeries
	var in bytes.Buffer
	for _, p := range probes {
		in.WriteString(p.line + "\n")
	}
	cmd := exec.Command(o.driver)
	cmd.Stdin = &in
	var outb, errb bytes.Buffer
	cmd.Stdout = &outb
	cmd.Stderr = &errb
	if err := cmd.Run(); err != nil {
		res.Mismatches = append(res.Mismatches, h.Mismatch{Kind: "driver-error", Impl: []string{err.Error() + ": " + errb.String()}})
		return res
	}
	lines := strings.Split(strings.TrimRight(outb.String(), "\n"), "\n")
	if len(probes) > 0 && len(lines) != len(probes) {
		res.Mismatches = append(res.Mismatches, h.Mismatch{Kind: "driver-error", Impl: []string{fmt.Sprintf("%d probes, %d answers", len(probes), len(lines))}})
		return res
	}
	for i, p := range probes {
		res.Results[strings.TrimPrefix(p.line, "sig\t")+" -> "+strings.TrimPrefix(p.impl, "sigres\t")]++
		if lines[i] != p.impl {
			res.Mismatches = append(res.Mismatches, h.Mismatch{Hist: p.hist, Kind: "corr", Impl: []string{p.impl}, Model: []string{lines[i]}, Calls: append(p.calls, p.line)})
		}
	}
	res.Nontrivial = res.Histories
	return res
}
