package main

import (
	"bufio"
	"encoding/json"
	"os"
	"strings"
)

// Finding is one line of /verif/known-findings.jsonl (committed; never written at run time).
type Finding struct {
	ID         string   `json:"id"`
	Properties []string `json:"properties"`
	Triggers   []string `json:"triggers"`
	Site       string   `json:"site"`
	What       string   `json:"what"`
	Witness    string   `json:"witness"`
	Fixed      string   `json:"fixed,omitempty"`
	// Input identifies a finding of a stream without model triggers by the exact input that
	// fails (a substring of the oracle's message)
	Input string `json:"input,omitempty"`
}

// ExplainInput: a finding identified by its failing input.
func (k *Known) ExplainInput(p, what string) string {
	if k == nil {
		return ""
	}
	for _, f := range k.Findings {
		if f.Fixed == "" && f.Input != "" && has(f.Properties, p) && strings.Contains(what, f.Input) {
			return f.ID
		}
	}
	return ""
}

type Known struct{ Findings []Finding }

func loadKnown(path string) *Known {
	k := &Known{}
	f, err := os.Open(path)
	if err != nil {
		return k
	}
	defer f.Close()
	sc := bufio.NewScanner(f)
	sc.Buffer(make([]byte, 1<<20), 1<<20)
	for sc.Scan() {
		line := strings.TrimSpace(sc.Text())
		if line == "" || strings.HasPrefix(line, "#") {
			continue
		}
		var fd Finding
		if json.Unmarshal([]byte(line), &fd) == nil && fd.ID != "" && fd.Fixed == "" {
			k.Findings = append(k.Findings, fd)
		}
	}
	return k
}

// Explain returns the id of a listed finding that explains a violation of property p on a
// history along which the given model triggers fired, or "".
func (k *Known) Explain(p string, fired []string) string {
	if k == nil {
		return ""
	}
	for _, f := range k.Findings {
		if !has(f.Properties, p) {
			continue
		}
		for _, t := range f.Triggers {
			if has(fired, t) {
				return f.ID
			}
		}
	}
	return ""
}

// ExplainCrash: a crash the model predicted is explained by any listed finding whose trigger
// fired, whatever property's oracle happened to be running.
func (k *Known) ExplainCrash(fired []string) string {
	if k == nil {
		return ""
	}
	for _, f := range k.Findings {
		for _, t := range f.Triggers {
			if has(fired, t) && strings.Contains(f.What, "kills the process") {
				return f.ID
			}
		}
	}
	return ""
}
