// corr: the correspondence check.  Runs the real STFS code (in process, from /repo's working
// tree) and the compiled Lean model on the same generated histories and compares their
// canonical observations after every call; property oracles run on the same histories.
package main

import (
	"encoding/json"
	"flag"
	"fmt"
	"os"
	"path/filepath"
	"sort"
	"strings"
	"sync"

	"verifharness/internal/h"
)

type result struct {
	Stream       string         `json:"stream"`
	Seed         int64          `json:"seed"`
	Histories    int            `json:"histories"`
	Calls        int            `json:"calls"`
	Nontrivial   int            `json:"distinct_nontrivial"`
	Methods      map[string]int `json:"methods"`
	Results      map[string]int `json:"result_classes"`
	Triggers     map[string]int `json:"triggers"`
	Branches     map[string]int `json:"branches"`
	Mismatches   []h.Mismatch   `json:"mismatches"`
	OracleFails  []OracleFail   `json:"oracle_failures"`
	KnownHits    map[string]int `json:"known_finding_hits"`
	Samples      [][]string     `json:"samples"`
	Wedged       int            `json:"wedged_histories"`
	TriggerFree  int            `json:"trigger_free_histories"`
	OracleChecks map[string]int `json:"oracle_checks"`
}

// OracleFail is a property violation observed on the real code.
type OracleFail struct {
	Property string   `json:"property"`
	Hist     string   `json:"hist"`
	Step     int      `json:"step"`
	What     string   `json:"what"`
	Triggers []string `json:"triggers"`
	Known    string   `json:"known,omitempty"`
	Calls    []string `json:"calls"`
}

func main() {
	if len(os.Args) < 2 {
		fmt.Fprintln(os.Stderr, "usage: corr <stream> [flags]")
		os.Exit(2)
	}
	stream := os.Args[1]
	fl := flag.NewFlagSet(stream, flag.ExitOnError)
	seed := fl.Int64("seed", 1, "PRNG seed")
	n := fl.Int("n", 100, "number of histories")
	length := fl.Int("len", 14, "calls per history")
	workers := fl.Int("workers", 8, "parallel workers")
	driver := fl.String("driver", "/verif/lean/.lake/build/bin/driver", "compiled Lean driver")
	out := fl.String("out", "", "write the JSON result here")
	wild := fl.Bool("wild", false, "let the generator enter the regions of known findings")
	oracles := fl.String("oracles", "", "comma separated property oracles to run (C01,C02,...)")
	rss := fl.String("rs", "20,1,3", "record sizes to cycle through")
	replay := fl.String("replay", "", "replay a history file instead of generating")
	mode := fl.String("mode", "plain", "history shape: plain | ro (populate, reopen read-only, mixed calls) | reopen (reopen/rebuild in the middle)")
	work := fl.String("work", "", "scratch directory (default: a fresh temp dir, removed afterwards)")
	knownPath := fl.String("known", "/verif/known-findings.jsonl", "known findings file (read only)")
	fl.Parse(os.Args[2:])

	scratch := *work
	if scratch == "" {
		d, err := os.MkdirTemp("", "verif-corr-")
		if err != nil {
			panic(err)
		}
		scratch = d
		defer os.RemoveAll(d)
	}
	var res *result
	switch stream {
	case "fs":
		res = runFS(fsOpts{seed: *seed, n: *n, length: *length, workers: *workers, driver: *driver, wild: *wild,
			oracles: splitList(*oracles), rs: ints(*rss), scratch: scratch, replay: *replay, known: loadKnown(*knownPath), mode: *mode})
	default:
		fmt.Fprintln(os.Stderr, "unknown stream", stream)
		os.Exit(2)
	}
	res.Stream = stream
	res.Seed = *seed
	js, _ := json.MarshalIndent(res, "", " ")
	if *out != "" {
		os.MkdirAll(filepath.Dir(*out), 0o755)
		os.WriteFile(*out, js, 0o644)
	} else {
		fmt.Println(string(js))
	}
	if len(res.Mismatches) > 0 {
		os.Exit(3)
	}
	for _, f := range res.OracleFails {
		if f.Known == "" {
			os.Exit(4)
		}
	}
}

func splitList(s string) []string {
	if s == "" {
		return nil
	}
	return strings.Split(s, ",")
}

func ints(s string) []int {
	out := []int{}
	for _, p := range strings.Split(s, ",") {
		var v int
		fmt.Sscan(p, &v)
		if v > 0 {
			out = append(out, v)
		}
	}
	return out
}

type fsOpts struct {
	seed    int64
	n       int
	length  int
	workers int
	driver  string
	wild    bool
	oracles []string
	rs      []int
	scratch string
	replay  string
	known   *Known
	mode    string
}

func has(xs []string, x string) bool {
	for _, y := range xs {
		if y == x {
			return true
		}
	}
	return false
}

func runFS(o fsOpts) *result {
	res := &result{Methods: map[string]int{}, Results: map[string]int{}, Triggers: map[string]int{}, Branches: map[string]int{},
		KnownHits: map[string]int{}, OracleChecks: map[string]int{}}
	var mu sync.Mutex
	var wg sync.WaitGroup
	jobs := make(chan int)
	seen := map[string]bool{}
	for w := 0; w < o.workers; w++ {
		wg.Add(1)
		go func(w int) {
			defer wg.Done()
			var batch []*h.History
			flush := func() {
				if len(batch) == 0 {
					return
				}
				ms, err := h.RunDriver(o.driver, batch)
				mu.Lock()
				defer mu.Unlock()
				if err != nil {
					res.Mismatches = append(res.Mismatches, h.Mismatch{Kind: "driver-error", Impl: []string{err.Error()}})
					batch = nil
					return
				}
				for _, hist := range batch {
					m := ms[hist.ID]
					if mm := h.CompareCorr(hist, m); mm != nil {
						res.Mismatches = append(res.Mismatches, *mm)
					}
					judgeOracles(o, hist, m, res)
					res.Histories++
					res.Calls += len(hist.Steps)
					if hist.Wedged {
						res.Wedged++
					}
					key := []string{}
					nonCreate := false
					anyTrig := false
					for i := range hist.Steps {
						if i < len(m) && len(m[i].Trig) > 0 {
							anyTrig = true
						}
					}
					if !anyTrig {
						res.TriggerFree++
					}
					for i, st := range hist.Steps {
						res.Methods[st.Call.Method]++
						res.Results[st.Call.Method+":"+st.Res]++
						key = append(key, st.Call.Line()+"="+st.Res)
						if i < len(m) {
							for _, t := range m[i].Trig {
								res.Triggers[t]++
							}
							for _, b := range m[i].Br {
								res.Branches[b]++
							}
						}
						for _, l := range st.Obs {
							if strings.HasPrefix(l, "rec\t") && (strings.Contains(l, h.EncName("UPDATE")) || strings.Contains(l, h.EncName("DELETE"))) {
								nonCreate = true
							}
						}
					}
					k := strings.Join(key, "|")
					live := 0
					if len(hist.Steps) > 0 {
						for _, l := range hist.Steps[len(hist.Steps)-1].Obs {
							if strings.HasPrefix(l, "row\t") && strings.Split(l, "\t")[9] == "0" {
								live++
							}
						}
					}
					if !seen[k] && live >= 2 && nonCreate {
						seen[k] = true
						res.Nontrivial++
					}
					if len(res.Samples) < 3 {
						s := []string{}
						for _, st := range hist.Steps {
							s = append(s, strings.ReplaceAll(st.Call.Line(), "\t", " ")+" -> "+st.Res)
						}
						res.Samples = append(res.Samples, s)
					}
				}
				batch = nil
			}
			for j := range jobs {
				id := fmt.Sprintf("%d-%d", o.seed, j)
				dir := filepath.Join(o.scratch, id)
				os.MkdirAll(dir, 0o755)
				c := h.DefaultCfg()
				c.RS = o.rs[j%len(o.rs)]
				g := h.NewGen(o.seed*1_000_003+int64(j), h.Profile{Wild: o.wild, Symlinks: o.wild, MaxContent: 1500})
				gw := h.NewGen(o.seed*1_000_003+int64(j)+7, h.Profile{Wild: true, Symlinks: false, MaxContent: 600})
				i := 0
				initCall := h.Call{Method: "initialize", Args: []string{h.EncName("/"), "511"}}
				pivot := o.length / 2
				next := func() (h.Call, bool) {
					i++
					if i == 1 {
						return initCall, true
					}
					if i > o.length {
						return h.Call{}, false
					}
					switch o.mode {
					case "ro":
						// populate with a clean history, then a fresh read-only process over the same
						// drive (index kept or dropped, with or without a write backend), then anything
						if i == pivot {
							args := []string{"index=keep", "ro=1"}
							if j%2 == 1 {
								args[0] = "index=drop"
							}
							if j%4 >= 2 {
								args = append(args, "nowrite=1")
							}
							return h.Call{Method: "@reopen", Args: args}, true
						}
						if i == pivot+1 {
							return initCall, true
						}
						if i > pivot {
							gw.SyncShadow(g)
							return gw.Next(), true
						}
					case "reopen":
						// a fresh read-write process in the middle: index kept, or dropped and rebuilt
						if i == pivot {
							args := []string{"index=keep", "ro=0"}
							if j%2 == 1 {
								args[0] = "index=drop"
							}
							return h.Call{Method: "@reopen", Args: args}, true
						}
						if i == pivot+1 {
							return initCall, true
						}
					}
					return g.Next(), true
				}
				hist, err := h.RunHistory(dir, c, id, next, len(o.oracles) > 0, oracleHook(o, dir))
				os.RemoveAll(dir)
				if err != nil {
					mu.Lock()
					res.Mismatches = append(res.Mismatches, h.Mismatch{Hist: id, Kind: "harness-error", Impl: []string{err.Error()}})
					mu.Unlock()
					continue
				}
				batch = append(batch, hist)
				if len(batch) >= 16 {
					flush()
				}
			}
			flush()
		}(w)
	}
	for j := 0; j < o.n; j++ {
		jobs <- j
	}
	close(jobs)
	wg.Wait()
	sort.Slice(res.Mismatches, func(a, b int) bool { return res.Mismatches[a].Hist < res.Mismatches[b].Hist })
	return res
}
