// corr: the correspondence check.  Runs the real STFS code (in process, from /repo's working
// tree) and the compiled Lean model on the same generated histories and compares their
// canonical observations after every call; property oracles run on the same histories.
package main

import (
	"bytes"
	"encoding/json"
	"flag"
	"fmt"
	"math/rand"
	"os"
	"os/exec"
	"path/filepath"
	"sort"
	"strings"
	"sync"
	"time"

	"verifharness/internal/h"
)

type result struct {
	Stream       string         `json:"stream"`
	Seed         int64          `json:"seed"`
	Histories    int            `json:"histories"`
	Calls        int            `json:"calls"`
	Nontrivial   int            `json:"distinct_nontrivial"`
	Methods      map[string]int `json:"methods"`
	Results      map[string]int `json:"result_classes"`
	Triggers     map[string]int `json:"triggers"`
	Branches     map[string]int `json:"branches"`
	Mismatches   []h.Mismatch   `json:"mismatches"`
	OracleFails  []OracleFail   `json:"oracle_failures"`
	KnownHits    map[string]int `json:"known_finding_hits"`
	Samples      [][]string     `json:"samples"`
	Wedged       int            `json:"wedged_histories"`
	TriggerFree  int            `json:"trigger_free_histories"`
	Crashes      int            `json:"crashes"`
	OracleChecks map[string]int `json:"oracle_checks"`
}

// OracleFail is a property violation observed on the real code.
type OracleFail struct {
	Property string   `json:"property"`
	Hist     string   `json:"hist"`
	Step     int      `json:"step"`
	What     string   `json:"what"`
	Triggers []string `json:"triggers"`
	Known    string   `json:"known,omitempty"`
	Calls    []string `json:"calls"`
}

func main() {
	if len(os.Args) < 2 {
		fmt.Fprintln(os.Stderr, "usage: corr <stream> [flags]")
		os.Exit(2)
	}
	stream := os.Args[1]
	fl := flag.NewFlagSet(stream, flag.ExitOnError)
	seed := fl.Int64("seed", 1, "PRNG seed")
	n := fl.Int("n", 100, "number of histories")
	length := fl.Int("len", 14, "calls per history")
	workers := fl.Int("workers", 8, "parallel workers")
	driver := fl.String("driver", "/verif/lean/.lake/build/bin/driver", "compiled Lean driver")
	out := fl.String("out", "", "write the JSON result here")
	wild := fl.Bool("wild", false, "let the generator enter the regions of known findings")
	oracles := fl.String("oracles", "", "comma separated property oracles to run (C01,C02,...)")
	rss := fl.String("rs", "20,1,3", "record sizes to cycle through")
	replay := fl.String("replay", "", "replay a history file instead of generating")
	child := fl.Bool("child", false, "internal: run a shard in this process")
	from := fl.Int("from", 0, "internal: first history index of the shard")
	to := fl.Int("to", -1, "internal: one past the last history index of the shard")
	wd := fl.Int("watchdog", 10, "seconds after which a call counts as not returning")
	pipes := fl.String("pipes", "", "semicolon separated pipeline configurations to cycle through: compression+encryption+signature")
	keyDir := fl.String("keys", "/verif/work/keys", "directory caching generated key pairs")
	dump := fl.String("dump", "", "write the full transcript (implementation and model) of every history into this directory")
	allCuts := fl.Bool("allcuts", false, "cut mode: every byte offset of small tapes instead of the boundary neighbourhood")
	mode := fl.String("mode", "plain", "history shape: plain | ro (populate, reopen read-only, mixed calls) | reopen (reopen/rebuild in the middle)")
	work := fl.String("work", "", "scratch directory (default: a fresh temp dir, removed afterwards)")
	clients := fl.Int("clients", 3, "conc: at most this many concurrent clients")
	knownPath := fl.String("known", "/verif/known-findings.jsonl", "known findings file (read only)")
	fl.Parse(os.Args[2:])

	scratch := *work
	if scratch == "" {
		d, err := os.MkdirTemp("", "verif-corr-")
		if err != nil {
			panic(err)
		}
		scratch = d
		defer os.RemoveAll(d)
	}
	var res *result
	switch stream {
	case "fs", "fault":
		o := fsOpts{seed: *seed, n: *n, length: *length, workers: *workers, driver: *driver, wild: *wild,
			oracles: splitList(*oracles), rs: ints(*rss), scratch: scratch, replay: *replay, known: loadKnown(*knownPath), mode: *mode,
			from: *from, to: *to, thoroughCuts: *allCuts, dump: *dump, pipes: splitSemi(*pipes), keyDir: *keyDir}
		o.watchdog = time.Duration(*wd) * time.Second
		if *child && stream == "fault" {
			res = runFault(o)
		} else if *child {
			res = runFS(o)
		} else {
			for _, p := range o.pipes {
				if _, err := h.WithPipe(h.DefaultCfg(), p, o.keyDir); err != nil {
					fmt.Fprintln(os.Stderr, "keys:", err)
					os.Exit(2)
				}
			}
			res = runFSParent(o, stream, os.Args[2:])
			if o.mode == "roundtrip" && has(o.oracles, "C03") {
				// the compressors alone, with the tape-specific parameters no plain file reaches
				for _, m := range codecMatrix(o.seed) {
					of := OracleFail{Property: "C03", Hist: "codec-matrix", What: m, Calls: []string{m}}
					of.Known = o.known.ExplainInput("C03", m)
					if of.Known != "" {
						res.KnownHits[of.Known]++
					}
					res.OracleFails = append(res.OracleFails, of)
				}
				res.OracleChecks["C03 codec matrix"] = 8 * 3 * 2 * 6
			}
		}
	case "conc":
		o := fsOpts{seed: *seed, n: *n, workers: *workers, driver: *driver, rs: ints(*rss), scratch: scratch, known: loadKnown(*knownPath),
			from: *from, to: *to, clients: *clients}
		o.watchdog = time.Duration(*wd) * time.Second
		if *child {
			if o.to < 0 {
				o.to = o.n
			}
			res = runConc(o)
		} else {
			res = runConcParent(o, os.Args[2:])
		}
	case "forge", "leak":
		o := fsOpts{seed: *seed, n: *n, length: *length, workers: *workers, driver: *driver, rs: ints(*rss), scratch: scratch, known: loadKnown(*knownPath),
			thoroughCuts: *allCuts, pipes: splitSemi(*pipes), keyDir: *keyDir, from: *from, to: *to}
		o.watchdog = time.Duration(*wd) * time.Second
		for _, p := range o.pipes {
			if _, err := h.WithPipe(h.DefaultCfg(), p, o.keyDir); err != nil {
				fmt.Fprintln(os.Stderr, "keys:", err)
				os.Exit(2)
			}
		}
		if stream == "leak" {
			res = runLeak(o)
		} else {
			res = runForge(o)
		}
	case "keys":
		o := fsOpts{seed: *seed, n: *n, workers: *workers, driver: *driver, known: loadKnown(*knownPath)}
		res = runKeys(o)
	case "foreign-probe":
		runForeignProbe(*seed, *n, ints(*rss))
		return
	default:
		fmt.Fprintln(os.Stderr, "unknown stream", stream)
		os.Exit(2)
	}
	res.Stream = stream
	res.Seed = *seed
	js, _ := json.MarshalIndent(res, "", " ")
	if *out != "" {
		os.MkdirAll(filepath.Dir(*out), 0o755)
		os.WriteFile(*out, js, 0o644)
	} else {
		fmt.Println(string(js))
	}
	if len(res.Mismatches) > 0 {
		os.Exit(3)
	}
	for _, f := range res.OracleFails {
		if f.Known == "" {
			os.Exit(4)
		}
	}
}

func splitSemi(s string) []string {
	if s == "" {
		return nil
	}
	return strings.Split(s, ";")
}

func splitList(s string) []string {
	if s == "" {
		return nil
	}
	return strings.Split(s, ",")
}

func ints(s string) []int {
	out := []int{}
	for _, p := range strings.Split(s, ",") {
		var v int
		fmt.Sscan(p, &v)
		if v > 0 {
			out = append(out, v)
		}
	}
	return out
}

type fsOpts struct {
	clients      int
	seed         int64
	n            int
	length       int
	workers      int
	driver       string
	wild         bool
	oracles      []string
	rs           []int
	scratch      string
	replay       string
	known        *Known
	mode         string
	from         int
	to           int
	thoroughCuts bool
	dump         string
	pipes        []string
	keyDir       string
	watchdog     time.Duration
}

func has(xs []string, x string) bool {
	for _, y := range xs {
		if y == x {
			return true
		}
	}
	return false
}

func runFS(o fsOpts) *result {
	res := &result{Methods: map[string]int{}, Results: map[string]int{}, Triggers: map[string]int{}, Branches: map[string]int{},
		KnownHits: map[string]int{}, OracleChecks: map[string]int{}}
	var mu sync.Mutex
	var wg sync.WaitGroup
	jobs := make(chan int)
	seen := map[string]bool{}
	for w := 0; w < o.workers; w++ {
		wg.Add(1)
		go func(w int) {
			defer wg.Done()
			var batch []*h.History
			flush := func() {
				if len(batch) == 0 {
					return
				}
				ms, err := h.RunDriver(o.driver, batch)
				mu.Lock()
				defer mu.Unlock()
				if err != nil {
					res.Mismatches = append(res.Mismatches, h.Mismatch{Kind: "driver-error", Impl: []string{err.Error()}})
					batch = nil
					return
				}
				for _, hist := range batch {
					m := ms[hist.ID]
					if o.dump != "" {
						os.MkdirAll(o.dump, 0o755)
						var b strings.Builder
						for i, st := range hist.Steps {
							b.WriteString(st.Env + "\n" + st.Call.Line() + "\n")
							for _, l := range st.Obs {
								b.WriteString("  impl  " + l + "\n")
							}
							if i < len(m) {
								for _, l := range m[i].Obs {
									b.WriteString("  model " + l + "\n")
								}
								if len(m[i].Trig) > 0 {
									b.WriteString("  trig  " + strings.Join(m[i].Trig, " ") + "\n")
								}
							}
						}
						os.WriteFile(filepath.Join(o.dump, hist.ID+".txt"), []byte(b.String()), 0o644)
					}
					if mm := h.CompareCorr(hist, m); mm != nil {
						res.Mismatches = append(res.Mismatches, *mm)
					}
					judgeOracles(o, hist, m, res)
					res.Histories++
					res.Calls += len(hist.Steps)
					if hist.Wedged {
						res.Wedged++
					}
					key := []string{}
					nonCreate := false
					anyTrig := false
					for i := range hist.Steps {
						if i < len(m) && len(m[i].Trig) > 0 {
							anyTrig = true
						}
					}
					if !anyTrig {
						res.TriggerFree++
					}
					for i, st := range hist.Steps {
						res.Methods[st.Call.Method]++
						res.Results[st.Call.Method+":"+st.Res]++
						key = append(key, st.Call.Line()+"="+st.Res)
						if i < len(m) {
							for _, t := range m[i].Trig {
								res.Triggers[t]++
							}
							for _, b := range m[i].Br {
								res.Branches[b]++
							}
						}
						for _, l := range st.Obs {
							if strings.HasPrefix(l, "rec\t") && (strings.Contains(l, h.EncName("UPDATE")) || strings.Contains(l, h.EncName("DELETE"))) {
								nonCreate = true
							}
						}
					}
					k := strings.Join(key, "|")
					live := 0
					if len(hist.Steps) > 0 {
						for _, l := range hist.Steps[len(hist.Steps)-1].Obs {
							if strings.HasPrefix(l, "row\t") && strings.Split(l, "\t")[9] == "0" {
								live++
							}
						}
					}
					if !seen[k] && live >= 2 && nonCreate {
						seen[k] = true
						res.Nontrivial++
					}
					if len(res.Samples) < 3 {
						s := []string{}
						for _, st := range hist.Steps {
							s = append(s, strings.ReplaceAll(st.Call.Line(), "\t", " ")+" -> "+st.Res)
						}
						res.Samples = append(res.Samples, s)
					}
				}
				batch = nil
			}
			for j := range jobs {
				id := fmt.Sprintf("%d-%d", o.seed, j)
				dir := filepath.Join(o.scratch, id)
				os.MkdirAll(dir, 0o755)
				c := h.DefaultCfg()
				c.RS = o.rs[j%len(o.rs)]
				if len(o.pipes) > 0 {
					var perr error
					c, perr = h.WithPipe(c, o.pipes[(j/len(o.rs))%len(o.pipes)], o.keyDir)
					if perr != nil {
						mu.Lock()
						res.Mismatches = append(res.Mismatches, h.Mismatch{Hist: id, Kind: "harness-error", Impl: []string{"keys: " + perr.Error()}})
						mu.Unlock()
						continue
					}
				}
				g := h.NewGen(o.seed*1_000_003+int64(j), h.Profile{Wild: o.wild, Symlinks: o.wild, MaxContent: 1500})
				gw := h.NewGen(o.seed*1_000_003+int64(j)+7, h.Profile{Wild: true, Symlinks: false, MaxContent: 600})
				i := 0
				initCall := h.Call{Method: "initialize", Args: []string{h.EncName("/"), "511"}}
				pivot := o.length / 2
				var cutPts []int64
				var snapLen int64
				didCut := false
				if o.mode == "cut" {
					pivot = o.length
				}
				var fg *foreignGen
				fgReopened := 0
				if o.mode == "foreign" {
					fr := rand.New(rand.NewSource(o.seed*1_000_003 + int64(j)))
					fg = newForeignGen(fr, h.GenForeign(fr, j))
				}
				var rg *rtGen
				rtReopened := 0
				if o.mode == "roundtrip" {
					rg = newRtGen(rand.New(rand.NewSource(o.seed*1_000_003+int64(j))), c.RS)
				}
				next := func() (h.Call, bool) {
					i++
					if rg != nil {
						switch {
						case i == 1 || rtReopened == 1:
							if rtReopened == 1 {
								rtReopened = 2
							}
							return initCall, true
						case rtReopened == 0 && i > o.length && len(rg.pending) == 0:
							rtReopened = 1
							return h.Call{Method: "@reopen", Args: []string{"index=drop", "ro=0"}}, true
						case rtReopened == 2:
							return h.Call{}, false
						}
						return rg.Next(), true
					}
					if fg != nil {
						switch {
						case i == 1:
							return h.Call{Method: "@foreign", Args: fg.spec.Args()}, true
						case i == 2 || fgReopened == 1:
							if fgReopened == 1 {
								fgReopened = 2
							}
							return initCall, true
						case fgReopened == 0 && i >= pivot && len(fg.pending) == 0:
							// a lost index: the archive plus what was added must survive the rebuild
							fgReopened = 1
							return h.Call{Method: "@reopen", Args: []string{"index=drop", "ro=0"}}, true
						case i > o.length && len(fg.pending) == 0:
							return h.Call{}, false
						}
						return fg.Next(), true
					}
					if i == 1 {
						return initCall, true
					}
					if i > o.length && o.mode != "cut" {
						return h.Call{}, false
					}
					switch o.mode {
					case "ro":
						// populate with a clean history, then a fresh read-only process over the same
						// drive (index kept or dropped, with or without a write backend), then anything
						if i == pivot {
							args := []string{"index=keep", "ro=1"}
							if j%2 == 1 {
								args[0] = "index=drop"
							}
							if j%4 >= 2 {
								args = append(args, "nowrite=1")
							}
							return h.Call{Method: "@reopen", Args: args}, true
						}
						if i == pivot+1 {
							return initCall, true
						}
						if i > pivot {
							gw.SyncShadow(g)
							return gw.Next(), true
						}
					case "file":
						return g.NextFile(), true
					case "cut":
						// after a clean history: rebuilds of the tape cut at many byte offsets
						if i > pivot {
							if cutPts == nil {
								cutPts = cutPoints(filepath.Join(dir, "drive.tar"), j, o.thoroughCuts)
							}
							k := i - pivot - 1
							if k >= len(cutPts) {
								return h.Call{}, false
							}
							return h.Call{Method: "@rebuildcut", Args: []string{fmt.Sprint(cutPts[k])}}, true
						}
					case "open16":
						// C16: populate (snapshot of the index on the way), then a crash/cut of the tape
						// (sometimes), a fresh process over the tape with the index kept, dropped or stale,
						// Initialize, and more calls
						variantB := j%5 == 4 // index rebuilt by an index-less open earlier; crash; same index kept
						if variantB {
							if i == pivot/2 {
								return h.Call{Method: "@reopen", Args: []string{"index=drop", "ro=0"}}, true
							}
							if i == pivot/2+1 {
								return initCall, true
							}
							if i == pivot-1 {
								pts := tailCuts(filepath.Join(dir, "drive.tar"))
								if len(pts) > 0 {
									didCut = true
									return h.Call{Method: "@cuttape", Args: []string{fmt.Sprint(pts[(j/5)%len(pts)])}}, true
								}
							}
							if i == pivot {
								return h.Call{Method: "@reopen", Args: []string{"index=keep", "ro=0"}}, true
							}
							if i == pivot+1 {
								return initCall, true
							}
							if i > pivot+1 && didCut {
								// an index ahead of the tape: only the non-destructiveness of the open is in scope
								return h.Call{}, false
							}
							break
						}
						if i == pivot/2 {
							if fi, err := os.Stat(filepath.Join(dir, "drive.tar")); err == nil {
								snapLen = fi.Size()
							}
							return h.Call{Method: "@snapshot"}, true
						}
						if i == pivot-1 && j%3 != 0 {
							// a crash that loses the tail of the tape; never cuts below what the stale
							// snapshot of the index already reflects (an index ahead of the tape is not in
							// the property's quantifier)
							pts := tailCuts(filepath.Join(dir, "drive.tar"))
							ok := pts[:0]
							for _, c := range pts {
								if c >= snapLen {
									ok = append(ok, c)
								}
							}
							if len(ok) > 0 {
								didCut = true
								return h.Call{Method: "@cuttape", Args: []string{fmt.Sprint(ok[(j/3)%len(ok)])}}, true
							}
						}
						if i == pivot {
							mode := []string{"keep", "drop", "snap"}[(j/2)%3]
							if didCut && mode == "keep" {
								mode = "drop"
							}
							return h.Call{Method: "@reopen", Args: []string{"index=" + mode, "ro=0"}}, true
						}
						if i == pivot+1 {
							return initCall, true
						}
					case "reopen":
						// a fresh read-write process in the middle: index kept, or dropped and rebuilt
						if i == pivot {
							args := []string{"index=keep", "ro=0"}
							if j%2 == 1 {
								args[0] = "index=drop"
							}
							return h.Call{Method: "@reopen", Args: args}, true
						}
						if i == pivot+1 {
							return initCall, true
						}
					}
					return g.Next(), true
				}
				var pend []string
				pendPath := filepath.Join(o.scratch, fmt.Sprintf("pending-%d.in", j))
				before := func(i int, call h.Call, envs []string) {
					// progress for the parent (crash attribution) and the driver input so far
					pend = append(pend[:0], h.CfgLine(c), "hist\t"+id)
					pend = append(pend, envs...)
					pend = append(pend, call.Line())
					os.WriteFile(pendPath, []byte(strings.Join(pend, "\n")+"\n"), 0o644)
					fmt.Printf("P %d %d\n", j, i)
				}
				hook := oracleHook(o, dir)
				if rg != nil {
					inner := hook
					hook = func(i int, s *h.Session, st *h.Step) {
						if inner != nil {
							inner(i, s, st)
						}
						if has(o.oracles, "C03") {
							rg.hook(i, s, st)
						}
					}
				}
				if fg != nil {
					inner := hook
					hook = func(i int, s *h.Session, st *h.Step) {
						if inner != nil {
							inner(i, s, st)
						}
						if has(o.oracles, "C17") {
							fg.hook(i, s, st)
						}
					}
				}
				hist, err := h.RunHistoryB(dir, c, id, next, len(o.oracles) > 0, hook, before)
				os.Remove(pendPath)
				os.RemoveAll(dir)
				if err != nil {
					mu.Lock()
					res.Mismatches = append(res.Mismatches, h.Mismatch{Hist: id, Kind: "harness-error", Impl: []string{err.Error()}})
					mu.Unlock()
					continue
				}
				batch = append(batch, hist)
				if len(batch) >= 16 {
					flush()
				}
			}
			flush()
		}(w)
	}
	hi := o.n
	if o.to >= 0 {
		hi = o.to
	}
	for j := o.from; j < hi; j++ {
		jobs <- j
	}
	close(jobs)
	wg.Wait()
	sort.Slice(res.Mismatches, func(a, b int) bool { return res.Mismatches[a].Hist < res.Mismatches[b].Hist })
	return res
}

// runFSParent shards the histories over child processes so that a panic in a goroutine of the
// code under test (which kills the process) costs one history, is attributed to the call that
// was running, and is reported as a failing input.
func runFSParent(o fsOpts, stream string, args []string) *result {
	total := &result{Methods: map[string]int{}, Results: map[string]int{}, Triggers: map[string]int{}, Branches: map[string]int{},
		KnownHits: map[string]int{}, OracleChecks: map[string]int{}}
	self, _ := os.Executable()
	type shard struct{ from, to int }
	var shards []shard
	w := o.workers
	if w < 1 {
		w = 1
	}
	per := (o.n + w - 1) / w
	for a := 0; a < o.n; a += per {
		b := a + per
		if b > o.n {
			b = o.n
		}
		shards = append(shards, shard{a, b})
	}
	var mu sync.Mutex
	var wg sync.WaitGroup
	for k, sh := range shards {
		wg.Add(1)
		go func(k int, sh shard) {
			defer wg.Done()
			from := sh.from
			for from < sh.to {
				outp := filepath.Join(o.scratch, fmt.Sprintf("shard-%d-%d.json", k, from))
				scr := filepath.Join(o.scratch, fmt.Sprintf("shard-%d", k))
				os.MkdirAll(scr, 0o755)
				cargs := append([]string{stream}, args...)
				cargs = append(cargs, "-child", "-from", fmt.Sprint(from), "-to", fmt.Sprint(sh.to), "-out", outp, "-work", scr, "-workers", "1")
				cmd := exec.Command(self, cargs...)
				var stdout, stderr bytes.Buffer
				cmd.Stdout = &stdout
				cmd.Stderr = &stderr
				err := cmd.Run()
				if data, rerr := os.ReadFile(outp); rerr == nil {
					var r result
					if json.Unmarshal(data, &r) == nil {
						mu.Lock()
						mergeResult(total, &r)
						mu.Unlock()
					}
					os.Remove(outp)
					from = sh.to
					if err == nil || cmd.ProcessState.ExitCode() == 3 || cmd.ProcessState.ExitCode() == 4 {
						break
					}
				}
				if err == nil {
					break
				}
				// the child died: find the call that was running
				lastJ, lastI := -1, -1
				for _, l := range strings.Split(stdout.String(), "\n") {
					var a, b int
					if n, _ := fmt.Sscanf(l, "P %d %d", &a, &b); n == 2 {
						lastJ, lastI = a, b
					}
				}
				if lastJ < 0 {
					mu.Lock()
					total.Mismatches = append(total.Mismatches, h.Mismatch{Kind: "harness-error", Impl: []string{"child failed before the first call: " + tail(stderr.String(), 600)}})
					mu.Unlock()
					break
				}
				pend, _ := os.ReadFile(filepath.Join(scr, fmt.Sprintf("pending-%d.in", lastJ)))
				calls := []string{}
				for _, l := range strings.Split(string(pend), "\n") {
					if strings.HasPrefix(l, "env\t") || strings.HasPrefix(l, "call\t") {
						calls = append(calls, l)
					}
				}
				fired, lastRes := driverTriggers(o.driver, pend)
				predicted := lastRes == "res\tcrash"
				mu.Lock()
				total.Crashes++
				for _, p := range o.oracles {
					f := OracleFail{Property: p, Hist: fmt.Sprintf("%d-%d", o.seed, lastJ), Step: lastI,
						What: "the process crashed (panic) while this call was running: " + firstLine(stderr.String()), Triggers: fired, Calls: calls}
					if predicted {
						f.Known = o.known.ExplainCrash(fired)
					}
					if f.Known != "" {
						total.KnownHits[f.Known]++
					}
					total.OracleFails = append(total.OracleFails, f)
				}
				if !predicted {
					// the model did not predict that this call kills the process: a disagreement
					total.Mismatches = append(total.Mismatches, h.Mismatch{Hist: fmt.Sprintf("%d-%d", o.seed, lastJ), Step: lastI, Kind: "crash",
						Impl: []string{firstLine(stderr.String())}, Model: []string{lastRes}, Calls: calls})
				} else {
					total.Results["(crash predicted by the model)"]++
				}
				mu.Unlock()
				from = lastJ + 1
			}
		}(k, sh)
	}
	wg.Wait()
	sort.Slice(total.Mismatches, func(a, b int) bool { return total.Mismatches[a].Hist < total.Mismatches[b].Hist })
	return total
}

func tail(s string, n int) string {
	if len(s) > n {
		return s[len(s)-n:]
	}
	return s
}

func firstLine(s string) string {
	for _, l := range strings.Split(s, "\n") {
		if strings.TrimSpace(l) != "" {
			return l
		}
	}
	return ""
}

// driverTriggers runs a (partial) driver input through the model and returns every trigger
// that fired.
func driverTriggers(driver string, input []byte) ([]string, string) {
	cmd := exec.Command(driver)
	cmd.Stdin = bytes.NewReader(input)
	out, err := cmd.Output()
	if err != nil {
		return nil, ""
	}
	fired := []string{}
	lastRes := ""
	for _, l := range strings.Split(string(out), "\n") {
		if strings.HasPrefix(l, "res\t") {
			lastRes = l
		}
		if strings.HasPrefix(l, "trig\t") {
			for _, t := range strings.Split(strings.TrimPrefix(l, "trig\t"), "\t") {
				if !has(fired, t) {
					fired = append(fired, t)
				}
			}
		}
	}
	return fired, lastRes
}

func mergeResult(t, r *result) {
	t.Histories += r.Histories
	t.Calls += r.Calls
	t.Nontrivial += r.Nontrivial
	t.Wedged += r.Wedged
	t.TriggerFree += r.TriggerFree
	t.Crashes += r.Crashes
	for k, v := range r.Methods {
		t.Methods[k] += v
	}
	for k, v := range r.Results {
		t.Results[k] += v
	}
	for k, v := range r.Triggers {
		t.Triggers[k] += v
	}
	for k, v := range r.Branches {
		t.Branches[k] += v
	}
	for k, v := range r.KnownHits {
		t.KnownHits[k] += v
	}
	for k, v := range r.OracleChecks {
		t.OracleChecks[k] += v
	}
	t.Mismatches = append(t.Mismatches, r.Mismatches...)
	t.OracleFails = append(t.OracleFails, r.OracleFails...)
	for _, s := range r.Samples {
		if len(t.Samples) < 3 {
			t.Samples = append(t.Samples, s)
		}
	}
}

// cutPoints chooses the byte offsets at which the tape is cut: around every item boundary and
// header/content boundary (quick), or every byte of the tail plus a stride over the rest.
func cutPoints(drive string, j int, all bool) []int64 {
	items, blocks, _ := h.ScanTape(drive, 0)
	size := blocks * 512
	set := map[int64]bool{}
	add := func(c int64) {
		if c >= 0 && c <= size {
			set[c] = true
		}
	}
	for _, it := range items {
		s := it.Block * 512
		for _, d := range []int64{0, 1, 100, 511, 512, 513} {
			add(s + d)
		}
		if !it.Trailer && it.HB > 0 {
			hc := s + it.HB*512
			for _, d := range []int64{-1, 0, 1, 255} {
				add(hc + d)
			}
			add(hc + it.Stored - 1)
			add(hc + it.Stored)
			add(hc + it.Stored + 1)
			add(hc + it.Stored/2)
		}
	}
	if all {
		for c := int64(0); c <= size; c++ {
			if c > size-6144 || c%37 == int64(j%37) {
				add(c)
			}
		}
	}
	out := []int64{}
	for c := range set {
		out = append(out, c)
	}
	sort.Slice(out, func(a, b int) bool { return out[a] < out[b] })
	return out
}

// tailCuts: byte offsets in the last archives of the tape at which a crash is simulated for
// C16: item boundaries (lost trailer, lost last archive), inside headers, content, padding
// and trailers, aligned and unaligned.
func tailCuts(drive string) []int64 {
	items, blocks, _ := h.ScanTape(drive, 0)
	size := blocks * 512
	var out []int64
	start := len(items) - 5
	if start < 2 {
		start = 2
	}
	for k := start; k < len(items); k++ {
		it := items[k]
		s := it.Block * 512
		out = append(out, s)
		if it.Trailer {
			out = append(out, s+512, s+700)
			continue
		}
		if it.HB > 0 {
			out = append(out, s+512, s+100, s+it.HB*512)
			if it.Stored > 0 {
				out = append(out, s+it.HB*512+it.Stored/2, s+it.HB*512+it.Stored)
			}
		}
	}
	res := out[:0]
	for _, c := range out {
		if c > 1536 && c < size {
			res = append(res, c)
		}
	}
	return res
}
