package main

import (
	"fmt"

	_ "github.com/pojntfx/stfs/pkg/fs"
)

func main() { fmt.Println("ok") }
