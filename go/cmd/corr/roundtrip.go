package main

import (
	"bytes"
	"fmt"
	"io"
	"io/fs"
	"math/rand"
	"os"
	"strconv"
	"strings"

	"github.com/pojntfx/stfs/pkg/compression"
	"github.com/pojntfx/stfs/pkg/config"
	"github.com/pojntfx/stfs/pkg/mtio"
	"github.com/pojntfx/stfs/pkg/recovery"
	"github.com/pojntfx/stfs/pkg/tape"

	"verifharness/internal/h"
)

// C03: the round-trip matrix.  One history per pipeline configuration (compression x level x
// encryption x signature x record size x write-cache type): files of the size classes
// {0, 1, 511, 512, 513, one record -1/0/+1, several records} and the byte distributions
// {random, low-entropy text, zeros} are written through the filesystem; after every close the
// content is read back three ways — through the filesystem (Open + ReadAll), restored through
// the archive interface, fetched by tape position — and compared byte for byte with what was
// written; Stat must report the content length.  Then the index is dropped, rebuilt, and
// everything is read again.

type rtFile struct {
	name string
	n    int
	seed int64
}

type rtGen struct {
	r       *rand.Rand
	rs      int
	files   []rtFile
	pending []h.Call
	nextH   int64
	k       int
	// the file whose create/write/close sequence just ended (for the oracle)
	closed *rtFile
	last   bool
}

func newRtGen(r *rand.Rand, rs int) *rtGen { return &rtGen{r: r, rs: rs} }

func (g *rtGen) sizes() []int {
	rec := g.rs * 512
	return []int{0, 1, 511, 512, 513, rec - 1, rec, rec + 1, 3*rec + 77, 2*rec - 500}
}

func (g *rtGen) Next() h.Call {
	if len(g.pending) > 0 {
		c := g.pending[0]
		g.pending = g.pending[1:]
		g.last = len(g.pending) == 0
		return c
	}
	g.closed = nil
	g.k++
	sz := g.sizes()
	n := sz[g.r.Intn(len(sz))]
	if n > 60000 {
		n = 60000
	}
	seed := int64(g.r.Intn(1 << 20))
	switch g.r.Intn(3) {
	case 1:
		seed += 1 << 20 // text
	case 2:
		seed += 1 << 21 // zeros
	}
	f := rtFile{name: fmt.Sprintf("/f%d", g.k), n: n, seed: seed}
	g.files = append(g.files, f)
	g.nextH++
	id := fmt.Sprint(g.nextH)
	e := h.EncName
	g.pending = []h.Call{}
	if n > 0 || g.r.Intn(2) == 0 {
		if n > 2000 && g.r.Intn(2) == 0 {
			// two writes: the generator state continues, so the second part is GenBytes of the
			// remaining length with its own seed — keep it simple: one distribution per file,
			// written in one call
		}
		g.pending = append(g.pending, h.Call{Method: "hwrite", Args: []string{id, fmt.Sprint(n), fmt.Sprint(seed)}})
	} else {
		f.n = 0
		g.files[len(g.files)-1] = f
	}
	g.pending = append(g.pending, h.Call{Method: "hclose", Args: []string{id}},
		h.Call{Method: "stat", Args: []string{e(f.name)}})
	g.last = false
	cf := f
	g.closed = &cf
	return h.Call{Method: "create", Args: []string{id, e(f.name)}}
}

// fetchAt reads the record at (record, block) through recovery.Fetch.
func fetchAt(e *h.Env, record, block int64) ([]byte, error) {
	tm := tape.NewTapeManager(e.Drive, mtio.MagneticTapeIO{}, e.Cfg.RS, false)
	reader, err := tm.GetReader()
	if err != nil {
		return nil, err
	}
	defer tm.Close()
	var buf bytes.Buffer
	pc := config.PipeConfig{RecordSize: e.Cfg.RS, Compression: e.Cfg.Compression, Encryption: e.Cfg.Encryption, Signature: e.Cfg.Signature}
	err = recovery.Fetch(reader, mtio.MagneticTapeIO{}, pc, e.Cfg.CryptoRead,
		func(string, fs.FileMode) (io.WriteCloser, error) { return bufCloser2{&buf}, nil },
		func(string, fs.FileMode) error { return nil },
		int(record), int(block), "out", false, func(*config.Header) {})
	if err != nil {
		return nil, err
	}
	return buf.Bytes(), nil
}

type bufCloser2 struct{ b *bytes.Buffer }

func (c bufCloser2) Write(p []byte) (int, error) { return c.b.Write(p) }
func (c bufCloser2) Close() error                { return nil }

// checkFile reads one file back the three ways and compares.
func (g *rtGen) checkFile(s *h.Session, st *h.Step, f rtFile, stage string) []string {
	var msgs []string
	want := h.GenBytes(f.n, f.seed)
	desc := fmt.Sprintf("%s (%d bytes, %s)", f.name, f.n, map[int64]string{0: "random", 1: "text", 2: "zeros"}[f.seed>>20])
	// size in the index
	var rec, blk, size int64 = -1, -1, -1
	rows, _ := s.E.RowLines()
	for _, l := range rows {
		c := strings.Split(l, "\t")
		if strings.TrimPrefix(h.DecName(c[1]), "/") == strings.TrimPrefix(f.name, "/") && c[9] == "0" {
			size, _ = strconv.ParseInt(c[4], 10, 64)
			rec, _ = strconv.ParseInt(c[5], 10, 64)
			blk, _ = strconv.ParseInt(c[6], 10, 64)
		}
	}
	if size != int64(f.n) {
		msgs = append(msgs, fmt.Sprintf("%s: the size reported for %s is %d", stage, desc, size))
	}
	restored, rerr := s.SafeCat(f.name)
	if rerr != nil && os.Getenv("VERIF_DEBUG") != "" {
		fmt.Fprintf(os.Stderr, "DEBUG restore %s: %v\n", f.name, rerr)
	}
	switch {
	case rerr != nil && f.n == 0:
		msgs = append(msgs, fmt.Sprintf("%s: restoring %s through the archive interface fails: %s\x00only=only:emptyFileUnderCodec", stage, desc, h.ClassOf(rerr)))
	case rerr != nil:
		msgs = append(msgs, fmt.Sprintf("%s: restoring %s through the archive interface fails: %s", stage, desc, h.ClassOf(rerr)))
	case !bytes.Equal(restored, want):
		msgs = append(msgs, fmt.Sprintf("%s: restoring %s returns %d bytes that differ from what was written", stage, desc, len(restored)))
	}
	if rec >= 0 {
		got, ferr := fetchAt(s.E, rec, blk)
		switch {
		case ferr != nil && f.n == 0:
			msgs = append(msgs, fmt.Sprintf("%s: fetching %s by tape position (%d,%d) fails: %s\x00only=only:emptyFileUnderCodec", stage, desc, rec, blk, h.ClassOf(ferr)))
		case ferr != nil:
			msgs = append(msgs, fmt.Sprintf("%s: fetching %s by tape position (%d,%d) fails: %s", stage, desc, rec, blk, h.ClassOf(ferr)))
		case !bytes.Equal(got, want):
			msgs = append(msgs, fmt.Sprintf("%s: fetching %s by tape position returns %d bytes that differ from what was written", stage, desc, len(got)))
		}
	}
	if rerr == nil {
		// through the filesystem (only when the archive interface could read it: a read error in
		// the handle's goroutine would kill the process — finding F18)
		b, cerr := s.Cat(f.name)
		switch {
		case cerr != nil:
			msgs = append(msgs, fmt.Sprintf("%s: reading %s through the filesystem fails: %s", stage, desc, h.ClassOf(cerr)))
		case !bytes.Equal(b, want):
			msgs = append(msgs, fmt.Sprintf("%s: reading %s through the filesystem returns %d bytes that differ from what was written", stage, desc, len(b)))
		}
	}
	return msgs
}

func (g *rtGen) hook(i int, s *h.Session, st *h.Step) {
	add := func(ms []string) {
		for _, m := range ms {
			st.OracleMsgs = append(st.OracleMsgs, "C03\x00"+m)
		}
	}
	if st.Directive {
		return
	}
	if st.Call.Method == "initialize" && len(g.files) > 0 {
		// after the rebuild: everything again
		for _, f := range g.files {
			add(g.checkFile(s, st, f, "after an index rebuild"))
		}
		return
	}
	if st.Call.Method == "stat" && g.closed != nil && g.last {
		if st.Res != "ok" {
			add([]string{fmt.Sprintf("Stat of %s after writing it returns %s", g.closed.name, st.Res)})
			return
		}
		add(g.checkFile(s, st, *g.closed, "after close"))
	}
	if (st.Call.Method == "create" || st.Call.Method == "hwrite" || st.Call.Method == "hclose") && st.Res != "ok" {
		add([]string{fmt.Sprintf("%s returns %s while writing a file", st.Call.Method, st.Res)})
	}
}

// codecMatrix exercises the compressors directly with the tape-specific (non-regular)
// parameters, which no filesystem over a plain file reaches.
func codecMatrix(seed int64) []string {
	var msgs []string
	r := rand.New(rand.NewSource(seed))
	for _, format := range config.KnownCompressionFormats {
		for _, level := range config.KnownCompressionLevels {
			for _, regular := range []bool{true, false} {
				for _, rs := range []int{1, 2, 3, 7, 20, 64, 128, 256} {
					n := []int{0, 1, 511, 512, 513, rs*512 - 1, rs*512 + 1, 3*rs*512 + 77}[r.Intn(8)]
					sd := int64(r.Intn(1<<20)) + int64(r.Intn(3))<<20
					want := h.GenBytes(n, sd)
					var enc bytes.Buffer
					err := func() (err error) {
						defer func() {
							if rc := recover(); rc != nil {
								err = fmt.Errorf("panic: %v", rc)
							}
						}()
						w, err := compression.Compress(nopFlusher{&enc}, format, level, regular, rs)
						if err != nil {
							return err
						}
						if _, err := w.Write(want); err != nil {
							return err
						}
						if err := w.Flush(); err != nil {
							return err
						}
						if err := w.Close(); err != nil {
							return err
						}
						rd, err := compression.Decompress(bytes.NewReader(enc.Bytes()), format)
						if err != nil {
							return err
						}
						got, err := io.ReadAll(rd)
						if err != nil {
							return err
						}
						if !bytes.Equal(got, want) {
							return fmt.Errorf("decodes to %d bytes that differ", len(got))
						}
						return nil
					}()
					if err != nil && (strings.Contains(err.Error(), "requires larger record size") || strings.Contains(err.Error(), "only supports regular files")) {
						continue // a documented refusal (tape-specific limit), not a round-trip failure
					}
					if err != nil && !(n == 0 && strings.Contains(err.Error(), "EOF")) {
						msgs = append(msgs, fmt.Sprintf("compression %q regular=%v record size %d (level %s): %d bytes do not round-trip: %v", format, regular, rs, level, n, err))
					}
				}
			}
		}
	}
	return msgs
}

type nopFlusher struct{ w io.Writer }

func (n nopFlusher) Write(p []byte) (int, error) { return n.w.Write(p) }
func (n nopFlusher) Flush() error                { return nil }
