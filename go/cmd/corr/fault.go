package main

import (
	"fmt"
	"os"
	"path/filepath"
	"strings"

	"verifharness/internal/h"
)

// The fault stream (S7): for every mutating call of a short clean history, every single fault
// point the fault-free execution of that call reaches — the k-th call into the index store, the
// k-th write to the drive, the k-th read from the drive — is injected once (the history is re-run
// from scratch each time), and afterwards the call must have returned and probe calls (Stat,
// Mkdir, a read) must return too.  A hang while the writer was still open when the fault fired
// is the known early-return leak (finding F21); anything else is a new violation.
func runFault(o fsOpts) *result {
	res := &result{Methods: map[string]int{}, Results: map[string]int{}, Triggers: map[string]int{}, Branches: map[string]int{},
		KnownHits: map[string]int{}, OracleChecks: map[string]int{}}
	hi := o.n
	if o.to >= 0 {
		hi = o.to
	}
	for j := o.from; j < hi; j++ {
		if j%8 == 0 {
			// scenario: a read-only instance and a writable one sharing one drive manager over a
			// drive that does not exist yet — every Initialize must return and leave the drive free
			scenarioSharedManager(o, j, res)
		}
		g := h.NewGen(o.seed*1_000_003+int64(j), h.Profile{MaxContent: 900})
		script := []h.Call{{Method: "initialize", Args: []string{h.EncName("/"), "511"}}}
		for len(script) < o.length {
			script = append(script, g.Next())
		}
		c := h.DefaultCfg()
		c.RS = o.rs[j%len(o.rs)]
		faults := h.NewFaults()
		c = faults.Install(c)
		runPrefix := func(tag string, upto int) (*h.Session, *h.Env, bool) {
			dir := filepath.Join(o.scratch, fmt.Sprintf("f%d-%s", j, tag))
			os.RemoveAll(dir)
			os.MkdirAll(dir, 0o755)
			e, err := h.NewEnv(dir, c)
			if err != nil {
				return nil, nil, false
			}
			s := h.NewSession(e)
			s.Timeout = o.watchdog
			faults.Reset("", 0)
			for i := 0; i < upto; i++ {
				r := s.Exec(script[i])
				if s.Wedged || strings.Contains(r, "crash") {
					return s, e, false
				}
			}
			return s, e, true
		}
		knownProbed := 0
		for t := 1; t < len(script); t++ {
			switch script[t].Method {
			case "mkdir", "mkdirall", "remove", "removeall", "rename", "chmod", "chown", "chtimes", "hclose", "create", "openfile":
			default:
				continue
			}
			s, e, ok := runPrefix("count", t)
			if !ok {
				if e != nil {
					e.Shutdown()
				}
				break // the fault-free history itself wedges here (known findings): nothing to inject
			}
			faults.Reset("", 0)
			base := s.Exec(script[t])
			counts := map[string]int{}
			for k, v := range faults.Counts {
				counts[k] = v
			}
			e.Shutdown()
			os.RemoveAll(e.Dir)
			if s.Wedged {
				break
			}
			res.Calls++
			for _, kind := range []string{"persister", "write", "read"} {
				for k := 1; k <= counts[kind]; k++ {
					if k > 14 && k%3 != 0 {
						continue
					}
					s, e, ok := runPrefix(fmt.Sprintf("%s%d", kind, k), t)
					if !ok {
						if e != nil {
							e.Shutdown()
						}
						continue
					}
					fmt.Printf("P %d %d\n", j, t)
					os.WriteFile(filepath.Join(o.scratch, fmt.Sprintf("pending-%d.in", j)), []byte(fmt.Sprintf("fault %s #%d during %s\n", kind, k, script[t].Line())), 0o644)
					faults.Reset(kind, k)
					r := s.Exec(script[t])
					fired, at, wopen := faults.Fired, faults.FiredAt, faults.WriterOpen
					faults.Reset("", 0)
					res.OracleChecks["C10"]++
					res.Methods[script[t].Method]++
					res.Results[kind+":"+strings.TrimPrefix(r, "res\t")]++
					what := ""
					if fired && wopen && !s.Wedged && knownProbed >= 2 {
						// the known early-return leak (finding F21): confirmed twice in this history
						// already; the remaining writer-open fault points are not probed (each hang
						// costs a full watchdog period)
						res.Results["(writer-open fault, probe skipped)"]++
						e.Shutdown()
						os.RemoveAll(e.Dir)
						continue
					}
					if fired && wopen {
						knownProbed++
					}
					if s.Wedged {
						what = fmt.Sprintf("%s did not return after a fault (%s call #%d = %s failed)", script[t].Method, kind, k, at)
					} else if strings.Contains(r, "crash") {
						what = fmt.Sprintf("%s crashed the goroutine after a fault (%s call #%d = %s failed)", script[t].Method, kind, k, at)
					} else {
						for _, probe := range []h.Call{{Method: "stat", Args: []string{h.EncName("/")}},
							{Method: "mkdir", Args: []string{h.EncName(fmt.Sprintf("/zz-probe-%d", k)), "493"}},
							{Method: "stat", Args: []string{h.EncName(fmt.Sprintf("/zz-probe-%d", k))}}} {
							s.Exec(probe)
							if s.Wedged {
								what = fmt.Sprintf("after %s failed with an injected fault (%s call #%d = %s), the next call %s never returns (drive still held)", script[t].Method, kind, k, at, probe.Method)
								break
							}
						}
					}
					if what != "" && fired {
						calls := []string{}
						for i := 0; i <= t; i++ {
							calls = append(calls, script[i].Line())
						}
						f := OracleFail{Property: "C10", Hist: fmt.Sprintf("%d-%d", o.seed, j), Step: t, What: what, Calls: calls,
							Triggers: []string{"fault:" + kind, fmt.Sprintf("writerOpen=%v", wopen)}}
						if wopen {
							// the known early-return leak: the fault fired between GetWriter and CloseWriter
							f.Known = "F21"
							res.KnownHits["F21"]++
						}
						res.OracleFails = append(res.OracleFails, f)
					}
					_ = base
					e.Shutdown()
					os.RemoveAll(e.Dir)
				}
			}
		}
		res.Histories++
		if len(res.Samples) < 3 {
			sm := []string{}
			for _, c := range script {
				sm = append(sm, strings.ReplaceAll(c.Line(), "\t", " "))
			}
			res.Samples = append(res.Samples, sm)
		}
	}
	res.Nontrivial = res.OracleChecks["C10"]
	return res
}

func scenarioSharedManager(o fsOpts, j int, res *result) {
	dir := filepath.Join(o.scratch, fmt.Sprintf("scn%d", j))
	os.RemoveAll(dir)
	os.MkdirAll(dir, 0o755)
	defer os.RemoveAll(dir)
	c := h.DefaultCfg()
	c.ReadOnly = true
	ro, err := h.NewEnv(dir, c)
	if err != nil {
		return
	}
	defer ro.Shutdown()
	rw, err := h.NewEnvSharing(ro, false)
	if err != nil {
		return
	}
	defer rw.Close()
	sro, srw := h.NewSession(ro), h.NewSession(rw)
	sro.Timeout, srw.Timeout = o.watchdog, o.watchdog
	fmt.Printf("P %d %d\n", j, 0)
	steps := []struct {
		s *h.Session
		c h.Call
		n string
	}{
		{sro, h.Call{Method: "initialize", Args: []string{h.EncName("/"), "511"}}, "read-only Initialize over a missing drive"},
		{sro, h.Call{Method: "initialize", Args: []string{h.EncName("/"), "511"}}, "second read-only Initialize"},
		{srw, h.Call{Method: "initialize", Args: []string{h.EncName("/"), "511"}}, "writable Initialize sharing the drive manager"},
		{srw, h.Call{Method: "mkdir", Args: []string{h.EncName("/a"), "493"}}, "Mkdir afterwards"},
	}
	for _, st := range steps {
		st.s.Exec(st.c)
		res.OracleChecks["C10"]++
		if st.s.Wedged {
			res.OracleFails = append(res.OracleFails, OracleFail{Property: "C10", Hist: fmt.Sprintf("%d-%d", o.seed, j), Step: 0,
				What: st.n + " never returned (the drive was left locked by a rejected call)", Calls: []string{"scenario: read-only + writable instance over one TapeManager, drive file absent"}})
			return
		}
	}
}
