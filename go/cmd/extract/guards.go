package main

import (
	"fmt"
	"go/ast"
	"go/token"
	"path/filepath"
	"strings"
)

// genGuards extracts, for every method of *STFS (pkg/fs/filesystem.go) and *File
// (pkg/fs/file.go), the ordered list of its top-level statements classified as
//
//	log | roGuard | writeFlagGuard | readFlagGuard | dirGuard | checkName | clean | lock |
//	effect:<callee> | other
//
// so that the position of the read-only / write-flag guard relative to the first lock or
// effect can be decided in Lean on what the source says now.
func genGuards(repo string) string {
	var b strings.Builder
	b.WriteString("namespace Stfs.Gen\n\n")
	b.WriteString(`inductive StmtKind
  | log | roGuard | writeFlagGuard | readFlagGuard | dirGuard | lenGuard | checkName | clean | lock | deferUnlock
  | effectOps      -- calls f.writeOps.*
  | effectBuf      -- f.enterWriteMode / f.writeBuf.Write / f.writeBuf.Truncate / f.getFileBuffer
  | effectHelper   -- mknodeWithoutLocking / updateMetadata / removeWithoutLocking / syncWithoutLocking / closeWithoutLocking
  | delegate       -- calls another exported method of the same receiver
  | ret | other
deriving DecidableEq, Repr

structure MethodShape where
  isFile : Bool
  name : List Nat
  kinds : List StmtKind
deriving DecidableEq, Repr

`)
	b.WriteString("/-- classified top-level statements of every method of *STFS and *File -/\ndef methodShapes : List MethodShape := [\n")
	first := true
	effects := map[string]bool{"mknodeWithoutLocking": true, "updateMetadata": true, "removeWithoutLocking": true, "enterWriteMode": true,
		"syncWithoutLocking": true, "closeWithoutLocking": true}
	for _, file := range []string{"filesystem.go", "file.go"} {
		f := parse(filepath.Join(repo, "pkg/fs", file))
		for _, d := range f.Decls {
			fd, ok := d.(*ast.FuncDecl)
			if !ok || fd.Recv == nil || len(fd.Recv.List) != 1 || fd.Body == nil {
				continue
			}
			recv := ""
			if st, ok := fd.Recv.List[0].Type.(*ast.StarExpr); ok {
				recv = fmt.Sprint(st.X)
			}
			if recv != "STFS" && recv != "File" {
				continue
			}
			var kinds []string
			for _, st := range fd.Body.List {
				kinds = append(kinds, classify(st, effects))
			}
			if !first {
				b.WriteString(",\n")
			}
			first = false
			qs := []string{}
			for _, k := range kinds {
				qs = append(qs, "."+leanKind(k))
			}
			fmt.Fprintf(&b, "  { isFile := %v, name := %s /- %s.%s -/, kinds := [%s] }", recv == "File", leanStr(fd.Name.Name), recv, fd.Name.Name, strings.Join(qs, ", "))
		}
	}
	b.WriteString("\n]\n\nend Stfs.Gen\n")
	return b.String()
}

func leanKind(k string) string {
	switch {
	case k == "return":
		return "ret"
	case strings.HasPrefix(k, "effect:delegate:"):
		return "delegate"
	case strings.HasPrefix(k, "effect:f.writeOps."):
		return "effectOps"
	case strings.HasPrefix(k, "effect:f.enterWriteMode"), strings.HasPrefix(k, "effect:f.writeBuf."), strings.HasPrefix(k, "effect:f.getFileBuffer"):
		return "effectBuf"
	case strings.HasPrefix(k, "effect:"):
		return "effectHelper"
	}
	return k
}

func returnsErr(body *ast.BlockStmt, name string) bool {
	if len(body.List) != 1 {
		return false
	}
	r, ok := body.List[0].(*ast.ReturnStmt)
	if !ok {
		return false
	}
	for _, e := range r.Results {
		if sel, ok := e.(*ast.SelectorExpr); ok && sel.Sel.Name == name {
			return true
		}
	}
	return false
}

func classify(st ast.Stmt, effects map[string]bool) string {
	switch x := st.(type) {
	case *ast.ExprStmt:
		if call, ok := x.X.(*ast.CallExpr); ok {
			s := callName(call)
			switch {
			case strings.HasPrefix(s, "f.log."):
				return "log"
			case s == "f.ioLock.Lock":
				return "lock"
			}
			return "other"
		}
	case *ast.DeferStmt:
		if callName(x.Call) == "f.ioLock.Unlock" {
			return "deferUnlock"
		}
		return "other"
	case *ast.IfStmt:
		if x.Init == nil && x.Else == nil {
			cond := exprText(x.Cond)
			switch {
			case cond == "f.readOnly" && returnsErr(x.Body, "ErrPermission"):
				return "roGuard"
			case cond == "!f.flags.Write" && returnsErr(x.Body, "ErrPermission"):
				return "writeFlagGuard"
			case cond == "!f.flags.Read" && returnsErr(x.Body, "ErrPermission"):
				return "readFlagGuard"
			case strings.HasPrefix(cond, "checkName(") && returnsErr(x.Body, "ErrInvalid"):
				return "checkName"
			case cond == "f.info.IsDir()" || cond == "!f.info.IsDir()":
				return "dirGuard"
			case strings.HasPrefix(cond, "len(p)"):
				return "lenGuard"
			}
		}
		if eff := firstEffect(x, effects); eff != "" {
			return "effect:" + eff
		}
		return "other"
	case *ast.AssignStmt:
		if len(x.Rhs) == 1 {
			if call, ok := x.Rhs[0].(*ast.CallExpr); ok {
				s := callName(call)
				if s == "cleanName" {
					return "clean"
				}
			}
		}
		if eff := firstEffect(x, effects); eff != "" {
			return "effect:" + eff
		}
		return "other"
	case *ast.ReturnStmt:
		if eff := firstEffect(x, effects); eff != "" {
			return "effect:" + eff
		}
		return "return"
	}
	if eff := firstEffect(st, effects); eff != "" {
		return "effect:" + eff
	}
	return "other"
}

func callName(c *ast.CallExpr) string {
	return exprText(c.Fun)
}

func exprText(e ast.Expr) string {
	switch x := e.(type) {
	case *ast.Ident:
		return x.Name
	case *ast.SelectorExpr:
		return exprText(x.X) + "." + x.Sel.Name
	case *ast.CallExpr:
		args := []string{}
		for _, a := range x.Args {
			args = append(args, exprText(a))
		}
		return exprText(x.Fun) + "(" + strings.Join(args, ", ") + ")"
	case *ast.UnaryExpr:
		if x.Op == token.NOT {
			return "!" + exprText(x.X)
		}
	case *ast.ParenExpr:
		return "(" + exprText(x.X) + ")"
	case *ast.BinaryExpr:
		return exprText(x.X) + " " + x.Op.String() + " " + exprText(x.Y)
	case *ast.BasicLit:
		return x.Value
	}
	return fmt.Sprintf("<%T>", e)
}

// firstEffect finds a call to one of the effectful helpers or to f.writeOps.* / f.writeBuf.*
// / f.getFileBuffer inside a statement.
func firstEffect(n ast.Node, effects map[string]bool) string {
	found := ""
	ast.Inspect(n, func(c ast.Node) bool {
		if found != "" {
			return false
		}
		call, ok := c.(*ast.CallExpr)
		if !ok {
			return true
		}
		s := callName(call)
		switch {
		case strings.HasPrefix(s, "f.writeOps."), strings.HasPrefix(s, "f.writeBuf.Write"), strings.HasPrefix(s, "f.writeBuf.Truncate"), s == "f.getFileBuffer":
			found = s
		case strings.HasPrefix(s, "f.") && effects[strings.TrimPrefix(s, "f.")]:
			found = s
		case s == "f.OpenFile" || s == "f.Seek" || s == "f.Read" || s == "f.Readdir":
			found = "delegate:" + s
		}
		return true
	})
	return found
}
