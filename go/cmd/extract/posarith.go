package main

import (
	"fmt"
	"go/ast"
	"go/token"
	"path/filepath"
	"strings"
)

// expr translates an integer-valued Go expression to a Lean Int term.
// Conversions (int, int64, int32, float64) are identities on the model's Int; Go's `/` on
// integers truncates toward zero (Int.tdiv); math.Ceil(float64(a)/float64(b)) is ceilDiv a b
// (exact for |a| < 2^53; see the trusted base).
func expr(e ast.Expr) string {
	switch x := e.(type) {
	case *ast.ParenExpr:
		return "(" + expr(x.X) + ")"
	case *ast.BasicLit:
		return x.Value
	case *ast.Ident:
		return x.Name
	case *ast.SelectorExpr:
		s := fmt.Sprintf("%s.%s", expr(x.X), x.Sel.Name)
		switch s {
		case "config.MagneticTapeBlockSize":
			return "blockSize"
		case "pipes.RecordSize":
			return "rs"
		}
		die("posarith: unknown selector %s at %v", s, fset.Position(e.Pos()))
	case *ast.CallExpr:
		if id, ok := x.Fun.(*ast.Ident); ok && (id.Name == "int64" || id.Name == "int" || id.Name == "float64" || id.Name == "int32") {
			return expr(x.Args[0])
		}
		if sel, ok := x.Fun.(*ast.SelectorExpr); ok && fmt.Sprint(sel.X) == "math" && sel.Sel.Name == "Ceil" {
			q, ok := x.Args[0].(*ast.BinaryExpr)
			if !ok || q.Op != token.QUO {
				die("posarith: math.Ceil of a non-quotient at %v", fset.Position(e.Pos()))
			}
			return fmt.Sprintf("(ceilDiv %s %s)", expr(q.X), expr(q.Y))
		}
		die("posarith: unknown call at %v", fset.Position(e.Pos()))
	case *ast.BinaryExpr:
		op := map[token.Token]string{token.ADD: "+", token.SUB: "-", token.MUL: "*", token.LSS: "<", token.GTR: ">", token.GEQ: "≥", token.LEQ: "≤", token.EQL: "=", token.NEQ: "≠"}[x.Op]
		if x.Op == token.QUO {
			return fmt.Sprintf("(Int.tdiv %s %s)", expr(x.X), expr(x.Y))
		}
		if x.Op == token.REM {
			return fmt.Sprintf("(Int.tmod %s %s)", expr(x.X), expr(x.Y))
		}
		if op == "" {
			die("posarith: unknown operator %s at %v", x.Op, fset.Position(e.Pos()))
		}
		return fmt.Sprintf("(%s %s %s)", expr(x.X), op, expr(x.Y))
	}
	die("posarith: unknown expression %T at %v", e, fset.Position(e.Pos()))
	return ""
}

// stmts translates a straight-line/if block that assigns `record` and `block` into a Lean
// term returning (record, block).
func stmts(list []ast.Stmt, k string) string {
	if len(list) == 0 {
		return k
	}
	rest := stmts(list[1:], k)
	switch s := list[0].(type) {
	case *ast.AssignStmt:
		return fmt.Sprintf("let %s := %s\n  %s", expr(s.Lhs[0]), expr(s.Rhs[0]), rest)
	case *ast.IncDecStmt:
		op := "+"
		if s.Tok == token.DEC {
			op = "-"
		}
		return fmt.Sprintf("let %s := %s %s 1\n  %s", expr(s.X), expr(s.X), op, rest)
	case *ast.IfStmt:
		thenB := stmts(s.Body.List, "(record, block)")
		elseB := "(record, block)"
		if s.Else != nil {
			switch e := s.Else.(type) {
			case *ast.BlockStmt:
				elseB = stmts(e.List, "(record, block)")
			case *ast.IfStmt:
				elseB = stmts([]ast.Stmt{e}, "(record, block)")
			}
		}
		return fmt.Sprintf("let (record, block) := (if %s then\n  %s\n  else\n  %s)\n  %s", expr(s.Cond), thenB, elseB, rest)
	}
	die("posarith: unknown statement %T at %v", list[0], fset.Position(list[0].Pos()))
	return ""
}

func onlyPos(s ast.Stmt) bool {
	ok := true
	ast.Inspect(s, func(n ast.Node) bool {
		switch x := n.(type) {
		case *ast.AssignStmt:
			if id, isID := x.Lhs[0].(*ast.Ident); !isID || (id.Name != "record" && id.Name != "block") {
				ok = false
			}
		case *ast.IncDecStmt:
			if id, isID := x.X.(*ast.Ident); !isID || (id.Name != "record" && id.Name != "block") {
				ok = false
			}
		case *ast.CallExpr:
			if id, isID := x.Fun.(*ast.Ident); !isID || (id.Name != "int64" && id.Name != "int") {
				ok = false
			}
		case *ast.ReturnStmt, *ast.ForStmt, *ast.BranchStmt:
			ok = false
		}
		return ok
	})
	return ok
}

func genPosArith(repo string) string {
	var b strings.Builder
	b.WriteString("namespace Stfs.Gen\n")
	cfg := stringConsts(filepath.Join(repo, "pkg/config/constants.go"))
	if _, ok := cfg["MagneticTapeBlockSize"]; !ok {
		die("posarith: MagneticTapeBlockSize missing")
	}
	fmt.Fprintf(&b, "def blockSize : Int := %s -- config.MagneticTapeBlockSize\n", cfg["MagneticTapeBlockSize"])
	b.WriteString("def ceilDiv (a b : Int) : Int := Int.tdiv (a + b - 1) b\n")
	want := map[string][2]int{"index": {3, 2}, "query": {3, 2}, "fetch": {0, 1}}
	for _, base := range []string{"index", "query", "fetch"} {
		path := filepath.Join(repo, "pkg/recovery", base+".go")
		f := parse(path)
		np, ns := 0, 0
		ast.Inspect(f, func(node ast.Node) bool {
			blk, ok := node.(*ast.BlockStmt)
			if !ok {
				return true
			}
			for i, st := range blk.List {
				as, ok := st.(*ast.AssignStmt)
				if !ok || as.Tok != token.DEFINE {
					continue
				}
				if id, ok := as.Lhs[0].(*ast.Ident); !ok || id.Name != "nextTotalBlocks" {
					continue
				}
				j := i + 1
				for j < len(blk.List) && onlyPos(blk.List[j]) {
					j++
				}
				body := stmts(blk.List[i:j], "(record, block)")
				fmt.Fprintf(&b, "\n/-- pkg/recovery/%s.go:%d–%d -/\ndef %sPos%d (rs curr currAndSize : Int) : Int × Int :=\n  %s\n",
					base, fset.Position(st.Pos()).Line, fset.Position(blk.List[j-1].End()).Line, base, np, body)
				np++
			}
			return true
		})
		ast.Inspect(f, func(node ast.Node) bool {
			c, ok := node.(*ast.CallExpr)
			if !ok {
				return true
			}
			sel, ok := c.Fun.(*ast.SelectorExpr)
			if !ok || sel.Sel.Name != "Seek" || len(c.Args) != 2 {
				return true
			}
			var sb strings.Builder
			ast.Fprint(&sb, fset, c.Args[0], nil)
			if !strings.Contains(sb.String(), "RecordSize") {
				return true
			}
			fmt.Fprintf(&b, "\n/-- seek at pkg/recovery/%s.go:%d -/\ndef %sSeek%d (rs record block : Int) : Int :=\n  %s\n",
				base, fset.Position(c.Pos()).Line, base, ns, expr(c.Args[0]))
			ns++
			return true
		})
		if w := want[base]; np != w[0] || ns != w[1] {
			die("posarith: %s.go: expected %d position blocks and %d seek expressions, found %d and %d (code restructured?)", base, w[0], w[1], np, ns)
		}
	}
	b.WriteString("\nend Stfs.Gen\n")
	return b.String()
}
