package main

import (
	"fmt"
	"go/ast"
	"go/token"
	"path/filepath"
	"strings"
)

// genOpenFlags extracts, from pkg/tape/write.go, every os.OpenFile site of OpenTapeWriteOnly
// with the flags it passes and the if-conditions that enclose it, every Truncate call with its
// enclosing conditions, and from pkg/tape/manager.go how GetWriter latches `overwrite`.
func genOpenFlags(repo string) string {
	var b strings.Builder
	b.WriteString("namespace Stfs.Gen\n\n")
	b.WriteString("structure OpenSite where\n  line : Nat\n  conds : List (List Nat)\n  flags : List (List Nat)\nderiving DecidableEq, Repr\n\n")
	f := parse(filepath.Join(repo, "pkg/tape/write.go"))
	var fn *ast.FuncDecl
	for _, d := range f.Decls {
		if fd, ok := d.(*ast.FuncDecl); ok && fd.Name.Name == "OpenTapeWriteOnly" {
			fn = fd
		}
	}
	if fn == nil {
		die("openflags: OpenTapeWriteOnly not found")
	}
	type site struct {
		line  int
		conds []string
		flags []string
	}
	var opens, truncs []site
	var walk func(n ast.Node, conds []string)
	exprStr := func(e ast.Expr) string {
		var sb strings.Builder
		switch x := e.(type) {
		case *ast.Ident:
			return x.Name
		case *ast.UnaryExpr:
			if x.Op == token.NOT {
				if id, ok := x.X.(*ast.Ident); ok {
					return "!" + id.Name
				}
			}
		}
		fmt.Fprintf(&sb, "expr@%d", fset.Position(e.Pos()).Line)
		return sb.String()
	}
	var flagList func(e ast.Expr) []string
	flagList = func(e ast.Expr) []string {
		switch x := e.(type) {
		case *ast.BinaryExpr:
			if x.Op == token.OR {
				return append(flagList(x.X), flagList(x.Y)...)
			}
		case *ast.SelectorExpr:
			return []string{x.Sel.Name}
		case *ast.ParenExpr:
			return flagList(x.X)
		}
		die("openflags: unexpected flag expression at %v", fset.Position(e.Pos()))
		return nil
	}
	walk = func(n ast.Node, conds []string) {
		switch x := n.(type) {
		case *ast.IfStmt:
			if x.Init != nil {
				walk(x.Init, conds)
			}
			c := exprStr(x.Cond)
			walk(x.Body, append(append([]string{}, conds...), c))
			if x.Else != nil {
				neg := "!" + c
				if strings.HasPrefix(c, "!") {
					neg = c[1:]
				}
				walk(x.Else, append(append([]string{}, conds...), neg))
			}
			return
		case *ast.CallExpr:
			if sel, ok := x.Fun.(*ast.SelectorExpr); ok {
				if fmt.Sprint(sel.X) == "os" && sel.Sel.Name == "OpenFile" && len(x.Args) == 3 {
					opens = append(opens, site{fset.Position(x.Pos()).Line, conds, flagList(x.Args[1])})
				}
				if sel.Sel.Name == "Truncate" {
					truncs = append(truncs, site{fset.Position(x.Pos()).Line, conds, nil})
				}
			}
		}
		// generic descent
		ast.Inspect(n, func(c ast.Node) bool {
			if c == n || c == nil {
				return true
			}
			walk(c, conds)
			return false
		})
	}
	walk(fn.Body, nil)
	if len(opens) == 0 {
		die("openflags: no os.OpenFile site found in OpenTapeWriteOnly")
	}
	lst := func(xs []string) string {
		out := []string{}
		for _, x := range xs {
			out = append(out, leanStr(x))
		}
		return "[" + strings.Join(out, ", ") + "]"
	}
	b.WriteString("/-- every `os.OpenFile` in `OpenTapeWriteOnly` (pkg/tape/write.go) -/\ndef writeOpenSites : List OpenSite := [\n")
	for i, s := range opens {
		sep := ","
		if i == len(opens)-1 {
			sep = ""
		}
		fmt.Fprintf(&b, "  { line := %d, conds := %s, flags := %s }%s -- if %v: %v\n", s.line, lst(s.conds), lst(s.flags), sep, s.conds, s.flags)
	}
	b.WriteString("]\n\n/-- every `Truncate` call in `OpenTapeWriteOnly` -/\ndef truncateSites : List OpenSite := [\n")
	for i, s := range truncs {
		sep := ","
		if i == len(truncs)-1 {
			sep = ""
		}
		fmt.Fprintf(&b, "  { line := %d, conds := %s, flags := [] }%s -- if %v\n", s.line, lst(s.conds), sep, s.conds)
	}
	b.WriteString("]\n\n")

	// manager.go: GetWriter latches overwrite
	mf := parse(filepath.Join(repo, "pkg/tape/manager.go"))
	latched := false
	passesLocal := false
	ctorOverwrite := ""
	for _, d := range mf.Decls {
		fd, ok := d.(*ast.FuncDecl)
		if !ok {
			continue
		}
		if fd.Name.Name == "GetWriter" {
			// pattern: overwrite := m.overwrite ; if m.overwrote { overwrite = false } ; m.overwrote = true
			stage := 0
			for _, st := range fd.Body.List {
				switch x := st.(type) {
				case *ast.AssignStmt:
					l, r := fmt.Sprint(x.Lhs[0]), ""
					if len(x.Rhs) == 1 {
						var sb strings.Builder
						ast.Fprint(&sb, fset, x.Rhs[0], nil)
						if sel, ok := x.Rhs[0].(*ast.SelectorExpr); ok {
							r = fmt.Sprint(sel.X) + "." + sel.Sel.Name
						} else if id, ok := x.Rhs[0].(*ast.Ident); ok {
							r = id.Name
						}
					}
					if stage == 0 && l == "overwrite" && r == "m.overwrite" {
						stage = 1
					}
					if stage == 2 {
						if sel, ok := x.Lhs[0].(*ast.SelectorExpr); ok && sel.Sel.Name == "overwrote" && r == "true" {
							stage = 3
						}
					}
					// the call OpenTapeWriteOnly(m.drive, m.mt, m.recordSize, overwrite)
					if len(x.Rhs) == 1 {
						if call, ok := x.Rhs[0].(*ast.CallExpr); ok && fmt.Sprint(call.Fun) == "OpenTapeWriteOnly" && len(call.Args) == 4 {
							passesLocal = fmt.Sprint(call.Args[3]) == "overwrite"
						}
					}
				case *ast.IfStmt:
					if stage == 1 {
						if sel, ok := x.Cond.(*ast.SelectorExpr); ok && sel.Sel.Name == "overwrote" && len(x.Body.List) == 1 {
							if as, ok := x.Body.List[0].(*ast.AssignStmt); ok && fmt.Sprint(as.Lhs[0]) == "overwrite" && fmt.Sprint(as.Rhs[0]) == "false" {
								stage = 2
							}
						}
					}
				}
			}
			latched = stage == 3
		}
		if fd.Name.Name == "NewTapeManager" {
			ctorOverwrite = "param"
		}
	}
	_ = ctorOverwrite
	fmt.Fprintf(&b, "/-- `TapeManager.GetWriter` uses `m.overwrite` only until the first writer was handed out -/\ndef overwriteLatched : Bool := %v\n", latched)
	fmt.Fprintf(&b, "/-- ... and passes that latched local to `OpenTapeWriteOnly` -/\ndef overwritePassedLatched : Bool := %v\n", passesLocal)
	b.WriteString("\nend Stfs.Gen\n")
	return b.String()
}
