package main

import (
	"fmt"
	"go/ast"
	"go/token"
	"path/filepath"
	"strings"
)

// genLocks extracts, for every function that takes the drive (GetWriter/GetReader) or one of
// the mutexes, its *lock skeleton*: the events that matter for "every call returns and leaves
// the drive free", in source order:
//
//	lock l / unlock l / deferUnlock l        sync.Mutex operations (l = field name)
//	acquire / release / deferRelease        GetWriter|GetReader / CloseWriter|CloseReader (the drive)
//	exit (callee, ordinal)                  a `return` that is not the function's last statement,
//	                                        named after the call whose failure it handles
//	ret                                     the function's final return
//	loopStart / loopEnd                     for-loops (bodies must be lock-neutral; checked in Lean)
//	spawn / panic                           `go func(){…}()` and `panic(…)`
//
// Function literals assigned to a variable (`mkdirRoot := func() …`) are emitted as their own
// skeleton `<Func>$<var>`, and calls to them as `callLocal`.
type lev struct {
	kind string
	name string // lock name or callee
	ord  int
	line int
}

func genLocks(repo string) string {
	var b strings.Builder
	b.WriteString("namespace Stfs.Gen\n\n")
	b.WriteString(`inductive LEv
  | lock (l : List Nat) | unlock (l : List Nat) | deferUnlock (l : List Nat)
  | acquire | release | deferRelease
  | exit (callee : List Nat) (ord : Nat)
  | ret
  | loopStart | loopEnd
  | callLocal (f : List Nat)
  | spawn | panic
deriving DecidableEq, Repr

`)
	files := []string{"pkg/operations/archive.go", "pkg/operations/update.go", "pkg/operations/delete.go", "pkg/operations/move.go",
		"pkg/operations/restore.go", "pkg/tape/manager.go", "pkg/fs/filesystem.go", "pkg/fs/file.go"}
	type skel struct {
		name string
		evs  []lev
	}
	var skels []skel
	for _, rel := range files {
		f := parse(filepath.Join(repo, rel))
		for _, d := range f.Decls {
			fd, ok := d.(*ast.FuncDecl)
			if !ok || fd.Body == nil {
				continue
			}
			recv := ""
			if fd.Recv != nil && len(fd.Recv.List) == 1 {
				if st, ok := fd.Recv.List[0].Type.(*ast.StarExpr); ok {
					recv = fmt.Sprint(st.X) + "."
				}
			}
			name := recv + fd.Name.Name
			ex := &lockExtractor{fn: name}
			ex.block(fd.Body.List, true)
			if ex.interesting {
				skels = append(skels, skel{name, ex.evs})
			}
			for _, l := range ex.locals {
				skels = append(skels, skel{l.name, l.evs})
			}
		}
	}
	if len(skels) < 8 {
		die("locks: only %d lock skeletons found (code restructured?)", len(skels))
	}
	b.WriteString("def lockSkeletons : List (List Nat × List LEv) := [\n")
	for i, s := range skels {
		fmt.Fprintf(&b, "  (%s /- %s -/, [\n", leanStr(s.name), s.name)
		for j, e := range s.evs {
			sep := ","
			if j == len(s.evs)-1 {
				sep = ""
			}
			switch e.kind {
			case "lock", "unlock", "deferUnlock":
				fmt.Fprintf(&b, "    .%s %s%s -- %s (line %d)\n", e.kind, leanStr(e.name), sep, e.name, e.line)
			case "exit":
				fmt.Fprintf(&b, "    .exit %s %d%s -- return after %s #%d (line %d)\n", leanStr(e.name), e.ord, sep, e.name, e.ord, e.line)
			case "callLocal":
				fmt.Fprintf(&b, "    .callLocal %s%s -- %s() (line %d)\n", leanStr(e.name), sep, e.name, e.line)
			default:
				fmt.Fprintf(&b, "    .%s%s -- line %d\n", e.kind, sep, e.line)
			}
		}
		sep := ","
		if i == len(skels)-1 {
			sep = ""
		}
		fmt.Fprintf(&b, "  ])%s\n", sep)
	}
	b.WriteString("]\n\n")
	// the index store: the argument of db.SetMaxOpenConns in every build variant of the SQLite
	// persister (0 = the call is absent)
	b.WriteString("/-- internal/persisters: (file, n) for `db.SetMaxOpenConns(n)`; 0 when the call is absent -/\ndef sqliteMaxOpenConns : List (List Nat × Nat) := [")
	pfiles, _ := filepath.Glob(filepath.Join(repo, "internal/persisters/*.go"))
	firstP := true
	for _, pf := range pfiles {
		if strings.HasSuffix(pf, "_test.go") {
			continue
		}
		f := parse(pf)
		n := 0
		opens := false
		ast.Inspect(f, func(c ast.Node) bool {
			if call, ok := c.(*ast.CallExpr); ok {
				switch exprText(call.Fun) {
				case "db.SetMaxOpenConns":
					if len(call.Args) == 1 {
						fmt.Sscan(exprText(call.Args[0]), &n)
					}
				case "sql.Open":
					opens = true
				}
			}
			return true
		})
		if !opens {
			continue
		}
		if !firstP {
			b.WriteString(", ")
		}
		firstP = false
		rel, _ := filepath.Rel(repo, pf)
		fmt.Fprintf(&b, "(%s /- %s -/, %d)", leanStr(rel), rel, n)
	}
	b.WriteString("]\n\nend Stfs.Gen\n")
	return b.String()
}

type lockExtractor struct {
	fn          string
	evs         []lev
	interesting bool
	lastCallee  string
	ords        map[string]int
	locals      []struct {
		name string
		evs  []lev
	}
	localNames map[string]bool
}

func (x *lockExtractor) emit(kind, name string, pos token.Pos) {
	e := lev{kind: kind, name: name, line: fset.Position(pos).Line}
	if kind == "exit" {
		if x.ords == nil {
			x.ords = map[string]int{}
		}
		e.ord = x.ords[name]
		x.ords[name]++
	}
	x.evs = append(x.evs, e)
	switch kind {
	case "lock", "unlock", "deferUnlock", "acquire", "release", "deferRelease", "spawn", "panic":
		x.interesting = true
	}
}

func lockName(e ast.Expr) (string, string) {
	// returns (lock field name, method) for X.<field>.Lock()/Unlock()
	call, ok := e.(*ast.CallExpr)
	if !ok {
		return "", ""
	}
	sel, ok := call.Fun.(*ast.SelectorExpr)
	if !ok || (sel.Sel.Name != "Lock" && sel.Sel.Name != "Unlock") {
		return "", ""
	}
	inner, ok := sel.X.(*ast.SelectorExpr)
	if !ok {
		return "", ""
	}
	return inner.Sel.Name, sel.Sel.Name
}

// driveCall classifies calls that take or release the drive.
func driveCall(call *ast.CallExpr) string {
	s := exprText(call.Fun)
	switch {
	case strings.HasSuffix(s, "GetWriter"), strings.HasSuffix(s, "GetReader"), strings.HasSuffix(s, "openOrReuseReader"):
		return "acquire"
	case strings.HasSuffix(s, "CloseWriter"), strings.HasSuffix(s, "CloseReader"):
		return "release"
	}
	return ""
}

// calls lists the call expressions in an expression/statement, outermost last.
func callsIn(n ast.Node) []*ast.CallExpr {
	var out []*ast.CallExpr
	ast.Inspect(n, func(c ast.Node) bool {
		if _, ok := c.(*ast.FuncLit); ok {
			return false
		}
		if call, ok := c.(*ast.CallExpr); ok {
			out = append(out, call)
		}
		return true
	})
	return out
}

func shortCallee(call *ast.CallExpr) string {
	s := exprText(call.Fun)
	parts := strings.Split(s, ".")
	if len(parts) > 2 {
		parts = parts[len(parts)-2:]
	}
	return strings.Join(parts, ".")
}

func (x *lockExtractor) noteCalls(n ast.Node) {
	first := true
	for _, call := range callsIn(n) {
		if k := driveCall(call); k != "" {
			x.emit(k, "", call.Pos())
		}
		if id, ok := call.Fun.(*ast.Ident); ok && x.localNames[id.Name] {
			x.emit("callLocal", x.fn+"$"+id.Name, call.Pos())
		}
		if id, ok := call.Fun.(*ast.Ident); ok && id.Name == "panic" {
			x.emit("panic", "", call.Pos())
			continue
		}
		s := shortCallee(call)
		// the outermost call of the statement names the site (arguments such as
		// context.Background() do not)
		if first && s != "" && !strings.HasPrefix(s, "f.log") && !strings.HasPrefix(s, "log.") {
			x.lastCallee = s
			first = false
		}
	}
}

func (x *lockExtractor) block(list []ast.Stmt, top bool) {
	for i, st := range list {
		last := top && i == len(list)-1
		x.stmt(st, last)
	}
}

func (x *lockExtractor) stmt(st ast.Stmt, last bool) {
	switch s := st.(type) {
	case *ast.ExprStmt:
		if l, m := lockName(s.X); l != "" {
			if m == "Lock" {
				x.emit("lock", l, s.Pos())
			} else {
				x.emit("unlock", l, s.Pos())
			}
			return
		}
		x.noteCalls(s)
	case *ast.DeferStmt:
		if l, m := lockName(s.Call); l != "" && m == "Unlock" {
			x.emit("deferUnlock", l, s.Pos())
			return
		}
		if driveCall(s.Call) == "release" {
			x.emit("deferRelease", "", s.Pos())
			return
		}
	case *ast.GoStmt:
		x.emit("spawn", "", s.Pos())
		if fl, ok := s.Call.Fun.(*ast.FuncLit); ok {
			sub := &lockExtractor{fn: x.fn + "$go", localNames: x.localNames}
			sub.block(fl.Body.List, true)
			x.locals = append(x.locals, struct {
				name string
				evs  []lev
			}{fmt.Sprintf("%s$go%d", x.fn, len(x.locals)), sub.evs})
		}
	case *ast.AssignStmt:
		// a function literal bound to a name: its own skeleton
		if len(s.Rhs) == 1 {
			if fl, ok := s.Rhs[0].(*ast.FuncLit); ok {
				if id, ok := s.Lhs[0].(*ast.Ident); ok {
					if x.localNames == nil {
						x.localNames = map[string]bool{}
					}
					x.localNames[id.Name] = true
					sub := &lockExtractor{fn: x.fn, localNames: x.localNames}
					sub.block(fl.Body.List, true)
					x.locals = append(x.locals, struct {
						name string
						evs  []lev
					}{x.fn + "$" + id.Name, sub.evs})
					return
				}
			}
		}
		x.noteCalls(s)
	case *ast.ReturnStmt:
		x.noteCalls(s)
		if last {
			x.emit("ret", "", s.Pos())
		} else {
			x.emit("exit", x.lastCallee, s.Pos())
		}
	case *ast.IfStmt:
		if s.Init != nil {
			x.stmt(s.Init, false)
		}
		x.noteCalls(s.Cond)
		if ct := exprText(s.Cond); s.Init == nil && len(callsIn(s.Cond)) == 0 && !strings.Contains(ct, "err") {
			// a guard on state, not on a call's error: the site is named after the condition
			x.lastCallee = "if " + ct
		}
		x.block(s.Body.List, false)
		if s.Else != nil {
			switch e := s.Else.(type) {
			case *ast.BlockStmt:
				x.block(e.List, false)
			case *ast.IfStmt:
				x.stmt(e, false)
			}
		}
	case *ast.ForStmt:
		x.emit("loopStart", "", s.Pos())
		x.block(s.Body.List, false)
		x.emit("loopEnd", "", s.End())
	case *ast.RangeStmt:
		x.emit("loopStart", "", s.Pos())
		x.block(s.Body.List, false)
		x.emit("loopEnd", "", s.End())
	case *ast.BlockStmt:
		x.block(s.List, false)
	case *ast.SwitchStmt:
		for _, c := range s.Body.List {
			x.block(c.(*ast.CaseClause).Body, false)
		}
	case *ast.DeclStmt, *ast.IncDecStmt, *ast.BranchStmt, *ast.EmptyStmt:
	default:
		x.noteCalls(st)
	}
}
