package main

import (
	"fmt"
	"go/ast"
	"path/filepath"
	"strings"
)

// genVerify extracts what decides "nothing unsigned or altered is accepted" (C08):
//
//  1. VerifyHeader's skeleton: which conditions return an error before the embedded header
//     replaces the outer one.
//  2. For every signature format of VerifyString, each early return on a malformed input
//     (wrong recipient type, no recipients, undecodable signature, unreadable or non-signature
//     packet) and whether it returns an error or nil (= accepts).
//  3. For every call of recovery.Index, which verifier callback it passes: the real one
//     (signature.VerifyHeader with a recipient expression) or a constant nil.
//  4. recovery.Fetch / Query call signature.VerifyHeader directly; Fetch verifies content of
//     regular entries only (the condition under which it copies the raw entry instead).
func genVerify(repo string) string {
	var b strings.Builder
	b.WriteString("namespace Stfs.Gen\n\n")
	vf := parse(filepath.Join(repo, "pkg/signature/verify.go"))

	// ---- 1. VerifyHeader skeleton
	var vh *ast.FuncDecl
	var vs *ast.FuncDecl
	for _, d := range vf.Decls {
		if fd, ok := d.(*ast.FuncDecl); ok {
			switch fd.Name.Name {
			case "VerifyHeader":
				vh = fd
			case "VerifyString":
				vs = fd
			}
		}
	}
	if vh == nil || vs == nil {
		die("verify: VerifyHeader/VerifyString not found")
	}
	type guard struct{ cond, ret string }
	var guards []guard
	replaces := false
	for _, st := range vh.Body.List {
		switch x := st.(type) {
		case *ast.IfStmt:
			c := exprText(x.Cond)
			if x.Init != nil {
				c = stmtText2(x.Init) + "; " + c
			}
			ret := "?"
			if len(x.Body.List) == 1 {
				ret = stmtText(x.Body.List[0])
			}
			guards = append(guards, guard{c, ret})
		case *ast.AssignStmt:
			if exprText(x.Lhs[0]) == "<*ast.StarExpr>" || strings.HasPrefix(stmtText2(x), "*hdr = ") {
				replaces = true
			}
		}
	}
	has := func(condPart, ret string) bool {
		for _, g := range guards {
			if strings.Contains(g.cond, condPart) && g.ret == ret {
				return true
			}
		}
		return false
	}
	fmt.Fprintf(&b, "/-- VerifyHeader: a header without PAX records or without the embedded-header record is rejected -/\ndef verifyRequiresEmbedded : Bool := %v\n",
		has("hdr.PAXRecords == nil", "return config.ErrTarHeaderEmbeddedMissing") && has("!ok", "return config.ErrTarHeaderEmbeddedMissing"))
	fmt.Fprintf(&b, "/-- VerifyHeader: a header without the signature record is rejected -/\ndef verifyRequiresSignature : Bool := %v\n",
		has("!ok", "return config.ErrSignatureMissing"))
	fmt.Fprintf(&b, "/-- VerifyHeader: an error of VerifyString is returned -/\ndef verifyPropagatesError : Bool := %v\n",
		has("VerifyString(embeddedHeader, isRegular, signatureFormat, recipient, signature)", "return err"))
	fmt.Fprintf(&b, "/-- VerifyHeader: on success the outer header is replaced by the decoded embedded one -/\ndef verifyReplacesOuter : Bool := %v\n", replaces)
	fmt.Fprintf(&b, "/-- number of top-level guards seen in VerifyHeader (a new early exit shows up here) -/\ndef verifyHeaderGuards : Nat := %d\n\n", len(guards))

	// ---- 2. VerifyString: returns per format
	b.WriteString("/-- VerifyString, per signature format: every return statement of the format's case in source\n    order, `true` when it returns nil (accepts) — the last one is the verdict of the primitive -/\n")
	for _, key := range []struct{ cfg, name string }{{"SignatureFormatMinisignKey", "minisign"}, {"SignatureFormatPGPKey", "pgp"}} {
		body := caseBodyFD(vs, key.cfg)
		var rets []string
		var walk func(n ast.Node)
		walk = func(n ast.Node) {
			ast.Inspect(n, func(c ast.Node) bool {
				if _, ok := c.(*ast.FuncLit); ok {
					return false
				}
				if r, ok := c.(*ast.ReturnStmt); ok {
					t := stmtText(r)
					switch {
					case t == "return nil":
						rets = append(rets, "true")
					default:
						rets = append(rets, "false")
					}
				}
				return true
			})
		}
		for _, st := range body {
			walk(st)
		}
		fmt.Fprintf(&b, "def verifyStringReturns_%s : List Bool := [%s]\n", key.name, strings.Join(rets, ", "))
	}
	b.WriteString("\n")

	// ---- 3. callers of recovery.Index and their verifier callbacks
	b.WriteString("inductive VerifierArg\n  | real (recipient : List Nat)   -- signature.VerifyHeader(hdr, isRegular, …, <recipient expression>)\n  | constNil                      -- func(…) error { return nil }\n  | other\nderiving DecidableEq, Repr\n\n")
	b.WriteString("/-- every call of recovery.Index: (file, verifier callback) -/\ndef indexCallers : List (List Nat × VerifierArg) := [\n")
	files := []string{"pkg/fs/filesystem.go", "pkg/operations/archive.go", "pkg/operations/update.go", "pkg/operations/delete.go", "pkg/operations/move.go", "cmd/stfs/cmd/recovery_index.go"}
	first := true
	for _, rel := range files {
		f := parse(filepath.Join(repo, rel))
		ast.Inspect(f, func(n ast.Node) bool {
			call, ok := n.(*ast.CallExpr)
			if !ok || exprText(call.Fun) != "recovery.Index" {
				return true
			}
			if len(call.Args) < 3 {
				die("verify: recovery.Index call with %d arguments in %s", len(call.Args), rel)
			}
			// the verifier is the second-to-last argument
			arg := call.Args[len(call.Args)-2]
			kind := ".other"
			if fl, ok := arg.(*ast.FuncLit); ok && len(fl.Body.List) == 1 {
				if r, ok := fl.Body.List[0].(*ast.ReturnStmt); ok && len(r.Results) == 1 {
					t := exprText(r.Results[0])
					if t == "nil" {
						kind = ".constNil"
					} else if c, ok := r.Results[0].(*ast.CallExpr); ok && exprText(c.Fun) == "signature.VerifyHeader" && len(c.Args) == 4 &&
						exprText(c.Args[0]) == "hdr" && exprText(c.Args[1]) == "isRegular" {
						kind = ".real " + leanStr(exprText(c.Args[3])) + " /- " + exprText(c.Args[3]) + " -/"
					}
				}
			}
			if !first {
				b.WriteString(",\n")
			}
			first = false
			fmt.Fprintf(&b, "  (%s /- %s -/, %s)", leanStr(rel), rel, kind)
			return true
		})
	}
	b.WriteString("\n]\n\n")

	// ---- 4. Fetch / Query verify directly; Fetch's raw-copy condition
	direct := func(rel string) int {
		f := parse(filepath.Join(repo, rel))
		n := 0
		ast.Inspect(f, func(c ast.Node) bool {
			if call, ok := c.(*ast.CallExpr); ok && exprText(call.Fun) == "signature.VerifyHeader" && len(call.Args) == 4 &&
				exprText(call.Args[3]) == "crypto.Recipient" {
				// must sit in `if err := …; err != nil { return … err }`
				n++
			}
			return true
		})
		return n
	}
	fmt.Fprintf(&b, "/-- direct calls signature.VerifyHeader(…, crypto.Recipient) in fetch.go and query.go -/\ndef fetchVerifiesHeader : Nat := %d\ndef queryVerifiesHeader : Nat := %d\n",
		direct("pkg/recovery/fetch.go"), direct("pkg/recovery/query.go"))
	// the condition under which Fetch copies the raw entry without verifying its content
	ff := parse(filepath.Join(repo, "pkg/recovery/fetch.go"))
	rawCond := ""
	ast.Inspect(ff, func(c ast.Node) bool {
		ifs, ok := c.(*ast.IfStmt)
		if !ok || rawCond != "" {
			return true
		}
		t := exprText(ifs.Cond)
		if strings.Contains(t, "IsRegular()") {
			rawCond = t
		}
		return true
	})
	if rawCond == "" {
		die("verify: the regular-file condition in Fetch was not found")
	}
	fmt.Fprintf(&b, "/-- fetch.go: the condition of the branch that copies the entry without content verification -/\ndef fetchRawCopyCond : List Nat := %s -- %s\n", leanStr(rawCond), rawCond)
	// content verification happens once the stream ends: signature.Verify is called and its verify() result returned
	nVerify := 0
	ast.Inspect(ff, func(c ast.Node) bool {
		if call, ok := c.(*ast.CallExpr); ok && exprText(call.Fun) == "signature.Verify" {
			nVerify++
		}
		return true
	})
	fmt.Fprintf(&b, "def fetchVerifiesContent : Nat := %d\n", nVerify)
	b.WriteString("\nend Stfs.Gen\n")
	return b.String()
}

func stmtText2(s ast.Stmt) string {
	switch x := s.(type) {
	case *ast.AssignStmt:
		l := []string{}
		for _, e := range x.Lhs {
			if st, ok := e.(*ast.StarExpr); ok {
				l = append(l, "*"+exprText(st.X))
			} else {
				l = append(l, exprText(e))
			}
		}
		r := []string{}
		for _, e := range x.Rhs {
			r = append(r, exprText(e))
		}
		return strings.Join(l, ", ") + " " + x.Tok.String() + " " + strings.Join(r, ", ")
	}
	return stmtText(s)
}

func caseBodyFD(fd *ast.FuncDecl, key string) []ast.Stmt {
	var out []ast.Stmt
	found := false
	ast.Inspect(fd.Body, func(n ast.Node) bool {
		cc, ok := n.(*ast.CaseClause)
		if !ok || found {
			return true
		}
		for _, e := range cc.List {
			if exprText(e) == "config."+key {
				out = cc.Body
				found = true
			}
		}
		return true
	})
	if !found {
		die("verify: case config.%s not found in %s", key, fd.Name.Name)
	}
	return out
}
