package main

import (
	"fmt"
	"go/ast"
	"path/filepath"
	"strings"
)

// genWritePaths extracts what decides "with encryption on, the tape reveals nothing but record
// sizes" (C09) and the header half of C08's write side:
//
//  1. every tw.WriteHeader(X) in pkg/operations: the two statements before it must be
//     `signature.SignHeader(X, …, o.pipes.Signature, o.crypto.Identity)` and
//     `encryption.EncryptHeader(X, o.pipes.Encryption, o.crypto.Recipient)`, on the same X;
//  2. everything that writes content to the tar writer: `encryption.Encrypt(tw, o.pipes.Encryption,
//     o.crypto.Recipient)` is the only thing that takes `tw` as a destination;
//  3. EncryptHeader's skeleton: the new header has exactly Format, Size and one PAX record, the
//     encrypted JSON of the old header;
//  4. the indexer returns the error of decryptHeader (a wrong key ends the rebuild).
func genWritePaths(repo string) string {
	var b strings.Builder
	b.WriteString("namespace Stfs.Gen\n\n")
	b.WriteString("structure WriteSite where\n  file : List Nat\n  line : Nat\n  /-- the statement before WriteHeader(X) is EncryptHeader(X, o.pipes.Encryption, o.crypto.Recipient) -/\n  encryptedBefore : Bool\n  /-- and the one before that SignHeader(X, …, o.pipes.Signature, o.crypto.Identity) -/\n  signedBefore : Bool\nderiving DecidableEq, Repr\n\n")
	b.WriteString("/-- every tw.WriteHeader call of the write operations -/\ndef writeSites : List WriteSite := [\n")
	first := true
	twUses := []string{}
	for _, rel := range []string{"pkg/operations/archive.go", "pkg/operations/update.go", "pkg/operations/delete.go", "pkg/operations/move.go"} {
		f := parse(filepath.Join(repo, rel))
		// walk every statement list
		var lists [][]ast.Stmt
		ast.Inspect(f, func(n ast.Node) bool {
			switch x := n.(type) {
			case *ast.BlockStmt:
				lists = append(lists, x.List)
			case *ast.CaseClause:
				lists = append(lists, x.Body)
			}
			return true
		})
		ifCall := func(st ast.Stmt) *ast.CallExpr {
			// `if err := CALL; err != nil { return … }`
			ifs, ok := st.(*ast.IfStmt)
			if !ok || ifs.Init == nil {
				return nil
			}
			as, ok := ifs.Init.(*ast.AssignStmt)
			if !ok || len(as.Rhs) != 1 {
				return nil
			}
			call, _ := as.Rhs[0].(*ast.CallExpr)
			if call == nil || exprText(ifs.Cond) != "err != nil" || len(ifs.Body.List) != 1 {
				return nil
			}
			if _, ok := ifs.Body.List[0].(*ast.ReturnStmt); !ok {
				return nil
			}
			return call
		}
		for _, list := range lists {
			for i, st := range list {
				call := ifCall(st)
				if call == nil || exprText(call.Fun) != "tw.WriteHeader" || len(call.Args) != 1 {
					continue
				}
				x := exprText(call.Args[0])
				enc, sig := false, false
				if i >= 1 {
					if c := ifCall(list[i-1]); c != nil && exprText(c.Fun) == "encryption.EncryptHeader" && len(c.Args) == 3 &&
						exprText(c.Args[0]) == x && exprText(c.Args[1]) == "o.pipes.Encryption" && exprText(c.Args[2]) == "o.crypto.Recipient" {
						enc = true
					}
				}
				if i >= 2 {
					if c := ifCall(list[i-2]); c != nil && exprText(c.Fun) == "signature.SignHeader" && len(c.Args) == 4 &&
						exprText(c.Args[0]) == x && exprText(c.Args[2]) == "o.pipes.Signature" && exprText(c.Args[3]) == "o.crypto.Identity" {
						sig = true
					}
				}
				if !first {
					b.WriteString(",\n")
				}
				first = false
				fmt.Fprintf(&b, "  { file := %s /- %s -/, line := %d, encryptedBefore := %v, signedBefore := %v }", leanStr(rel), rel, fset.Position(call.Pos()).Line, enc, sig)
			}
		}
		// every other use of `tw` (the tar writer over the drive)
		ast.Inspect(f, func(n ast.Node) bool {
			call, ok := n.(*ast.CallExpr)
			if !ok {
				return true
			}
			fn := exprText(call.Fun)
			if strings.HasPrefix(fn, "tw.") {
				if fn != "tw.WriteHeader" {
					twUses = append(twUses, fn)
				}
				return true
			}
			for k, a := range call.Args {
				if exprText(a) == "tw" {
					twUses = append(twUses, fmt.Sprintf("%s(arg %d)", fn, k))
					if fn == "encryption.Encrypt" && (len(call.Args) != 3 || exprText(call.Args[1]) != "o.pipes.Encryption" || exprText(call.Args[2]) != "o.crypto.Recipient") {
						twUses = append(twUses, "encryption.Encrypt with other arguments")
					}
				}
			}
			return true
		})
	}
	if first {
		die("writepaths: no tw.WriteHeader call found")
	}
	b.WriteString("\n]\n\n")
	qs := []string{}
	for _, u := range twUses {
		qs = append(qs, leanStr(u)+" /- "+u+" -/")
	}
	fmt.Fprintf(&b, "/-- every other use of the tar writer `tw` in the write operations (method calls and\n    `tw` passed as an argument) -/\ndef tarWriterUses : List (List Nat) := [%s]\n\n", strings.Join(qs, ", "))

	// ---- 3. EncryptHeader skeleton
	ef := parse(filepath.Join(repo, "pkg/encryption/encrypt.go"))
	var fields []string
	var paxKeys []string
	replaces := false
	for _, d := range ef.Decls {
		fd, ok := d.(*ast.FuncDecl)
		if !ok || fd.Name.Name != "EncryptHeader" {
			continue
		}
		ast.Inspect(fd.Body, func(n ast.Node) bool {
			switch x := n.(type) {
			case *ast.CompositeLit:
				if exprText2(x.Type) == "tar.Header" {
					for _, e := range x.Elts {
						if kv, ok := e.(*ast.KeyValueExpr); ok {
							fields = append(fields, exprText(kv.Key)+"="+exprText(kv.Value))
						}
					}
				}
			case *ast.AssignStmt:
				for i, l := range x.Lhs {
					if ix, ok := l.(*ast.IndexExpr); ok && exprText(ix.X) == "newHdr.PAXRecords" {
						rhs := ""
						if i < len(x.Rhs) {
							rhs = exprText(x.Rhs[i])
						} else if len(x.Rhs) == 1 {
							rhs = exprText(x.Rhs[0])
						}
						paxKeys = append(paxKeys, exprText(ix.Index)+"="+rhs)
					}
				}
				if len(x.Lhs) == 1 {
					if st, ok := x.Lhs[0].(*ast.StarExpr); ok && exprText(st.X) == "hdr" && len(x.Rhs) == 1 {
						if st2, ok := x.Rhs[0].(*ast.StarExpr); ok && exprText(st2.X) == "newHdr" {
							replaces = true
						}
					}
				}
			}
			return true
		})
	}
	fq := []string{}
	for _, f := range fields {
		fq = append(fq, leanStr(f)+" /- "+f+" -/")
	}
	pq := []string{}
	for _, f := range paxKeys {
		pq = append(pq, leanStr(f)+" /- "+f+" -/")
	}
	fmt.Fprintf(&b, "/-- EncryptHeader: the fields of the header that replaces the real one … -/\ndef encryptHeaderFields : List (List Nat) := [%s]\n", strings.Join(fq, ", "))
	fmt.Fprintf(&b, "/-- … its PAX records … -/\ndef encryptHeaderPax : List (List Nat) := [%s]\n", strings.Join(pq, ", "))
	fmt.Fprintf(&b, "/-- … and `*hdr = *newHdr` -/\ndef encryptHeaderReplaces : Bool := %v\n\n", replaces)

	// ---- 4. the indexer returns decryptHeader's error
	xf := parse(filepath.Join(repo, "pkg/recovery/index.go"))
	sites, strict := 0, 0
	ast.Inspect(xf, func(n ast.Node) bool {
		ifs, ok := n.(*ast.IfStmt)
		if !ok || ifs.Init == nil {
			return true
		}
		as, ok := ifs.Init.(*ast.AssignStmt)
		if !ok || len(as.Rhs) != 1 {
			return true
		}
		call, _ := as.Rhs[0].(*ast.CallExpr)
		if call == nil || exprText(call.Fun) != "decryptHeader" {
			return true
		}
		sites++
		if exprText(ifs.Cond) == "err != nil" && len(ifs.Body.List) == 1 && stmtText(ifs.Body.List[0]) == "return err" && ifs.Else == nil {
			strict++
		}
		return true
	})
	// any other call of decryptHeader (not in the `if err := …` form) counts as a non-strict site
	all := 0
	ast.Inspect(xf, func(n ast.Node) bool {
		if call, ok := n.(*ast.CallExpr); ok && exprText(call.Fun) == "decryptHeader" {
			all++
		}
		return true
	})
	fmt.Fprintf(&b, "/-- index.go: calls of decryptHeader, and how many of them are `if err := decryptHeader(…); err != nil { return err }` -/\ndef decryptHeaderCalls : Nat := %d\ndef decryptHeaderErrorsReturned : Nat := %d\n", all, strict)
	b.WriteString("\nend Stfs.Gen\n")
	return b.String()
}

func exprText2(e ast.Expr) string {
	if e == nil {
		return ""
	}
	return exprText(e)
}
