package main

func genFacts(repo string) string { return "{}\n" }
