package main

func genWritePaths(repo string) string { return "namespace Stfs.Gen\nend Stfs.Gen\n" }
func genFacts(repo string) string      { return "{}\n" }
