package main

import (
	"fmt"
	"go/ast"
	"go/token"
	"path/filepath"
	"sort"
	"strconv"
	"strings"
)

// constants of a package file set: name -> string value (string constants and concatenations)
func stringConsts(files ...string) map[string]string {
	out := map[string]string{}
	var eval func(e ast.Expr) (string, bool)
	eval = func(e ast.Expr) (string, bool) {
		switch x := e.(type) {
		case *ast.BasicLit:
			if x.Kind == token.STRING {
				s, err := strconv.Unquote(x.Value)
				if err != nil {
					return "", false
				}
				return s, true
			}
			if x.Kind == token.INT {
				return x.Value, true
			}
		case *ast.Ident:
			v, ok := out[x.Name]
			return v, ok
		case *ast.BinaryExpr:
			if x.Op == token.ADD {
				a, ok1 := eval(x.X)
				b, ok2 := eval(x.Y)
				return a + b, ok1 && ok2
			}
		case *ast.ParenExpr:
			return eval(x.X)
		}
		return "", false
	}
	for _, p := range files {
		f := parse(p)
		for _, d := range f.Decls {
			gd, ok := d.(*ast.GenDecl)
			if !ok || gd.Tok != token.CONST {
				continue
			}
			for _, sp := range gd.Specs {
				vs := sp.(*ast.ValueSpec)
				for i, n := range vs.Names {
					if i < len(vs.Values) {
						if v, ok := eval(vs.Values[i]); ok {
							out[n.Name] = v
						}
					}
				}
			}
		}
	}
	return out
}

// switchTable extracts, from function fn, the k-th `switch <ident>` statement as a list of
// (case constant value, suffix constant value) honouring fallthrough; "" suffix = no effect.
type swEntry struct{ key, val string }

func switchTables(file, fn string, cfg, suf map[string]string) [][]swEntry {
	f := parse(file)
	var tables [][]swEntry
	for _, d := range f.Decls {
		fd, ok := d.(*ast.FuncDecl)
		if !ok || fd.Name.Name != fn {
			continue
		}
		for _, st := range fd.Body.List {
			sw, ok := st.(*ast.SwitchStmt)
			if !ok {
				continue
			}
			var tab []swEntry
			clauses := sw.Body.List
			// resolve the effect of each clause (following fallthrough)
			effect := func(i int) string {
				for ; i < len(clauses); i++ {
					cc := clauses[i].(*ast.CaseClause)
					ft := false
					val := ""
					has := false
					for _, s := range cc.Body {
						switch x := s.(type) {
						case *ast.BranchStmt:
							if x.Tok == token.FALLTHROUGH {
								ft = true
							}
						case *ast.AssignStmt:
							// name += Suffix   |   name = strings.TrimSuffix(name, Suffix)
							var id *ast.Ident
							if x.Tok == token.ADD_ASSIGN {
								id, _ = x.Rhs[0].(*ast.Ident)
							} else if call, ok := x.Rhs[0].(*ast.CallExpr); ok && len(call.Args) == 2 {
								if sel, ok := call.Fun.(*ast.SelectorExpr); !ok || sel.Sel.Name != "TrimSuffix" {
									die("consts: %s: unexpected call in switch at %v", fn, fset.Position(x.Pos()))
								}
								id, _ = call.Args[1].(*ast.Ident)
							}
							if id == nil {
								die("consts: %s: unexpected assignment at %v", fn, fset.Position(x.Pos()))
							}
							v, ok := suf[id.Name]
							if !ok {
								die("consts: %s: unknown suffix constant %s", fn, id.Name)
							}
							val, has = v, true
						case *ast.ReturnStmt:
							return "\x00err"
						default:
							die("consts: %s: unexpected statement %T at %v", fn, s, fset.Position(s.Pos()))
						}
					}
					if has || !ft {
						return val
					}
				}
				return ""
			}
			for i, c := range clauses {
				cc := c.(*ast.CaseClause)
				if cc.List == nil {
					continue // default: unsupported format error
				}
				for _, e := range cc.List {
					sel, ok := e.(*ast.SelectorExpr)
					if !ok {
						die("consts: %s: case expression is not config.X at %v", fn, fset.Position(e.Pos()))
					}
					k, ok := cfg[sel.Sel.Name]
					if !ok {
						die("consts: %s: unknown config constant %s", fn, sel.Sel.Name)
					}
					tab = append(tab, swEntry{k, effect(i)})
				}
			}
			tables = append(tables, tab)
		}
	}
	if len(tables) != 2 {
		die("consts: %s: expected 2 switch statements, found %d", fn, len(tables))
	}
	return tables
}

func leanTable(name string, tab []swEntry) string {
	var b strings.Builder
	fmt.Fprintf(&b, "def %s : List (List Nat × List Nat) := [\n", name)
	for i, e := range tab {
		sep := ","
		if i == len(tab)-1 {
			sep = ""
		}
		fmt.Fprintf(&b, "  (%s, %s)%s -- %q -> %q\n", leanStr(e.key), leanStr(e.val), sep, e.key, e.val)
	}
	b.WriteString("]\n")
	return b.String()
}

func genConsts(repo string) string {
	rec := stringConsts(filepath.Join(repo, "internal/records/stfs.go"))
	cfg := stringConsts(filepath.Join(repo, "pkg/config/constants.go"))
	suf := stringConsts(filepath.Join(repo, "internal/suffix/config.go"))
	if len(suf) == 0 {
		die("consts: no suffix constants found")
	}
	var b strings.Builder
	b.WriteString("namespace Stfs.Gen\n\n")
	keys := make([]string, 0, len(rec))
	for k := range rec {
		keys = append(keys, k)
	}
	sort.Strings(keys)
	for _, k := range keys {
		fmt.Fprintf(&b, "def rec%s : List Nat := %s -- %q\n", k, leanStr(rec[k]), rec[k])
	}
	for _, want := range []string{"STFSRecordVersion", "STFSRecordVersion1", "STFSRecordAction", "STFSRecordActionCreate", "STFSRecordActionDelete", "STFSRecordActionUpdate", "STFSRecordReplacesContent", "STFSRecordReplacesContentTrue", "STFSRecordReplacesContentFalse", "STFSRecordReplacesName", "STFSRecordUncompressedSize", "STFSRecordSignature", "STFSRecordEmbeddedHeader"} {
		if _, ok := rec[want]; !ok {
			die("consts: records constant %s missing", want)
		}
	}
	bs, ok := cfg["MagneticTapeBlockSize"]
	if !ok {
		die("consts: MagneticTapeBlockSize missing")
	}
	fmt.Fprintf(&b, "\ndef magneticTapeBlockSize : Int := %s\n\n", bs)

	add := switchTables(filepath.Join(repo, "internal/suffix/add.go"), "AddSuffix", cfg, suf)
	rem := switchTables(filepath.Join(repo, "internal/suffix/remove.go"), "RemoveSuffix", cfg, suf)
	// AddSuffix: compression first, then encryption.  RemoveSuffix: encryption first, then compression.
	b.WriteString("/-- `AddSuffix`: first switch (applied first) -/\n" + leanTable("addSuffixFirst", add[0]))
	b.WriteString("/-- `AddSuffix`: second switch -/\n" + leanTable("addSuffixSecond", add[1]))
	b.WriteString("/-- `RemoveSuffix`: first switch (applied first) -/\n" + leanTable("removeSuffixFirst", rem[0]))
	b.WriteString("/-- `RemoveSuffix`: second switch -/\n" + leanTable("removeSuffixSecond", rem[1]))
	// which parameter each switch inspects
	which := func(file, fn string) []string {
		f := parse(file)
		var out []string
		for _, d := range f.Decls {
			if fd, ok := d.(*ast.FuncDecl); ok && fd.Name.Name == fn {
				for _, st := range fd.Body.List {
					if sw, ok := st.(*ast.SwitchStmt); ok {
						out = append(out, fmt.Sprint(sw.Tag))
					}
				}
			}
		}
		return out
	}
	wa := which(filepath.Join(repo, "internal/suffix/add.go"), "AddSuffix")
	wr := which(filepath.Join(repo, "internal/suffix/remove.go"), "RemoveSuffix")
	fmt.Fprintf(&b, "/-- true when the first switch of AddSuffix inspects the compression format -/\ndef addSuffixFirstIsCompression : Bool := %v\n", wa[0] == "compressionFormat" && wa[1] == "encryptionFormat")
	fmt.Fprintf(&b, "def removeSuffixFirstIsEncryption : Bool := %v\n\n", wr[0] == "encryptionFormat" && wr[1] == "compressionFormat")

	// pathext.IsRoot: the literal spellings compared against
	f := parse(filepath.Join(repo, "internal/pathext/path.go"))
	var spellings []string
	ast.Inspect(f, func(n ast.Node) bool {
		be, ok := n.(*ast.BinaryExpr)
		if ok && be.Op == token.EQL {
			if lit, ok := be.Y.(*ast.BasicLit); ok && lit.Kind == token.STRING {
				s, _ := strconv.Unquote(lit.Value)
				spellings = append(spellings, s)
			}
		}
		return true
	})
	b.WriteString("def isRootSpellings : List (List Nat) := [")
	for i, s := range spellings {
		if i > 0 {
			b.WriteString(", ")
		}
		b.WriteString(leanStr(s))
	}
	b.WriteString("]\n")

	// known format lists
	for _, lst := range []string{"KnownCompressionFormats", "KnownEncryptionFormats", "KnownSignatureFormats"} {
		cf := parse(filepath.Join(repo, "pkg/config/constants.go"))
		found := false
		ast.Inspect(cf, func(n ast.Node) bool {
			vs, ok := n.(*ast.ValueSpec)
			if !ok || len(vs.Names) != 1 || vs.Names[0].Name != lst {
				return true
			}
			cl := vs.Values[0].(*ast.CompositeLit)
			fmt.Fprintf(&b, "def %s : List (List Nat) := [", strings.ToLower(lst[:1])+lst[1:])
			for i, e := range cl.Elts {
				if i > 0 {
					b.WriteString(", ")
				}
				b.WriteString(leanStr(cfg[fmt.Sprint(e)]))
			}
			b.WriteString("]\n")
			found = true
			return false
		})
		if !found {
			die("consts: %s not found", lst)
		}
	}
	b.WriteString("\nend Stfs.Gen\n")
	return b.String()
}
