package main

import (
	"fmt"
	"go/ast"
	"path/filepath"
	"strings"
)

// genKeyWrap extracts from pkg/utility/keygen.go and pkg/keys/identity.go, per key format,
// under which condition on the password the private half is wrapped when generated and
// unwrapped when parsed, and whether password and key bytes reach those calls unchanged.
//
//	always        the wrapping call is reached on every path of the format's case
//	iffNonEmpty   it sits inside `if password != "" { … }`
//	never         the case does not contain it
//
// Any other shape (another condition, a transformed password) is reported as a translator
// failure: the model's rule for that format would no longer mean what the code does.
func genKeyWrap(repo string) string {
	var b strings.Builder
	b.WriteString("namespace Stfs.Gen\n\n")
	b.WriteString("inductive WrapRule | always | iffNonEmpty | never\nderiving DecidableEq, Repr\n\n")

	kg := parse(filepath.Join(repo, "pkg/utility/keygen.go"))
	id := parse(filepath.Join(repo, "pkg/keys/identity.go"))

	emit := func(name, rule, comment string) {
		fmt.Fprintf(&b, "/-- %s -/\ndef %s : WrapRule := .%s\n", comment, name, rule)
	}
	emit("ageKeygenWrap", wrapRule(kg, "generateEncryptionKey", "EncryptionFormatAgeKey", "age.NewScryptRecipient"),
		"keygen.go, age: the identity is encrypted to a scrypt recipient derived from the password")
	emit("pgpKeygenWrap", wrapRule(kg, "generateEncryptionKey", "EncryptionFormatPGPKey", "helper.GenerateKey"),
		"keygen.go, pgp: helper.GenerateKey locks the key with the passphrase it is given")
	emit("minisignKeygenWrap", wrapRule(kg, "generateSignatureKey", "SignatureFormatMinisignKey", "minisign.EncryptKey"),
		"keygen.go, minisign: EncryptKey derives a key from the password")
	emit("ageParseUnwrap", wrapRule(id, "ParseIdentity", "EncryptionFormatAgeKey", "age.NewScryptIdentity"),
		"identity.go, age: decrypt with a scrypt identity derived from the password")
	emit("pgpParseUnwrap", wrapRule(id, "ParseIdentity", "EncryptionFormatPGPKey", "identity.PrivateKey.Decrypt"),
		"identity.go, pgp: PrivateKey.Decrypt with the password")
	emit("minisignParseUnwrap", wrapRule(id, "ParseSignerIdentity", "SignatureFormatMinisignKey", "minisign.DecryptKey"),
		"identity.go, minisign: DecryptKey with the password")

	// the pgp signature format reuses the pgp encryption code on both sides
	sigGen := caseBody(kg, "generateSignatureKey", "SignatureFormatPGPKey")
	sigParse := caseBody(id, "ParseSignerIdentity", "SignatureFormatPGPKey")
	reuse := len(sigGen) == 1 && strings.HasPrefix(stmtText(sigGen[0]), "return generateEncryptionKey(signatureFormat, password)") &&
		len(sigParse) == 1 && strings.HasPrefix(stmtText(sigParse[0]), "return ParseIdentity(signatureFormat, privkey, password)")
	fmt.Fprintf(&b, "/-- the pgp signature format delegates to the pgp encryption code for keygen and parsing -/\ndef pgpSignatureReusesEncryption : Bool := %v\n", reuse)

	// password and key bytes reach the calls unchanged: the only assignments to `password`,
	// `password.Password` or `privkey` in these functions are the ones known here
	var assigns []string
	for _, f := range []*ast.File{kg, id} {
		ast.Inspect(f, func(n ast.Node) bool {
			as, ok := n.(*ast.AssignStmt)
			if !ok {
				return true
			}
			for i, l := range as.Lhs {
				lt := exprText(l)
				if lt == "password" || lt == "password.Password" || lt == "privkey" {
					rhs := "?"
					if i < len(as.Rhs) {
						rhs = exprText(as.Rhs[i])
					} else if len(as.Rhs) == 1 {
						rhs = exprText(as.Rhs[0])
					}
					assigns = append(assigns, lt+" = "+rhs)
				}
			}
			return true
		})
	}
	known := map[string]bool{"privkey = priv": true, "privkey = out.Bytes()": true}
	verbatim := true
	for _, a := range assigns {
		if !known[a] {
			verbatim = false
		}
	}
	// Keygen hands password.Password to the generators as is
	passArgs := 0
	ast.Inspect(kg, func(n ast.Node) bool {
		call, ok := n.(*ast.CallExpr)
		if !ok {
			return true
		}
		fn := exprText(call.Fun)
		if fn == "generateEncryptionKey" || fn == "generateSignatureKey" {
			if len(call.Args) == 2 && (exprText(call.Args[1]) == "password.Password" || exprText(call.Args[1]) == "password") {
				passArgs++
			} else {
				verbatim = false
			}
		}
		return true
	})
	if passArgs < 3 {
		verbatim = false
	}
	fmt.Fprintf(&b, "/-- password and private-key bytes reach the wrapping/unwrapping calls unchanged (assignments seen: %s) -/\ndef keyMaterialVerbatim : Bool := %v\n",
		strings.Join(assigns, "; "), verbatim)
	b.WriteString("\nend Stfs.Gen\n")
	return b.String()
}

func stmtText(s ast.Stmt) string {
	switch x := s.(type) {
	case *ast.ReturnStmt:
		parts := []string{}
		for _, r := range x.Results {
			parts = append(parts, exprText(r))
		}
		return "return " + strings.Join(parts, ", ")
	case *ast.ExprStmt:
		return exprText(x.X)
	}
	return fmt.Sprintf("<%T>", s)
}

// caseBody returns the statements of `case config.<key>:` in the (first) switch of fn.
func caseBody(f *ast.File, fn, key string) []ast.Stmt {
	var out []ast.Stmt
	found := false
	for _, d := range f.Decls {
		fd, ok := d.(*ast.FuncDecl)
		if !ok || fd.Name.Name != fn || fd.Body == nil {
			continue
		}
		ast.Inspect(fd.Body, func(n ast.Node) bool {
			cc, ok := n.(*ast.CaseClause)
			if !ok || found {
				return true
			}
			for _, e := range cc.List {
				if exprText(e) == "config."+key {
					out = cc.Body
					found = true
				}
			}
			return true
		})
	}
	if !found {
		die("keywrap: case config.%s not found in %s", key, fn)
	}
	return out
}

// wrapRule classifies where, inside the format's case, the wrapping call occurs.
func wrapRule(f *ast.File, fn, key, callee string) string {
	body := caseBody(f, fn, key)
	rule := "never"
	var walk func(stmts []ast.Stmt, cond string)
	seen := func(n ast.Node) bool {
		hit := false
		ast.Inspect(n, func(c ast.Node) bool {
			if _, ok := c.(*ast.BlockStmt); ok {
				return false // nested blocks are walked with their own condition
			}
			if call, ok := c.(*ast.CallExpr); ok {
				if exprText(call.Fun) == callee || strings.HasSuffix(exprText(call.Fun), "."+callee) {
					// the password must be the argument the callee derives its key from
					okArg := false
					for _, a := range call.Args {
						t := exprText(a)
						if t == "password" || strings.Contains(t, "(password)") {
							okArg = true
						}
					}
					if !okArg {
						die("keywrap: %s in %s/%s is not called with the password as given: %s", callee, fn, key, exprText(call))
					}
					hit = true
				}
			}
			return true
		})
		return hit
	}
	set := func(r string) {
		if rule != "never" && rule != r {
			die("keywrap: %s occurs under different conditions in %s/%s", callee, fn, key)
		}
		rule = r
	}
	walk = func(stmts []ast.Stmt, cond string) {
		for _, st := range stmts {
			switch x := st.(type) {
			case *ast.IfStmt:
				if x.Init != nil && seen(x.Init) {
					set(condRule(cond, fn, key))
				}
				c := exprText(x.Cond)
				inner := cond
				if strings.Contains(c, "password") {
					if cond != "" {
						die("keywrap: nested password conditions in %s/%s", fn, key)
					}
					inner = c
				}
				walk(x.Body.List, inner)
				if x.Else != nil {
					if strings.Contains(c, "password") {
						die("keywrap: else-branch of a password condition in %s/%s", fn, key)
					}
					if eb, ok := x.Else.(*ast.BlockStmt); ok {
						walk(eb.List, cond)
					}
				}
			case *ast.ForStmt:
				walk(x.Body.List, cond)
			case *ast.RangeStmt:
				walk(x.Body.List, cond)
			case *ast.BlockStmt:
				walk(x.List, cond)
			default:
				if seen(st) {
					set(condRule(cond, fn, key))
				}
			}
		}
	}
	walk(body, "")
	return rule
}

func condRule(cond, fn, key string) string {
	switch cond {
	case "":
		return "always"
	case "password != \"\"":
		return "iffNonEmpty"
	}
	die("keywrap: unrecognised password condition %q in %s/%s", cond, fn, key)
	return ""
}
