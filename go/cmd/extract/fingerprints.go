package main

import (
	"bytes"
	"fmt"
	"go/ast"
	"go/printer"
	"go/token"
	"hash/fnv"
	"path/filepath"
	"sort"
	"strings"
)

// genFingerprints emits, for every function of the packages whose behaviour the Lean model
// mirrors *by hand*, a fingerprint of its source: the FNV-1a hash of the function's AST printed
// without comments (so that comments and formatting do not matter, anything else does).
// The property files state which fingerprints their hand-written model parts were written
// against; when one changes the obligation fails and the check searches for a failing input.
// This is a tripwire, not a translation: it says "the code the model mirrors has changed",
// which the correspondence then has to confirm or refute.
func genFingerprints(repo string) string {
	var b strings.Builder
	b.WriteString("namespace Stfs.Gen\n\n")
	files := []string{
		"pkg/persisters/metadata.go", "pkg/recovery/index.go", "pkg/recovery/fetch.go", "pkg/recovery/query.go",
		"pkg/operations/archive.go", "pkg/operations/update.go", "pkg/operations/delete.go", "pkg/operations/move.go", "pkg/operations/restore.go",
		"pkg/inventory/stat.go", "pkg/inventory/list.go", "pkg/cache/filesystem.go", "pkg/fs/filesystem.go", "pkg/fs/file.go",
		"internal/pathext/path.go", "pkg/tape/manager.go",
	}
	type fp struct {
		name string
		h    uint64
	}
	var fps []fp
	for _, rel := range files {
		matches, _ := filepath.Glob(filepath.Join(repo, rel))
		if len(matches) == 0 {
			continue
		}
		f := parse(filepath.Join(repo, rel))
		for _, d := range f.Decls {
			fd, ok := d.(*ast.FuncDecl)
			if !ok || fd.Body == nil {
				continue
			}
			recv := ""
			if fd.Recv != nil && len(fd.Recv.List) == 1 {
				switch t := fd.Recv.List[0].Type.(type) {
				case *ast.StarExpr:
					recv = fmt.Sprint(t.X) + "."
				case *ast.Ident:
					recv = t.Name + "."
				}
			}
			// print the declaration without comments and without positions
			fd2 := *fd
			fd2.Doc = nil
			var buf bytes.Buffer
			cfg := printer.Config{Mode: printer.RawFormat}
			if err := cfg.Fprint(&buf, token.NewFileSet(), &fd2); err != nil {
				die("fingerprints: %v", err)
			}
			// comments inside the body are not attached to the FuncDecl node by the printer when a
			// fresh FileSet is used; normalise whitespace on top
			text := strings.Join(strings.Fields(buf.String()), " ")
			h := fnv.New64a()
			h.Write([]byte(text))
			pkg := filepath.Base(filepath.Dir(rel))
			fps = append(fps, fp{pkg + "." + recv + fd.Name.Name, h.Sum64() >> 3}) // 61 bits: a small Nat literal
		}
	}
	sort.Slice(fps, func(i, j int) bool { return fps[i].name < fps[j].name })
	b.WriteString("/-- (function, fingerprint of its comment-free source) for the code the model mirrors by hand -/\ndef fingerprints : List (List Nat × Nat) := [\n")
	for i, f := range fps {
		sep := ","
		if i == len(fps)-1 {
			sep = ""
		}
		fmt.Fprintf(&b, "  (%s, %d)%s -- %s\n", leanStr(f.name), f.h, sep, f.name)
	}
	b.WriteString("]\n\n")
	b.WriteString("def fingerprintOf (f : List Nat) : Option Nat := (fingerprints.find? (fun x => x.1 == f)).map (·.2)\n")
	b.WriteString("\nend Stfs.Gen\n")
	return b.String()
}
